"""C17, third part -- the bridges of mystic.constraints between conditions, penalties, constraints and solvers:
with_penalty, with_constraint, as_penalty, as_constraint, issolution, solve, vectorize, unique / impose_unique,
near_integers, has_unique.

Specification: specs/cons/Bridges.tla (EXTENDS Couplers, INSTANCE Penalty).  One state = one case; TLC checks the laws
(zero exactly on the feasible / fixed set, cost + penalty, cost at the constrained point, axis duality, existence of a
unique completion <=> no ValueError, ...) on a bounded class and emits every case with the expected tables or with the
post-condition; `bridges_part` replays every emitted line on the real functions:
  * exact equality where the arithmetic is exact (tables, dyadic vectors; sqrt of a non-square stays symbolic in the
    specification and is compared to 1e-12 relative);
  * post-conditions with seeded RNG where the function randomises (unique) or runs a solver (solve, as_constraint).
Violation keys start with `bridge:`.

H17 (spellings and boundary values): every emitted case is replayed in a spelling chosen by rotation (Rep.pick): k and h written
or omitted where the specification says they are the type's documented defaults (`dflt`), k as int / float / numpy scalar,
condition arguments as args=(d,) / args=[d] / kwds, probe points and lattice points as ints, floats, numpy scalars, lists,
tuples, float64 / int64 / float32 arrays, tolerances as int / float / numpy float, vectorize data as float64 / int64 / float32 /
Fortran-ordered / strided view and axis as int / numpy int / omitted, near_integers / has_unique on lists, tuples, arrays, mixed
number types and the empty vector, unique() on lists / tuples / numpy scalars with `full` as set / frozenset / list / tuple /
range; the catalogues hold negative and two-digit values.  ck.extra["c17_bridges"]["spellings"] counts the uses.
"""
import io, math, random as pyrandom, contextlib, shutil, itertools, functools
from concurrent.futures import ThreadPoolExecutor
from harness.core import Check
from harness.tlc import run_tlc, counterexample, scratch_dir

PINF = float("inf")
FAMS = ("withpen", "aspen", "withcons", "vect", "vectr", "scalar", "uniq", "solvec", "solvep")
TOL_SOLVE = 1e-2          # post-condition of solver runs: issolution(penalty, y, tol=TOL_SOLVE)
K_DICT = "bridge:unique-dict-type-forgotten-on-second-call"


# =========================================================================================
# TLC side
# =========================================================================================
def bridge_tables(a, nparts=None):
    """run MC_Bridges (quick / thorough cfg) in `nparts` TLC processes; -> {"runs": [...], fam: [cases]}"""
    cfg = "MC_Bridges_%s.cfg" % ("thorough" if a.tier == "thorough" else "quick")
    if nparts is None:
        nparts = 5 if a.tier == "thorough" else 3          # (+ the vacuity run: at most 6 TLC processes)
    nparts = max(1, min(nparts, getattr(a, "jobs", 3) or 1, 6))

    def one(part):
        return run_tlc("cons/MC_Bridges", cfg=cfg, workers=1, timeout=3000, heap="3g",
                       env={"C17B_NPARTS": nparts, "C17B_PART": part, "_JAVA_OPTIONS": "-XX:CICompilerCount=2"})
    def vac():
        return run_tlc("cons/MC_Bridges", cfg="MC_Bridges_vacuity.cfg", workers=1)
    with ThreadPoolExecutor(max_workers=nparts + 1) as ex:
        fv = ex.submit(vac) if not getattr(a, "_no_vac", False) else None
        runs = list(ex.map(one, range(nparts)))
        vacuity = fv.result() if fv is not None else None
    tl = {"runs": runs, "cfg": cfg}
    for f in FAMS:
        tl[f] = []
    for r in runs:
        for p in r.printed:
            if not isinstance(p, dict) or p.get("fam") not in tl:
                raise RuntimeError("unparsable case line from MC_Bridges: %r" % (p,))
            tl[p["fam"]].append(p)
    tl["vacuity"] = vacuity
    return tl


def vals(o):
    """ToJson renders a function over 1..n as an array and any other function as an object"""
    return list(o.values()) if isinstance(o, dict) else list(o)


def vt_float(vt):
    """a value of Penalty.tla <<tcode, n, d, lg>> -> (float, exact?)"""
    t, n, d, lg = vt
    if t == 1:
        return PINF, True
    if t == 2:
        return -PINF, True
    if t == 3:
        return float("nan"), True
    v = n / d
    for a_, q in lg:
        v -= math.log(a_) / q
    return v, not lg


def same(got, exp, exact, rel=1e-12):
    """rel: the stated tolerance where a square root is taken (1e-12; 1e-6 when the point is given in single precision:
    numpy then computes the residual in float32)"""
    try:
        got = float(got)
    except Exception:
        return False
    if exp != exp:
        return got != got
    if exact or exp in (PINF, -PINF):
        return got == exp
    return abs(got - exp) <= rel * max(1.0, abs(exp))


def rel_of(x):
    return 1e-6 if str(getattr(x, "dtype", "")) == "float32" else 1e-12


def rad_float(v):
    """<<num, den, rad>> = num/den*sqrt(rad)"""
    num, den, rad = v
    return (num / den) * (math.sqrt(rad) if rad != 1 else 1.0), rad == 1


# =========================================================================================
# table-driven callables
# =========================================================================================
def scalar_fn(T, M, zd=None):
    """f(x, a=0) = T[(x + a) % M]; a table entry `zd` raises ZeroDivisionError"""
    def f(x, a=0):
        v = T[(int(x) + int(a)) % M]
        if zd is not None and v == zd:
            return 1.0 / 0
        return float(v) if zd is not None else v
    return f


class Lat(object):
    """the lattice {0, 1/2, .., (S-1)/2}^2; point index p = S*i + j"""
    def __init__(self, S):
        self.S = S
        self.pts = [(i / 2.0, j / 2.0) for i in range(S) for j in range(S)]

    def snap(self, x):
        ij = []
        for v in list(x)[:2]:
            v = float(v)
            k = int(round(2 * v)) if v == v and abs(v) < 1e9 else 0
            ij.append(min(max(k, 0), self.S - 1))
        return self.S * ij[0] + ij[1]

    def cons(self, tab, as_list=True):
        """c(x, a=0): the table read at point index (p + a) % S^2"""
        N = len(tab)

        def c(x, a=0):
            q = self.pts[tab[(self.snap(x) + int(a)) % N]]
            return [q[0], q[1]]
        return c


# =========================================================================================
# the replay
# =========================================================================================
class Rep(object):
    def __init__(self, ck, mc, cp, mp, a, light):
        self.ck, self.mc, self.cp, self.mp, self.a, self.light = ck, mc, cp, mp, a, light
        self.stats = {}
        self.obs = {}
        self.spell = {}
        self.legacy = False          # True: one spelling per input, as before H17

    def bad(self, key, detail, what):
        self.ck.violation(key, detail, what)

    def count(self, k, n=1):
        self.stats[k] = self.stats.get(k, 0) + n

    def pick(self, kind, seq, k):
        """H17: the spelling number k of the rotation `seq` (counted per kind for the evidence); legacy: the first one"""
        how = seq[0] if self.legacy else seq[k % len(seq)]
        self.spell[kind + ":" + how] = self.spell.get(kind + ":" + how, 0) + 1
        return how

    def cmp_list(self, key, detail, exp_vts, fn, xs, what):
        """fn(x) for every x against Penalty-style values"""
        for x, vt in zip(xs, exp_vts):
            exp, exact = vt_float(vt)
            try:
                got = fn(x)
            except Exception as ex:
                got = "raised %r" % (ex,)
            if isinstance(got, str) or not same(got, exp, exact):
                self.bad(key, dict(detail, x=x, expected=exp, got=got), "%s at x=%s: specification says %r, mystic gives %r" % (what, x, exp, got))
                return False
        return True

    # ---------------------------------------------------------------- with_penalty
    def withpen(self, cases):
        import numpy
        with numpy.errstate(divide="ignore"):          # the barrier type on its boundary: -log(0) = inf is the specified value
            self._withpen(cases)

    def _withpen(self, cases):
        import numpy
        mc, mp, cp = self.mc, self.mp, self.cp
        for n, cs in enumerate(cases):
            M = len(cs["cond"])
            X = list(range(M))
            INF, ZD = cs["inf"], cs["zd"]
            cond = scalar_fn(cs["cond"], M, zd=ZD)
            k = PINF if cs["k"] == INF else cs["k"]
            d, it = cs["d"], cs["it"]
            kw = {"k": k, "h": cs["h"]}
            if cs.get("dflt") and self.pick("with_penalty-k-h", ("written", "omitted (the type's defaults)", "written"), n) != "written":
                kw = {}                                    # the specification says these k, h are the documented defaults of the type
            elif k != PINF:
                hk = self.pick("with_penalty-k", ("int", "float", "np_int64", "np_float64"), n)
                kw["k"] = {"int": int, "float": float, "np_int64": numpy.int64, "np_float64": numpy.float64}[hk](k)
            if d:
                ha = self.pick("condition-args", ("args=(d,)", "kwds={'a': d}", "args=[d]"), n + 1)
                if ha == "kwds={'a': d}":
                    kw["kwds"] = {"a": d}
                else:
                    kw["args"] = (d,) if ha == "args=(d,)" else [d]
            elif n % 3 == 0:
                kw["args"] = (0,)
            hx = self.pick("probe-x", ("int", "float", "np_int64", "np_float32"), n // 2)
            X = [{"int": int, "float": float, "np_int64": numpy.int64, "np_float32": numpy.float32}[hx](x) for x in X]
            desc = "with_penalty(%s, k=%s, h=%s%s)(cond) with cond=%s" % (
                cs["ty"], k, cs["h"], "".join(", %s=%r" % (q, kw[q]) for q in ("args", "kwds") if q in kw),
                ["ZeroDivisionError" if v == ZD else v for v in cs["cond"]])
            det = {"ptype": cs["ty"], "k": cs["k"], "h": cs["h"], "cond": cs["cond"], "d": d, "it": it, "routing": {q: repr(kw[q]) for q in ("args", "kwds") if q in kw}}
            viol = [v for v in cs["err2"] if v != 0]
            self.ck.case(nontrivial=bool(viol) and len(viol) < M, key=("withpen", cs["ty"], cs["k"], cs["h"], str(cs["cond"]), d, it, str(cs["cost"])))
            self.count("withpen")
            try:
                p = mc.with_penalty(getattr(mp, cs["ty"]), **kw)(cond)
            except Exception as ex:
                self.bad("bridge:with_penalty:raises", dict(det, error=repr(ex)), "%s raised %r" % (desc, ex))
                continue
            if getattr(p, "func", None) is not cond or getattr(p, "ptype", None) != cs["ty"] or \
                    not all(callable(getattr(p, q, None)) for q in ("iter", "iteration", "clear", "error", "store", "stored")):
                self.bad("bridge:with_penalty:attributes", dict(det, func=repr(getattr(p, "func", None)), ptype=getattr(p, "ptype", None)),
                         "%s: .func / .ptype / the penalty controls are not those of the documented penalty" % desc)
                continue
            if it:
                if n % 2:
                    p.iter(it)
                else:
                    for _ in range(it):
                        p.iter()
            if p.iteration() != it:
                self.bad("bridge:with_penalty:iter", dict(det, iteration=p.iteration()), "%s: after advancing to iteration %d, iteration() = %r" % (desc, it, p.iteration()))
            if not self.cmp_list("bridge:with_penalty:value", det, cs["pen"], lambda x: p(x), X, "%s, iteration %d" % (desc, it)):
                continue
            # error(x) and issolution on a penalty
            for x in X:
                e2 = cs["err2"][int(x)]
                exp = PINF if e2 == INF else math.sqrt(e2)
                got = p.error(x)
                if got != exp:
                    self.bad("bridge:with_penalty:error", dict(det, x=x, expected=exp, got=got), "%s: error(%d) should be %r, is %r" % (desc, x, exp, got))
                    break
            for st in vals(cs["sol"]):
                tol = st["tol"]
                ht = self.pick("issolution-tol", ("float", "int", "np_float64", "float"), n + tol)
                tolv = {"float": float, "int": int, "np_float64": numpy.float64}[ht](tol)
                for x in X:
                    if tol == 0 and (self.legacy or n % 2):
                        got = mc.issolution(p, x)                      # (errors are whole numbers here: the default 1e-3 decides like 0)
                    else:
                        got = mc.issolution(p, x, tol=tolv)
                    x = int(x)
                    if bool(got) != st["acc"][x]:
                        self.bad("bridge:issolution:penalty", dict(det, x=x, tol=tol or "default", expected=st["acc"][x], got=bool(got)),
                                 "issolution(%s, %d%s) should be %s (error(x)=%s)" % (desc, x, "" if tol == 0 else ", tol=%d" % tol, st["acc"][x], p.error(x)))
                        break
            # a cost coupled with the penalty: cost(x) + penalty(x)
            cost = scalar_fn(cs["cost"], M)
            g = cp.additive(p)(cost)
            self.cmp_list("bridge:with_penalty:additive-cost", dict(det, cost=cs["cost"]), cs["add"], lambda x: g(x), X,
                          "additive(%s)(cost) with cost=%s, iteration %d" % (desc, cs["cost"], it))
            # clear()
            p.clear()
            if p.iteration() != 0:
                self.bad("bridge:with_penalty:clear", dict(det, iteration=p.iteration()), "%s: iteration() = %r after clear()" % (desc, p.iteration()))
            self.cmp_list("bridge:with_penalty:clear", det, cs["pen0"], lambda x: p(x), X, "%s after clear()" % desc)
        if cases:
            s = cases[len(cases) // 2]
            self.ck.sample({"with_penalty": {q: s[q] for q in ("ty", "k", "h", "cond", "it", "d")}, "p(x) as <<kind,num,den,logs>>": s["pen"]})

    # ---------------------------------------------------------------- with_constraint
    def withcons(self, cases):
        mc, cp = self.mc, self.cp
        for n, cs in enumerate(cases):
            M = len(cs["cf"])
            X = list(range(M))
            d = cs["d"]
            c, f = scalar_fn(cs["cf"], M), scalar_fn(cs["ff"], M)
            det = {"c": cs["cf"], "f": cs["ff"], "d": d}
            self.ck.case(nontrivial=cs["costat"] != cs["ff"], key=("withcons", str(cs["cf"]), str(cs["ff"]), d))
            self.count("withcons")
            k0 = None
            for w in cs["wc"]:
                ct, exp = w["ctype"], w["tab"]
                what = "with_constraint(%s%s)(c)%s with c=%s" % (ct, "" if ct.endswith("proxy") else ", args=(%d,)" % d,
                                                                "(x, %d)" % d if ct.endswith("proxy") else "(x)", cs["cf"])
                try:
                    if ct.endswith("proxy"):
                        k = mc.with_constraint(getattr(cp, ct))(c)
                        got = [k(x, d) for x in X]
                    else:
                        k = mc.with_constraint(getattr(cp, ct), args=(d,))(c) if n % 2 else mc.with_constraint(getattr(cp, ct), kwds={"a": d})(c)
                        got = [k(x) for x in X]
                        if ct == "inner":
                            k0 = k
                        if d == 0:
                            kd = mc.with_constraint(getattr(cp, ct))(c)
                            got0 = [kd(x) for x in X]
                            if got0 != exp:
                                got = got0
                except Exception as ex:
                    got = "raised %r" % (ex,)
                if got != exp:
                    self.bad("bridge:with_constraint:%s" % ct, dict(det, expected=exp, got=got), "%s: specification says %s, mystic gives %s" % (what, exp, got))
            if k0 is None:
                continue
            for name, coupler, key in (("costat", cp.inner, "cost-at-constrained-point"), ("consof", cp.outer, "constraint-of-value")):
                try:
                    g = coupler(k0)(f)
                    got = [g(x) for x in X]
                except Exception as ex:
                    got = "raised %r" % (ex,)
                if got != cs[name]:
                    self.bad("bridge:with_constraint:%s" % key, dict(det, expected=cs[name], got=got),
                             "%s(with_constraint(inner, args=(%d,))(c))(f) with c=%s f=%s: specification says %s, mystic gives %s" % (
                                 coupler.__name__, d, cs["cf"], cs["ff"], cs[name], got))
        if cases:
            s = cases[len(cases) // 2]
            self.ck.sample({"with_constraint": {"c": s["cf"], "f": s["ff"], "d": s["d"]}, "k": s["wc"][0]["tab"], "inner(k)(f)": s["costat"]})

    # ---------------------------------------------------------------- as_penalty / issolution
    def aspen(self, cases):
        mc, mp = self.mc, self.mp
        import numpy
        for n, cs in enumerate(cases):
            lat = Lat(cs["S"])
            N = len(cs["tab"])
            d = cs["d"]
            c = lat.cons(cs["tab"])
            c_d = (lambda x: c(x, d)) if d else c
            pts = [list(q) for q in lat.pts]
            if self.legacy:
                pts_in = [numpy.array(q) for q in pts] if n % 3 == 2 else pts
            else:
                pts_in = [self.spell_point(q, n + j) for j, q in enumerate(pts)]
            det = {"S": cs["S"], "constraint_table": cs["tab"], "d": d, "t1": cs["t1"], "t2": cs["t2"], "swap": cs["sw"]}
            desc = "c = table %s on {0,.5,..}^2 (point index = %d*2x0 + 2x1)%s" % (cs["tab"], cs["S"], ", extra argument %d" % d if d else "")
            nfix = len(cs["fixed"])
            self.ck.case(nontrivial=0 < nfix < N, key=("aspen", str(cs["tab"]), d))
            self.count("aspen")
            route = {}
            if d:
                route = {"args": (d,)} if n % 2 else {"kwds": {"a": d}}
            ok = True
            for pj in cs["pen"]:
                ty = pj["ty"]
                for pk in vals(pj["v"]):
                    try:
                        hk = self.pick("as_penalty-k", ("int", "float", "np_int64", "np_float64"), n + pk["k"])
                        kv = {"int": int, "float": float, "np_int64": numpy.int64, "np_float64": numpy.float64}[hk](pk["k"])
                        if self.pick("as_penalty-ptype", ("positional", "keyword"), n + pk["k"] // 2) == "keyword":
                            p = mc.as_penalty(c, ptype=getattr(mp, ty), k=kv, h=cs["h"], **route)
                        else:
                            p = mc.as_penalty(c, getattr(mp, ty), k=kv, h=cs["h"], **route)
                    except Exception as ex:
                        self.bad("bridge:as_penalty:raises", dict(det, ptype=ty, error=repr(ex)), "as_penalty(c, %s) raised %r; %s" % (ty, ex, desc))
                        ok = False
                        break
                    if getattr(p, "ptype", None) != ty or not callable(getattr(p, "func", None)):
                        self.bad("bridge:as_penalty:attributes", dict(det, ptype=ty, got=getattr(p, "ptype", None)), "as_penalty(c, %s).ptype = %r" % (ty, getattr(p, "ptype", None)))
                    for pit in sorted(vals(pk["v"]), key=lambda q: q["it"]):
                        while p.iteration() < pit["it"]:
                            p.iter()
                        for q, xin, ev in zip(range(N), pts_in, pit["v"]):
                            exp, exact = rad_float(ev)
                            exact = exact and cs["sq"][q]          # sqrt(2)**2 != 2 in floats: compared to 1e-12 there
                            try:
                                got = p(xin)
                            except Exception as ex:
                                got = "raised %r" % (ex,)
                            if isinstance(got, str) or not same(got, exp, exact, rel_of(xin)):
                                kind = "zero-set" if (exp == 0) != (got == 0) else "value"
                                self.bad("bridge:as_penalty:%s" % kind, dict(det, ptype=ty, k=pk["k"], h=cs["h"], iteration=pit["it"], x=pts[q], cx=c_d(pts[q]),
                                                                              expected=exp, got=got),
                                         "as_penalty(c, %s, k=%d, h=%d) at iteration %d, x=%s, c(x)=%s: specification says %r, mystic gives %r; %s" % (
                                             ty, pk["k"], cs["h"], pit["it"], pts[q], c_d(pts[q]), exp, got, desc))
                                ok = False
                                break
                        if not ok:
                            break
                    if not ok:
                        break
                if not ok:
                    break
            # defaults: ptype=None is quadratic_equality with k=100
            try:
                p0 = mc.as_penalty(c, **route)
                got = [p0(x) for x in pts_in]
            except Exception as ex:
                got = "raised %r" % (ex,)
            exp = [rad_float(v)[0] for v in cs["dflt"]]
            if isinstance(got, str) or not all(same(g, e, sq, rel_of(xi)) for g, e, sq, xi in zip(got, exp, cs["sq"], pts_in)):
                self.bad("bridge:as_penalty:default", dict(det, expected=exp, got=got), "as_penalty(c) (defaults): specification says %s, mystic gives %s; %s" % (exp, got, desc))
            # issolution on the constraint and on the penalty made from it
            try:
                pq = mc.as_penalty(c, mp.linear_equality, **route)
            except Exception:
                pq = None
            for st in vals(cs["sol"]):
                tol = st["tol"]
                for q, xin in enumerate(pts_in):
                    for who, obj in (("constraint", c_d), ("as_penalty", pq)):
                        if obj is None:
                            continue
                        keep = list(pts[q])
                        try:
                            if tol == 0:
                                got = mc.issolution(obj, xin)
                            elif tol % 2 == 0 and self.pick("issolution-tol", ("float", "int", "np_float64"), n + q) != "float":
                                got = mc.issolution(obj, xin, tol=tol // 2 if (n + q) % 3 == 1 else numpy.float64(tol / 2.0))
                            else:
                                got = mc.issolution(obj, xin, tol=tol / 2.0)
                        except Exception as ex:
                            got = "raised %r" % (ex,)
                        if isinstance(got, str) or bool(got) != st["acc"][q]:
                            self.bad("bridge:issolution:%s" % who, dict(det, x=pts[q], cx=c_d(pts[q]), tol=(tol / 2.0) if tol else "default", expected=st["acc"][q], got=got),
                                     "issolution(%s, %s%s) should be %s: c(x)=%s; %s" % (who, pts[q], "" if tol == 0 else ", tol=%s" % (tol / 2.0), st["acc"][q], c_d(pts[q]), desc))
                            break
                        if list(xin) != keep:
                            self.bad("bridge:issolution:modifies-guess", dict(det, x=keep, after=list(xin)), "issolution changed its argument %s to %s" % (keep, list(xin)))
                    else:
                        continue
                    break
        if cases:
            s = cases[len(cases) // 2]
            self.ck.sample({"as_penalty": {"c": s["tab"], "d": s["d"]}, "|c(x)-x|^2 (quarter units)": s["d2"], "fixed": s["fixed"]})

    POINT_ROT = ("list_float", "np_float64", "list_int", "tuple", "np_int64", "np_float32", "list_np")

    def spell_point(self, q, k):
        """a lattice point (coordinates are multiples of 1/2) in the spelling number k"""
        import numpy
        how = self.pick("point", self.POINT_ROT, k)
        q = [float(v) for v in q]
        integral = all(v == int(v) for v in q)
        if how == "list_int":                       # python ints where the coordinate is whole (a mixed list otherwise)
            return [int(v) if v == int(v) else v for v in q]
        if how == "np_int64" and integral:
            return numpy.array([int(v) for v in q], dtype=numpy.int64)
        if how in ("np_float64", "np_int64"):
            return numpy.array(q)
        if how == "np_float32":
            return numpy.array(q, dtype=numpy.float32)
        if how == "tuple":
            return tuple(q)
        if how == "list_np":
            return [numpy.float64(v) for v in q]
        return q

    # ---------------------------------------------------------------- vectorize
    def vect(self, cases, cases_r):
        mc = self.mc
        import numpy
        for cs in list(cases) + list(cases_r):
            S, d = cs["S"], cs["d"]
            if cs["fam"] == "vect":
                lat = Lat(S)
                c = lat.cons(cs["tab"])
                det = {"constraint_table": cs["tab"], "d": d}
                bad_axes = [ax for ax in (-1, 2, 3) if ax not in cs["axes"]]
            else:
                t = cs["t"]

                def c(v, a=0, t=t, S=S):
                    return [t[(int(round(2 * float(w))) + int(a)) % S] / 2.0 for w in reversed(list(v))]
                det = {"t": t, "d": d, "constraint": "map t, reverse"}
                bad_axes = []
            self.count(cs["fam"])
            differs = False
            for nr, rs in enumerate(cs["res"]):
                data = numpy.array(rs["m"], dtype=float) / 2.0
                differs = differs or rs["a0"] != rs["a1"]
                self.nvect = getattr(self, "nvect", 0) + 1
                hd = self.pick("vectorize-data", ("float64", "int64", "float32", "fortran-order", "view-of-larger-array", "float64"), self.nvect)
                if hd == "int64" and numpy.all(data == numpy.floor(data)):
                    data = data.astype(numpy.int64)
                elif hd == "float32":
                    data = data.astype(numpy.float32)
                elif hd == "fortran-order":
                    data = numpy.asfortranarray(data)
                elif hd == "view-of-larger-array":
                    big = numpy.full((data.shape[0] * 2, data.shape[1] * 2), -7.0)
                    big[::2, ::2] = data
                    data = big[::2, ::2]
                for axis, name in ((0, "a0"), (1, "a1")):
                    exp = numpy.array(rs[name], dtype=float) / 2.0
                    keep = data.copy()
                    try:
                        hax = self.pick("vectorize-axis", ("int", "np_int64", "int", "omitted-when-1"), self.nvect + axis)
                        if hax == "omitted-when-1" and axis == 1:
                            v = mc.vectorize(c)
                        else:
                            v = mc.vectorize(c, axis=numpy.int64(axis) if hax == "np_int64" else axis)
                        got = v(data, d) if d else v(data)
                        okv = isinstance(got, numpy.ndarray) and got.shape == exp.shape and numpy.array_equal(got, exp)
                    except Exception as ex:
                        got, okv = "raised %r" % (ex,), False
                    if not okv:
                        self.bad("bridge:vectorize:axis%d" % axis, dict(det, data=data.tolist(), axis=axis, expected=exp.tolist(), got=got),
                                 "vectorize(c, axis=%d)(%s): specification says %s (c applied to every %s), mystic gives %s" % (
                                     axis, data.tolist(), exp.tolist(), "row" if axis else "column", got if isinstance(got, str) else got.tolist()))
                    if not numpy.array_equal(keep, data):
                        self.bad("bridge:vectorize:modifies-input", dict(det, axis=axis), "vectorize(c, axis=%d) changed its input array" % axis)
            for ax in bad_axes:
                try:
                    mc.vectorize(c, axis=ax)
                    self.bad("bridge:vectorize:axis-check", dict(det, axis=ax), "vectorize(c, axis=%d) did not raise ValueError (axis must be either 0 or 1)" % ax)
                except ValueError:
                    pass
                except Exception as ex:
                    self.bad("bridge:vectorize:axis-check", dict(det, axis=ax, error=repr(ex)), "vectorize(c, axis=%d) raised %r, not ValueError" % (ax, ex))
            self.ck.case(nontrivial=differs, key=(cs["fam"], str(cs.get("tab", cs.get("t"))), d))
        if cases:
            s = cases[len(cases) // 2]
            self.ck.sample({"vectorize": {"c": s["tab"], "d": s["d"]}, "case": s["res"][1]})

    # ---------------------------------------------------------------- near_integers / has_unique
    def scalar(self, cases):
        mc = self.mc
        import numpy
        for n, cs in enumerate(cases):
            v = [q / 4.0 for q in cs["v"]]
            self.ck.case(nontrivial=cs["near"] > 0 or cs["hasu"] > len(v), key=("scalar", str(cs["v"])))
            self.count("scalar")
            try:
                got = mc.near_integers(numpy.array(v))
                hn = self.pick("near_integers-x", ("list", "float64 only", "float32", "int64", "tuple", "list"), n // 4 if self.legacy else n)
                if self.legacy:
                    got2 = mc.near_integers(v) if n % 4 == 0 else got
                elif hn == "float32":
                    got2 = mc.near_integers(numpy.array(v, dtype=numpy.float32))
                elif hn == "int64" and all(q % 4 == 0 for q in cs["v"]):
                    got2 = mc.near_integers(numpy.array([q // 4 for q in cs["v"]], dtype=numpy.int64))
                elif hn == "tuple":
                    got2 = mc.near_integers(tuple(v))
                elif hn == "list":
                    got2 = mc.near_integers([int(w) if w == int(w) and n % 2 else w for w in v])
                else:
                    got2 = got
            except Exception as ex:
                got = got2 = "raised %r" % (ex,)
            if isinstance(got, str) or got != cs["near"] / 4.0 or got2 != got:
                self.bad("bridge:near_integers", {"x": v, "expected": cs["near"] / 4.0, "got": got, "got_on_list": got2},
                         "near_integers(%s): specification says %s, mystic gives %s" % (v, cs["near"] / 4.0, got))
            try:
                hu = self.pick("has_unique-x", ("list_float", "tuple", "list_int", "list_np", "list_mixed"), n)
                if hu == "tuple":
                    xs = tuple(v)
                elif hu == "list_int":                 # whole numbers as python ints
                    xs = [int(w) if w == int(w) else w for w in v]
                elif hu == "list_np":
                    xs = [numpy.float64(w) for w in v]
                elif hu == "list_mixed":               # equal values in different spellings still count as equal
                    xs = [(int(w) if j % 2 else numpy.float32(w)) if w == int(w) else w for j, w in enumerate(v)]
                else:
                    xs = list(v)
                got = mc.has_unique(xs)
            except Exception as ex:
                got = "raised %r" % (ex,)
            if got != cs["hasu"]:
                self.bad("bridge:has_unique", {"x": v, "expected": cs["hasu"], "got": got}, "has_unique(%s): specification says %s, mystic gives %s" % (v, cs["hasu"], got))

    # ---------------------------------------------------------------- unique / impose_unique
    def uniq(self, cases):
        mc = self.mc
        from numbers import Integral
        seed0 = self.a.seed * 1000003 + 17

        def pyval(h):
            return h // 2 if h % 2 == 0 else h / 2.0

        def mkfull(cs, n=0):
            f, lo, hi = cs["form"], cs["lo"], cs["hi"]
            if f == "set":                             # "a sequence (list or set)"
                hs = self.pick("unique-full-set", ("set", "list", "tuple", "frozenset", "reversed list"), n)
                return {"set": set, "list": list, "tuple": tuple, "frozenset": frozenset,
                        "reversed list": lambda r: list(r)[::-1]}[hs](range(lo, hi + 1))
            if f == "range" and self.pick("unique-full-range", ("range", "list(range)"), n) != "range":
                return list(range(lo, hi + 1))
            return {"none": lambda: None, "int": lambda: int, "float": lambda: float,
                    "range": lambda: range(lo, hi + 1),
                    "dict": lambda: {"min": lo, "max": hi + 1}, "dictint": lambda: {"min": lo, "max": hi + 1, "type": int}}[f]()

        def spell_seq(seq, n):
            import numpy
            hs = self.pick("unique-seq", ("list", "tuple", "list of numpy scalars", "list"), n)
            if hs == "tuple":
                return tuple(seq)
            if hs == "list of numpy scalars":
                return [numpy.int64(v) if isinstance(v, int) else numpy.float64(v) for v in seq]
            return list(seq)

        def post(cs, seq, res):
            """the post-condition of the specification; returns None or (class, text)"""
            if not isinstance(res, list) or len(res) != len(seq):
                return "shape", "result %r is not a list of the length of the input" % (res,)
            for i in cs["keep"]:
                if res[i - 1] != seq[i - 1] or type(res[i - 1]) is not type(seq[i - 1]):
                    return "kept-item-changed", "position %d (a first occurrence) changed from %r to %r" % (i - 1, seq[i - 1], res[i - 1])
            if len(set(res)) != len(res):
                return "duplicate", "result %r still holds a duplicate" % (res,)
            for i in range(1, len(seq) + 1):
                if i in cs["keep"]:
                    continue
                v = res[i - 1]
                if cs["sem"] == "int":
                    if not isinstance(v, Integral) or isinstance(v, bool):
                        return "type", "new value %r at position %d is not an int" % (v, i - 1)
                    if 2 * v not in cs["pool"]:
                        return "range", "new value %r at position %d is not one of the allowed values %s" % (v, i - 1, [q // 2 for q in cs["pool"]])
                else:
                    if not isinstance(v, float):
                        return "type", "new value %r at position %d is not a float" % (v, i - 1)
                    if not (cs["ival"][0] / 2.0 <= v <= cs["ival"][1] / 2.0):
                        return "range", "new value %r at position %d is outside [%s, %s]" % (v, i - 1, cs["ival"][0] / 2.0, cs["ival"][1] / 2.0)
            return None

        for n, cs in enumerate(cases):
            seq = [pyval(h) for h in cs["s"]]
            self.ck.case(nontrivial=cs["need"] > 0, key=("uniq", str(cs["s"]), cs["form"], cs["lo"], cs["hi"]))
            self.count("uniq")
            full = mkfull(cs, n)
            fullrepr = repr(full)
            seq = spell_seq(seq, n)
            det = {"seq": seq, "full": fullrepr, "outcome": cs["outcome"], "keep_positions": [i - 1 for i in cs["keep"]]}
            f_imp = mc.impose_unique(full)(lambda x: x)
            again = (lambda: type(seq)(seq)) if not isinstance(seq, list) else (lambda: list(seq))
            calls = [("unique(%r, %s)" % (seq, fullrepr), lambda: mc.unique(again(), mkfull(cs, n))),
                     ("impose_unique(%s)(identity)(%r)" % (fullrepr, seq), lambda: f_imp(again())),
                     ("impose_unique(%s)(identity)(%r) [second call of the same decorated function]" % (fullrepr, seq), lambda: f_imp(again()))]
            for j, (what, call) in enumerate(calls):
                pyrandom.seed(seed0 + 3 * n + j)
                try:
                    res, err = call(), None
                except ValueError as ex:
                    res, err = None, ex
                except Exception as ex:
                    self.bad("bridge:unique:raises-other", dict(det, call=what, error=repr(ex)), "%s raised %r" % (what, ex))
                    break
                second = (j == 2 and cs["form"] in ("dict", "dictint"))
                if err is not None:
                    if cs["outcome"] == "ok":
                        self.bad(K_DICT if second else "bridge:unique:valueerror-although-unique-sequence-exists", dict(det, call=what, error=repr(err)),
                                 "%s raised %r although a unique sequence exists" % (what, err))
                        break
                    continue
                if cs["outcome"] == "raise":
                    self.bad("bridge:unique:no-valueerror", dict(det, call=what, got=res), "%s returned %r; the specification says no unique sequence exists (ValueError)" % (what, res))
                    break
                pc = post(cs, seq, res)
                if pc is not None:
                    key = K_DICT if (second and pc[0] in ("type", "range")) else "bridge:unique:%s" % pc[0]
                    self.bad(key, dict(det, call=what, got=res), "%s = %r: %s" % (what, res, pc[1]))
                    break
                if cs["form"] == "dictint" and any(res[i] == cs["hi"] + 1 for i in range(len(res)) if (i + 1) not in cs["keep"]):
                    self.obs["unique(dict with 'type':int) drew x == max, a value unique() itself rejects as input (doc is loose: not judged)"] = \
                        self.obs.get("unique(dict with 'type':int) drew x == max, a value unique() itself rejects as input (doc is loose: not judged)", 0) + 1
            if isinstance(full, dict) and repr(full) != fullrepr:
                self.bad(K_DICT, dict(det, full_after=repr(full)), "unique / impose_unique changed the caller's dict %s to %r" % (fullrepr, full))
        if cases:
            s = next((q for q in cases if q["need"] > 0 and q["outcome"] == "ok"), cases[0])
            self.ck.sample({"unique": {"seq (half units)": s["s"], "form": s["form"], "lo": s["lo"], "hi": s["hi"]},
                            "post-condition": {q: s[q] for q in ("outcome", "keep", "need", "pool", "ival", "sem")}})

    # ---------------------------------------------------------------- solve / as_constraint
    def solve(self, cases_c, cases_p):
        mc, mp = self.mc, self.mp
        from mystic.tools import random_seed
        import numpy
        thorough = self.a.tier == "thorough"
        seed0 = self.a.seed * 7919 + 5
        nrun = rand_n = rand_ok = 0
        # -- a constraint table: the result is a fixed point of the (idempotent) constraint
        for n, cs in enumerate(cases_c):
            if self.light and n % 3:
                continue
            lat = Lat(cs["S"])
            hi = (cs["S"] - 1) / 2.0
            c = lat.cons(cs["tab"])
            fixed = set(cs["fixed"])
            det = {"constraint_table": cs["tab"], "fixed_points": cs["fixed"]}
            self.ck.case(nontrivial=len(fixed) < len(cs["tab"]), key=("solvec", str(cs["tab"])))
            self.count("solvec")
            configs = [dict(guess=[0.2, 0.9], solver=None), dict(nvars=2, solver="diffev2", lower_bounds=[0.0, 0.0], upper_bounds=[hi, hi]),
                       dict(guess=[hi, 0.0], solver="fmin_powell")]
            if not thorough:
                configs = [configs[n % 3], configs[(n + 1) % 3]]
            for cf in configs:
                nrun += 1
                random_seed(seed0 + nrun)
                what = "solve(c, %s) with c = idempotent table %s" % (", ".join("%s=%r" % kv for kv in sorted(cf.items())), cs["tab"])
                try:
                    y = mc.solve(c, **cf)
                except Exception as ex:
                    self.bad("bridge:solve:raises", dict(det, config=cf, error=repr(ex)), "%s raised %r" % (what, ex))
                    continue
                isl = isinstance(y, list) and len(y) == 2 and tuple(y) in lat.pts
                if not isl or lat.pts.index(tuple(y)) not in fixed or not mc.issolution(c, y):
                    self.bad("bridge:solve:constraint-result-not-a-solution", dict(det, config=cf, got=y),
                             "%s returned %r, which is not a fixed point of c (fixed points: %s)" % (what, y, [list(lat.pts[q]) for q in sorted(fixed)]))
                self.ck.trace()
        # -- a penalty over a linear condition: the result satisfies it within the tolerance
        for n, cs in enumerate(cases_p):
            if self.light and n % 2:
                continue
            lat = Lat(cs["S"])
            hi = (cs["S"] - 1) / 2.0
            a0, a1, b = cs["a"]
            ty = cs["ty"]

            def cond(x, a0=a0, a1=a1, b=b):
                return a0 * x[0] + a1 * x[1] - b
            pen = mc.with_penalty(getattr(mp, ty))(cond)
            feas = set(cs["feas"])
            det = {"condition": "%d*x0 + %d*x1 - %d %s 0" % (a0, a1, b, "<=" if "inequality" in ty else "=="), "ptype": ty}
            self.ck.case(nontrivial=len(feas) < len(lat.pts), key=("solvep", str(cs["a"]), ty))
            self.count("solvep")
            # exact part: on the lattice the penalty vanishes / issolution accepts exactly on the feasible points
            for q, pt in enumerate(lat.pts):
                acc, zero = bool(mc.issolution(pen, list(pt))), pen(list(pt)) == 0
                if acc != (q in feas) or zero != (q in feas):
                    self.bad("bridge:issolution:penalty-lattice", dict(det, x=list(pt), feasible=q in feas, issolution=acc, penalty=pen(list(pt))),
                             "penalty over %s at x=%s: feasible=%s but issolution=%s, penalty=%s" % (det["condition"], list(pt), q in feas, acc, pen(list(pt))))
                    break
            infeasible = [q for q in range(len(lat.pts)) if q not in feas]
            starts = ([infeasible[n % len(infeasible)]] if infeasible else []) + [sorted(feas)[n % len(feas)]]
            if thorough and len(infeasible) > 1:
                starts.append(infeasible[(n + 1) % len(infeasible)])
            for si, q in enumerate(starts):
                x0 = list(lat.pts[q])
                # "det": a deterministic solver -- the result must satisfy the condition (p.error <= TOL_SOLVE);
                # "rand": the documented default, differential evolution -- best effort: judged per run only by what its elitism
                #         guarantees (never worse than the guess, inside the bounds), and in aggregate by its success rate
                runs = [("rand", "solve(p, guess=%s)" % x0, lambda: mc.solve(pen, guess=list(x0))),
                        ("det", "as_constraint(p, solver='fmin_powell')(%s)" % x0, lambda: mc.as_constraint(pen, solver="fmin_powell")(list(x0))),
                        ("rand", "as_constraint(p)(%s)" % x0, lambda: mc.as_constraint(pen)(list(x0))),
                        ("det", "as_constraint(p, nvars=2, solver='fmin')(array(%s))" % x0, lambda: mc.as_constraint(pen, nvars=2, solver="fmin")(numpy.array(x0))),
                        ("rand", "solve(p, nvars=2, solver='diffev2', lower_bounds=[0,0], upper_bounds=[%s,%s])" % (hi, hi),
                         lambda: mc.solve(pen, nvars=2, solver="diffev2", lower_bounds=[0.0, 0.0], upper_bounds=[hi, hi])),
                        ("det", "solve(p, guess=%s, solver='fmin_powell', lower_bounds=[0,0], upper_bounds=[%s,%s])" % (x0, hi, hi),
                         lambda: mc.solve(pen, guess=list(x0), solver="fmin_powell", lower_bounds=[0.0, 0.0], upper_bounds=[hi, hi]))]
                if not thorough:
                    runs = [runs[(n + si) % 6], runs[(n + si + 3) % 6]]
                for kind, what, call in runs:
                    nrun += 1
                    random_seed(seed0 + nrun)
                    pen.clear()
                    what = "%s with p = with_penalty(%s)(%s)" % (what, ty, det["condition"].rsplit(" ", 2)[0])
                    try:
                        y = call()
                        err = float(pen.error(y))
                    except Exception as ex:
                        self.bad("bridge:solve:raises", dict(det, call=what, error=repr(ex)), "%s raised %r" % (what, ex))
                        continue
                    self.ck.trace()
                    good = err <= TOL_SOLVE and bool(mc.issolution(pen, y, tol=TOL_SOLVE))
                    asc = what.startswith("as_constraint")
                    if kind == "det":
                        if not good:
                            key = "bridge:as_constraint:result-violates-penalty" if asc else "bridge:solve:penalty-result-not-a-solution"
                            self.bad(key, dict(det, call=what, start=x0, got=list(y), error=err, tol=TOL_SOLVE),
                                     "%s returned %s with p.error = %.3g > %g (a feasible point exists: %s)" % (what, list(y), err, TOL_SOLVE, list(lat.pts[sorted(feas)[0]])))
                    else:
                        rand_n += 1
                        rand_ok += 1 if good else 0
                        if "guess=" in what or asc:
                            e0 = float(pen.error(x0))
                            if err > e0 + 1e-12:
                                key = "bridge:as_constraint:result-worse-than-input" if asc else "bridge:solve:result-worse-than-guess"
                                self.bad(key, dict(det, call=what, start=x0, got=list(y), error=err, error_of_start=e0),
                                         "%s returned %s with p.error = %.3g, worse than its starting point (%.3g)" % (what, list(y), err, e0))
                    if "lower_bounds" in what and not all(0.0 <= v <= hi for v in y):
                        self.bad("bridge:solve:result-outside-bounds", dict(det, call=what, got=list(y)), "%s returned %s, outside the bounds" % (what, list(y)))
                    if ("array(" in what) != isinstance(y, numpy.ndarray):
                        self.bad("bridge:solve:result-type", dict(det, call=what, got=repr(y)), "%s: the result should be %s, got %r" % (
                            what, "an array (array guess)" if "array(" in what else "a list", y))
                    if q in feas and asc:
                        same_pt = [float(v) for v in y] == x0
                        k1, k2 = "as_constraint on a feasible start: returned it unchanged", "as_constraint on a feasible start: moved it (still feasible within tolerance)"
                        self.obs[k1] = self.obs.get(k1, 0) + (1 if same_pt else 0)
                        self.obs[k2] = self.obs.get(k2, 0) + (0 if same_pt or not good else 1)
        if rand_n:
            self.obs["default-solver (differential evolution) runs reaching p.error <= %g" % TOL_SOLVE] = "%d of %d" % (rand_ok, rand_n)
            if rand_n >= 10 and rand_ok < 0.9 * rand_n:
                self.bad("bridge:solve:default-solver-rarely-succeeds", {"runs": rand_n, "reached_tolerance": rand_ok, "tol": TOL_SOLVE},
                         "only %d of %d runs of solve / as_constraint with the default solver reached p.error <= %g on linear conditions "
                         "with a non-degenerate feasible set" % (rand_ok, rand_n, TOL_SOLVE))
        self.stats["solver_runs"] = nrun


def corrupt_dflt(tl):
    """H17: the specification's statement 'these k, h are the defaults of the type' made wrong for the chains where it is false"""
    import copy
    t = dict(tl)
    t["withpen"] = [dict(c, dflt=True) if not c["dflt"] else c for c in copy.deepcopy(tl["withpen"])]
    return t


def corrupt_tables(tl):
    """one expected value of every family changed: the replay must object to each"""
    import copy
    t = dict(tl)
    for f in FAMS:
        t[f] = copy.deepcopy(tl[f][:1]) + tl[f][1:]
    t["withpen"][0]["pen"][0] = [0, t["withpen"][0]["pen"][0][1] + 1, 1, []]
    t["withcons"][0]["costat"][0] = (t["withcons"][0]["costat"][0] + 1) % 3
    v = vals(vals(vals(t["aspen"][0]["pen"])[0]["v"])[0]["v"])[0]["v"]
    v[0] = [v[0][0] + 1, v[0][1], v[0][2]]
    t["vect"][0]["res"][0]["a0"][0][0] = (t["vect"][0]["res"][0]["a0"][0][0] + 1) % 3
    t["scalar"][0]["near"] += 1
    c0 = t["uniq"][0]
    c0["outcome"] = "raise" if c0["outcome"] == "ok" else "ok"
    t["solvec"][0]["fixed"] = []
    t["solvep"][0]["feas"] = t["solvep"][0]["feas"][1:]
    return t


EXPECT_CORRUPT = ("bridge:with_penalty:value", "bridge:with_constraint:cost-at-constrained-point", "bridge:as_penalty:", "bridge:vectorize:axis0",
                  "bridge:near_integers", "bridge:unique:", "bridge:solve:constraint-result-not-a-solution", "bridge:issolution:penalty-lattice")


MIN_PER_SPELLING = 12          # every spelling of a rotation must occur at least that often in a full run (machinery check)


def bridges_part(ck, a, corrupt=False, light=False, tl=None, fams=FAMS, legacy=False):
    """TLC on Bridges.tla, then the replay of every emitted case on mystic; returns the statistics.
    legacy: one spelling per input, as before H17"""
    import mystic.constraints as mc
    import mystic.coupler as cp
    import mystic.penalty as mp
    if tl is None:
        tl = bridge_tables(a)
    if not light:
        for i, r in enumerate(tl["runs"]):
            ck.mc(r, "Bridges[%s part %d/%d]" % (tl["cfg"], i, len(tl["runs"])))
            if r.violated:
                ck.violation("spec:bridges-" + r.violated, {"tlc": counterexample(r.out)}, "TLC: law %s violated in Bridges.tla" % r.violated)
        if tl.get("vacuity") is not None and tl["vacuity"].violated != "AxisIrrelevant":
            ck.violation("spec:bridges-vacuity", {}, "TLC did not find data for which the axis of vectorize matters")
    if corrupt:
        tl = corrupt_tables(tl)

    def pick(f):
        cs = tl[f] if f in fams else []
        if light and len(cs) > 120:
            cs = cs[::max(1, len(cs) // 120)]
        return cs
    rp = Rep(ck, mc, cp, mp, a, light)
    rp.legacy = legacy
    rp.withpen(pick("withpen"))
    rp.withcons(pick("withcons"))
    rp.aspen(pick("aspen"))
    rp.vect(pick("vect"), pick("vectr"))
    rp.scalar(pick("scalar"))
    rp.uniq(pick("uniq"))
    rp.solve(pick("solvec"), pick("solvep"))
    ck.extra["c17_bridges"] = {"cases_replayed": rp.stats, "emitted": {f: len(tl[f]) for f in FAMS}, "observations": rp.obs,
                               "solver_postcondition_tolerance": TOL_SOLVE, "spellings": dict(sorted(rp.spell.items()))}
    if not legacy and not light and not corrupt and tuple(fams) == FAMS:
        thin = {k: v for k, v in rp.spell.items() if v < MIN_PER_SPELLING}
        if thin:
            raise RuntimeError("spelling rotation of the bridge cases is too thin: %s" % thin)
    ck.extra.setdefault("observations", {}).update(rp.obs)
    if "bridges" not in ck.rule:
        ck.rule += ("; bridges: a case = one TLC-emitted line of Bridges.tla replayed on with_penalty / with_constraint / as_penalty / "
                    "issolution / vectorize / near_integers / has_unique (exact) or unique / solve / as_constraint (post-condition); "
                    "non-trivial = the condition is violated somewhere and satisfied somewhere, the constraint moves some points, the "
                    "axis matters, a duplicate is replaced")
    ck.assumptions = list(ck.assumptions) + [
        "bridges: conditions, costs and constraints are tables on 0..M-1 resp. on the lattice {0,1/2,..}^2 (float inputs snapped to "
        "the nearest lattice point); an extra argument shifts the index, so routing of args/kwds is observable",
        "bridges: solve / as_constraint are checked by post-condition only, on linear conditions with at least two feasible lattice "
        "points and on idempotent constraint tables, with mystic.tools.random_seed fixed per run; 'issolution accepts' is read at "
        "tol=%g for solver runs (the documentation promises no accuracy)" % TOL_SOLVE,
        "bridges (H17): a point given as float32 array makes numpy compute the residual in single precision: as_penalty values "
        "that involve a square root are then compared to 1e-6 relative (1e-12 otherwise; exact where the distance is a lattice "
        "number); vectorize(axis=0) needs an array (`x.T`): lists of lists are outside its domain",
        "bridges: unique() is checked by post-condition with random.seed fixed per call; 'range(min,max)' of the documentation is read "
        "closed for type forms (the code's own reading); for {'min','max','type':int} lengths between the half-open and the closed "
        "reading are accepted either way"]
    return rp.stats


# =========================================================================================
# self-test
# =========================================================================================
def selftest_bridges(a):
    import mystic.constraints as mc
    import mystic.coupler as cp
    import mystic.penalty as mp
    import numpy
    a.tier = "quick"
    a._no_vac = True
    tl = bridge_tables(a)
    names = ("with_penalty", "with_constraint", "as_penalty", "as_constraint", "issolution", "solve", "vectorize", "unique",
             "impose_unique", "near_integers", "has_unique")
    orig = {k: getattr(mc, k) for k in names}

    def restore():
        for k, v in orig.items():
            setattr(mc, k, v)

    def with_penalty_sub(ptype, *args, **kwds):
        def dec(condition):
            inner = orig["with_penalty"](ptype, *args, **kwds)(condition)
            def penalty(x):
                return -inner(x)
            for q in ("func", "ptype", "iter", "iteration", "clear", "error", "store", "stored"):
                setattr(penalty, q, getattr(inner, q))
            return penalty
        return dec

    def with_penalty_noargs(ptype, *args, **kwds):
        kwds = {k: v for k, v in kwds.items() if k not in ("args", "kwds")}       # drops the routing of condition arguments
        base = orig["with_penalty"](ptype, *args, **kwds)
        return base

    def with_constraint_id(ctype, *args, **kwds):
        def dec(condition):
            def constraint(x, *argz, **kwdz):
                return x                                                       # the cost sees the unconstrained point
            return constraint
        return dec

    def as_penalty_zero(constraint, ptype=None, *args, **kwds):
        kwds.pop("args", None); kwds.pop("kwds", None)
        if ptype is None:
            ptype = mp.quadratic_equality
        p = ptype(lambda x: 0.0, **kwds)(lambda x: 0.0)
        return p

    def as_penalty_l1(constraint, ptype=None, *args, **kwds):
        cargs = kwds.pop("args", None) or ()
        ckw = kwds.pop("kwds", None) or {}
        def rnorm(x):
            cx = constraint(x, *cargs, **ckw)
            return sum(abs(cx[i] - x[i]) for i in range(len(x)))               # 1-norm instead of the 2-norm
        if ptype is None:
            ptype = mp.quadratic_equality
        p = ptype(rnorm, **kwds)(lambda x: 0.0)
        return p

    def issolution_sign(constraints, guess, tol=1e-3):
        if hasattr(constraints, "error"):
            error = constraints.error(guess)
        else:
            cx = constraints(list(guess))
            error = sum((cx[i] - guess[i]) ** 2 for i in range(len(guess))) ** 0.5
        return error <= -tol

    def issolution_sq(constraints, guess, tol=1e-3):
        if hasattr(constraints, "error"):
            error = constraints.error(guess)
        else:
            cx = constraints(list(guess))
            error = sum((cx[i] - guess[i]) ** 2 for i in range(len(guess)))    # squared distance compared with tol
        return error <= tol

    def unique_dup(seq, full=None):
        res = orig["unique"](seq, full)
        return [s if r != s and i == len(seq) - 1 else r for i, (r, s) in enumerate(zip(res, seq))]   # last duplicate stays

    def unique_del(seq, full=None):
        if isinstance(full, dict) and "type" in full:
            res = orig["unique"](seq, dict(full))
            del full["type"]                                                    # the repaired defect: caller's dict loses 'type'
            return res
        return orig["unique"](seq, full)

    def unique_noerror(seq, full=None):
        try:
            return orig["unique"](seq, full)
        except ValueError:
            return list(seq)

    def impose_unique_using(u):
        def impose_unique(seq=None):
            def dec(f):
                def func(x, *args, **kwds):
                    return f(u(x, seq), *args, **kwds)
                return func
            return dec
        return impose_unique

    def vectorize_swapped(constraint, axis=1):
        if axis not in (0, 1):
            raise ValueError("axis")
        return orig["vectorize"](constraint, axis=1 - axis)

    def vectorize_nocheck(constraint, axis=1):
        return orig["vectorize"](constraint, axis=1 if axis else 0)

    def near_floor(x):
        x = numpy.asarray(x)
        return numpy.abs(x - numpy.floor(x)).sum()

    def has_unique_alt(x):
        return len(x) - len(set(x))

    def solve_guess(constraints, guess=None, nvars=None, solver=None, lower_bounds=None, upper_bounds=None, termination=None,
                    tightrange=None, cliprange=None):
        return guess if guess is not None else [0.3] * (nvars or 1)

    def as_constraint_id(penalty, *args, **kwds):
        return lambda x: x

    def setu(u):
        mc.unique = u
        mc.impose_unique = impose_unique_using(u)

    # H17: defects that only particular spellings of the inputs expose
    def with_penalty_k1(ptype, *args, **kwds):
        kwds.setdefault("k", 1)                                                 # an omitted k is no longer the type's default
        return orig["with_penalty"](ptype, *args, **kwds)

    def vectorize_dtype(constraint, axis=1):
        v = orig["vectorize"](constraint, axis=axis)
        def transform(x, *args, **kwds):
            return numpy.array(v(x, *args, **kwds), dtype=numpy.asarray(x).dtype)    # the result inherits the dtype of the data
        return transform

    def as_penalty_dtype(constraint, ptype=None, *args, **kwds):
        def typed(x, *argz, **kwdz):
            return numpy.array(constraint(x, *argz, **kwdz), dtype=numpy.asarray(x).dtype)   # c(x) in the dtype of x
        return orig["as_penalty"](typed, ptype, *args, **kwds)

    def has_unique_list(x):
        return orig["has_unique"](x) if isinstance(x, list) else 0              # anything but a list: "nothing to count"

    spelled = [
        ("with_penalty: an omitted k becomes 1", ("withpen",), lambda: setattr(mc, "with_penalty", with_penalty_k1)),
        ("vectorize returns the dtype of its input", ("vect", "vectr"), lambda: setattr(mc, "vectorize", vectorize_dtype)),
        ("as_penalty measures c(x) in the dtype of x", ("aspen",), lambda: setattr(mc, "as_penalty", as_penalty_dtype)),
        ("has_unique counts in lists only", ("scalar",), lambda: setattr(mc, "has_unique", has_unique_list)),
    ]

    mutants = [
        ("with_penalty subtracts the penalty", ("withpen",), lambda: setattr(mc, "with_penalty", with_penalty_sub)),
        ("with_penalty drops args/kwds of the condition", ("withpen",), lambda: setattr(mc, "with_penalty", with_penalty_noargs)),
        ("with_constraint evaluates at the unconstrained point", ("withcons",), lambda: setattr(mc, "with_constraint", with_constraint_id)),
        ("as_penalty is zero everywhere", ("aspen",), lambda: setattr(mc, "as_penalty", as_penalty_zero)),
        ("as_penalty measures the 1-norm", ("aspen",), lambda: setattr(mc, "as_penalty", as_penalty_l1)),
        ("issolution compares with -tol", ("aspen",), lambda: setattr(mc, "issolution", issolution_sign)),
        ("issolution compares the squared distance", ("aspen",), lambda: setattr(mc, "issolution", issolution_sq)),
        ("unique leaves a duplicate", ("uniq",), lambda: setu(unique_dup)),
        ("unique deletes 'type' from the caller's dict", ("uniq",), lambda: setu(unique_del)),
        ("unique never raises ValueError", ("uniq",), lambda: setu(unique_noerror)),
        ("vectorize applies along the other axis", ("vect", "vectr"), lambda: setattr(mc, "vectorize", vectorize_swapped)),
        ("vectorize accepts any axis", ("vect",), lambda: setattr(mc, "vectorize", vectorize_nocheck)),
        ("near_integers uses floor", ("scalar",), lambda: setattr(mc, "near_integers", near_floor)),
        ("has_unique returns len - len(set)", ("scalar",), lambda: setattr(mc, "has_unique", has_unique_alt)),
        ("solve returns its guess", ("solvec", "solvep"), lambda: setattr(mc, "solve", solve_guess)),
        ("as_constraint returns x unchanged", ("solvep",), lambda: setattr(mc, "as_constraint", as_constraint_id)),
    ]
    scratch = scratch_dir()
    missed = 0

    def fresh():
        ck = Check("C17", "model_checking", "quick", a.seed)
        ck.outdir = scratch
        ck._known = []
        ck.dry = True
        return ck
    try:
        ck = fresh()
        with contextlib.redirect_stdout(io.StringIO()):
            bridges_part(ck, a, light=True, tl=tl)
        base = set(ck.viol_keys)
        print("SELFTEST bridges control, unchanged tree: %s (%s)" % ("clean" if not base else "NOT CLEAN", ", ".join(sorted(base)) or "no violation"))
        missed += 1 if base else 0
        for name, fams, apply_ in mutants:
            apply_()
            ck = fresh()
            try:
                with contextlib.redirect_stdout(io.StringIO()):
                    bridges_part(ck, a, light=True, tl=tl, fams=fams)
            except Exception as ex:
                ck.viol_keys["bridge:mutant raised %r" % (ex,)] = 1
            finally:
                restore()
            new = sorted(k for k in set(ck.viol_keys) - base if k.startswith("bridge:"))
            print("SELFTEST bridges %s: %s (%s)" % (name, "caught" if new else "MISSED", ", ".join(new[:3]) or "no new violation class"))
            missed += 0 if new else 1
        for name, fams, apply_ in spelled:
            res = {}
            for legacy in (False, True):
                apply_()
                ck = fresh()
                try:
                    with contextlib.redirect_stdout(io.StringIO()):
                        bridges_part(ck, a, light=True, tl=tl, fams=fams, legacy=legacy)
                except Exception as ex:
                    ck.viol_keys["bridge:mutant raised %r" % (ex,)] = 1
                finally:
                    restore()
                res[legacy] = sorted(k for k in set(ck.viol_keys) - base if k.startswith("bridge:"))
            print("SELFTEST bridges [spellings] %s: %s (%s; the one-spelling enumeration before H17: %s)" % (
                name, "caught" if res[False] else "MISSED", ", ".join(res[False][:3]) or "no new violation class",
                "caught as well" if res[True] else "missed"))
            missed += 0 if res[False] else 1
        ck = fresh()
        with contextlib.redirect_stdout(io.StringIO()):
            bridges_part(ck, a, light=True, tl=corrupt_dflt(tl), fams=("withpen",))
        got = set(ck.viol_keys) - base
        print("SELFTEST bridges corrupted TLC statement 'k, h are the type's defaults': %s (%s)" % (
            "caught" if "bridge:with_penalty:value" in got else "MISSED", ", ".join(sorted(got)[:3])))
        missed += 0 if "bridge:with_penalty:value" in got else 1
        ck = fresh()
        with contextlib.redirect_stdout(io.StringIO()):
            bridges_part(ck, a, light=True, tl=tl, corrupt=True)
        got = set(ck.viol_keys) - base
        lacking = [e for e in EXPECT_CORRUPT if not any(k.startswith(e) for k in got)]
        print("SELFTEST bridges corrupted TLC expected values (one per family): %s (%s)" % (
            "caught" if not lacking else "MISSED " + ", ".join(lacking), ", ".join(sorted(got)[:4])))
        missed += 1 if lacking else 0
    finally:
        restore()
        shutil.rmtree(scratch, ignore_errors=True)
    return 1 if missed else 0
