"""C08, differential-evolution half -- trial vectors are formed exactly as the strategy defines, and a member is
replaced only by a trial of strictly lower energy.

spec -> code, the TLA+ specification is the oracle:

 * specs/de/Strategy.tla: the ten strategies as functions of (population, best, candidate, F, CR, explicit random
   draws).  TLC checks the property on every case of the bounded class and emits each case with the trial vector
   and the number of random() calls the specification defines.  Here the REAL mystic.strategy function is run on a
   REAL DifferentialEvolutionSolver / DifferentialEvolutionSolver2 object whose population / bestSolution / scale /
   probability were set to the case, with `mystic.strategy.random` replaced by a scripted object that returns the
   draws TLC chose; the trial must be exactly the specification's, the draws must be made in the specified order,
   from the specified pool, and exactly as many as specified.
 * specs/solver/DE.tla: the generation loop at the level of ids.  TLC emits whole behaviours (cost table, initial
   population, one row of trial rules per Step, expected population / energies / best after every Step); a
   scripted strategy callable (passed to every Step) and a table cost replay them on both real solvers.

The specification carries, next to the published definition ("pub"), an "asis" variant with two NAMED deviations
(DevBinIsExp, DevExpEmptyRun).  It is used only to give a mismatch a precise key; it is never the oracle for "held".
"""
import sys, os, time, warnings, io, contextlib, types
from concurrent.futures import ThreadPoolExecutor, as_completed
from harness.core import Check, tier_seed, assert_repo, main_guard
from harness.tlc import run_tlc

INF = 1000000
SENT = -7777.25          # value of an unwritten trial component
DEV_BIN_IS_EXP = ("Rand1Bin", "RandToBest1Bin", "Best2Bin", "Rand2Bin")
ALL_SHAPES = [(np_, d) for np_ in (4, 5, 6) for d in (1, 2, 3)]

RULE = ("DE half: every case of specs/de/Strategy.tla (NP 4..6, nDim 1..3, all ten strategies, every distinct donor "
        "tuple, start index, crossover draw pattern, F in {1/2,1}) is run through the real strategy function with a "
        "scripted RNG on both solver classes: trial vector, draw order, pool and number of draws must equal the "
        "specification's; every behaviour of specs/solver/DE.tla is replayed on both solvers with a scripted strategy "
        "and a table cost, comparing population, energies, best after every Step.  Non-trivial = a trial mixing parent "
        "and mutant components / a behaviour in which an equal-energy trial met a member")


# ------------------------------------------------------------------------------------------------ scripted RNG
class RngProtocol(Exception):
    """the strategy used the random module outside the draw protocol of the specification"""


class ScriptedRandom(object):
    """stands in for the module object `mystic.strategy.random`: returns the draws TLC chose and logs every call"""
    def __init__(self):
        self.load((), 0, ())

    def load(self, donors, n, draws):
        self.donors, self.n, self.draws = donors, n, draws
        self.log = ""            # 's' sample, 'r' randrange, 'u' random
        self.pool = None
        self.k = None
        self.rr_args = None
        self.i = 0

    def sample(self, population, k, **kw):
        self.log += "s"
        self.pool, self.k = list(population), k
        return list(self.donors)

    def randrange(self, *args, **kw):
        self.log += "r"
        self.rr_args = args
        return self.n

    def random(self):
        self.log += "u"
        if self.i >= len(self.draws):
            raise RngProtocol("more random() calls than the specification's script holds (%d)" % len(self.draws))
        v = self.draws[self.i]
        self.i += 1
        return v

    def __getattr__(self, name):
        if name.startswith("__"):
            raise AttributeError(name)
        raise RngProtocol("random.%s is not part of the draw protocol (sample, randrange, random)" % name)


class GenRandom(object):
    """scripted RNG for a whole generation: one ScriptedRandom record per strategy call; a call starts with sample()"""
    def __init__(self):
        self.load([])

    def load(self, scripts):
        self.recs = []
        for (don, n, draws) in scripts:
            r = ScriptedRandom()
            r.load(don, n, draws)
            self.recs.append(r)
        self.idx = -1

    def sample(self, population, k, **kw):
        self.idx += 1
        if self.idx >= len(self.recs):
            raise RngProtocol("more strategy calls (sample) than candidates")
        return self.recs[self.idx].sample(population, k, **kw)

    def randrange(self, *args, **kw):
        if self.idx < 0:
            raise RngProtocol("randrange before sample")
        return self.recs[self.idx].randrange(*args, **kw)

    def random(self):
        if self.idx < 0:
            raise RngProtocol("random before sample")
        return self.recs[self.idx].random()

    def __getattr__(self, name):
        if name.startswith("__"):
            raise AttributeError(name)
        raise RngProtocol("random.%s is not part of the draw protocol (sample, randrange, random)" % name)


# ------------------------------------------------------------------------------------------------ TLC runs
def _plan(a):
    """(tag, module, cfg, kwargs, expected_violation) for every TLC run of this tier"""
    thorough = a.tier == "thorough"
    runs = [("strategy", "de/MC_Strategy", "MC_Strategy_q45.cfg", {}, None)]
    if thorough:
        for (np_, d) in sorted(ALL_SHAPES, key=lambda s: -s[0] * 10 - s[1]):
            runs.append(("strategy", "de/MC_Strategy", "MC_Strategy_shape.cfg",
                         {"env": {"NP": np_, "D": d}, "heap": "4g"}, None))
        runs.append(("strategy-mc", "de/MC_Strategy", "MC_Strategy_deep.cfg",
                     {"workers": max(1, min(4, a.jobs // 4)), "heap": "6g"}, None))
    else:
        runs.append(("strategy", "de/MC_Strategy", "MC_Strategy_q6.cfg", {}, None))
    runs.append(("strategy-gen", "de/MC_Strategy", "MC_Strategy_gen.cfg", {}, None))
    # the falsy settings CrossProbability=0 and ScalingFactor=0 handed to Step as keywords
    runs.append(("strategy-gen", "de/MC_Strategy", "MC_Strategy_gen0.cfg", {}, None))
    for w in ("AsIsAtLeastOneMutated", "PubBinNeverScattered", "NeverFullRun"):
        runs.append(("witness", "de/MC_Strategy", "MC_Strategy_wit_%s.cfg" % w, {}, w))
    runs.append(("strategy-mc", "de/MC_Strategy", "MC_Strategy_asis_runs.cfg", {}, None))
    for w in ("NeverTie", "NeverReplaced"):
        runs.append(("witness", "solver/MC_DE", "MC_DE_wit_%s.cfg" % w, {}, w))
    if thorough:
        for c in ("thorough", "np5", "g2"):
            runs.append(("de", "solver/MC_DE", "MC_DE_%s.cfg" % c, {"heap": "4g"}, None))
    else:
        runs.append(("de", "solver/MC_DE", "MC_DE_quick.cfg", {}, None))
    runs.append(("de", "solver/MC_DE", "MC_DE_deep.cfg", {"seed": a.seed}, None))
    return runs


def generate(a, consume):
    """run every TLC job of the tier (in parallel processes) and hand each result to consume(tag, name, result)
    in the main thread as it completes"""
    runs = _plan(a)

    def one(run):
        tag, module, cfg, kw, expect = run
        kw = dict(kw)
        kw.setdefault("workers", 1)
        kw.setdefault("timeout", 3000)
        r = run_tlc(module, cfg=cfg, **kw)
        name = cfg[:-4] + ("".join("_%s%s" % kv for kv in sorted(kw.get("env", {}).items())))
        return tag, name, r, expect

    with ThreadPoolExecutor(max_workers=max(1, min(a.jobs, len(runs)))) as ex:
        futs = [ex.submit(one, run) for run in runs]
        for f in as_completed(futs):
            tag, name, r, expect = f.result()
            consume(tag, name, r, expect)
            r["out"] = ""
            r["printed"] = []


# ------------------------------------------------------------------------------------------------ Strategy replay
class StrategyReplay(object):
    def __init__(self, ck, corrupt=False):
        import mystic.strategy as S
        import mystic.differential_evolution as D
        self.ck, self.S, self.D = ck, S, D
        self.rng = ScriptedRandom()
        self.solvers = {}
        self.corrupt = corrupt          # self-test: falsify one expected trial component
        self.ncases = 0
        self.ngen = 0
        self.masks = {}                 # (s, d, n) -> set of masks the specification produced (coverage of Bin patterns)
        self.dev = {}

    def solver(self, kind, np_, d):
        key = (kind, np_, d)
        if key not in self.solvers:
            cls = self.D.DifferentialEvolutionSolver if kind == "DE" else self.D.DifferentialEvolutionSolver2
            inst = cls(d, np_)
            if inst.nPop != np_ or inst.nDim != d or bool(inst._map_solver) != (kind == "DE2"):
                raise RuntimeError("solver shape: asked %s got nPop=%s nDim=%s" % (key, inst.nPop, inst.nDim))
            self.solvers[key] = inst
        return self.solvers[key]

    def run(self, res):
        ck, S, rng = self.ck, self.S, self.rng
        hdr = res.printed[0]
        if hdr.get("k") != "hdr":
            raise RuntimeError("Strategy emission without header")
        Q, CRq, scale, ndon = float(hdr["Q"]), hdr["CRq"], float(hdr["scale"]), hdr["ndonors"]
        if hdr["order"] != ["sample", "randrange", "random"]:
            raise RuntimeError("unexpected draw order in the specification header")
        CR = CRq / Q
        inits = {}
        saved = S.random
        S.random = rng
        try:
            for st in res.printed[1:]:
                if st["k"] == "init":
                    inits[(st["np"], st["d"])] = ([[v / scale for v in m] for m in st["pop"]], [v / scale for v in st["best"]])
                    continue
                self.case(st, inits[(st["np"], st["d"])], CR, Q, scale, ndon)
        finally:
            S.random = saved

    def case(self, st, init, CR, Q, scale, ndon):
        ck, rng = self.ck, self.rng
        np_, d, s, c, f = st["np"], st["d"], st["s"], st["c"], st["f"]
        P0, B0 = init
        fn = getattr(self.S, s)
        draws = [u / Q for u in st["u"]]
        exp_t = [v / scale for v in st["t"]]
        asis_t = [v / scale for v in st["at"]]
        if self.corrupt and self.ncases == 17:
            exp_t[0] += 1.0
            asis_t[0] += 1.0
        self.ncases += 1
        w = st["w"]
        key = (np_, d, s, c, f, tuple(st["don"]), st["n"], tuple(st["u"]))
        self.masks.setdefault((s, d, st["n"]), set()).add(tuple(w))
        if len(ck.samples) < 2 and 0 < len(w) < d and s in ("Rand1Exp", "Best1Bin") and st["n"] > 0:
            ck.sample({"strategy": s, "NP": np_, "nDim": d, "candidate": c, "F": f / 2.0, "CR": CR, "population": P0,
                       "best": B0, "donors": st["don"], "n": st["n"], "draws": draws, "spec_trial": exp_t,
                       "spec_mutated_positions": w, "spec_random_calls": st["used"]})
        for kind in ("DE", "DE2"):
            inst = self.solver(kind, np_, d)
            P = [m[:] for m in P0]
            B = B0[:]
            inst.population = P
            inst.bestSolution = B
            inst.scale = f / 2.0
            inst.probability = CR
            if kind == "DE2":
                inst.trialSolution = [[SENT] * d for _ in range(np_)]
            else:
                inst.trialSolution = [SENT] * d
            rng.load(st["don"], st["n"], draws)
            err = None
            try:
                fn(inst, c)
            except RngProtocol as ex:
                err = "rng-protocol: %s" % ex
            except Exception as ex:
                err = "raised %r" % (ex,)
            ck.case(nontrivial=0 < len(w) < d, key=key)
            got = list(inst.trialSolution[c]) if kind == "DE2" else list(inst.trialSolution)
            got = [float(v) for v in got]
            side = None
            if not err:
                if P != P0 or list(B) != B0:
                    side = "the strategy changed the population or bestSolution"
                elif kind == "DE2" and any(r != [SENT] * d for i, r in enumerate(inst.trialSolution) if i != c):
                    side = "the strategy wrote a trial row of another candidate"
            self.verdict("strategy", st, kind, CR, P0, B0, draws, exp_t, asis_t, got, rng, err, side, ndon)

    def verdict(self, prefix, st, kind, CR, P0, B0, draws, exp_t, asis_t, got, rng, err, side, ndon):
        """compare one real strategy call (trial `got`, call record `rng`) with the specification's case `st`"""
        ck = self.ck
        np_, d, s, c, f, w = st["np"], st["d"], st["s"], st["c"], st["f"], st["w"]
        problems = []
        what = None
        if err:
            problems.append(err)
            what = "rng-protocol" if err.startswith("rng-protocol") else "raised"
        else:
            pool_ok = rng.pool is not None and sorted(rng.pool) == [i for i in range(np_) if i != c] and rng.k == ndon[s]
            if not pool_ok:
                problems.append("sample(pool=%s, k=%s): the specification draws %d distinct donors from all members but %d"
                                % (rng.pool, rng.k, ndon[s], c))
                what = "donor-pool"
            elif rng.rr_args != (d,):
                problems.append("randrange%s, specification: randrange(%d)" % (rng.rr_args, d))
                what = "start-index-draw"
            elif side:
                problems.append(side)
                what = "side-effect"
        if not problems:
            if self.same(got, rng, exp_t, st["used"], st["sl"]):
                return True
            if self.same(got, rng, asis_t, st["aused"], st["asl"]):
                # a named deviation explains it: buffered, reported by flush() with the most telling case first
                dev = "DevBinIsExp" if s in DEV_BIN_IS_EXP else "DevExpEmptyRun"
                score = (got != exp_t) + (len(st["aw"]) == 0 and dev == "DevExpEmptyRun") + \
                        (dev == "DevBinIsExp" and d == 3 and len(w) == 2 and (st["n"] + 1) % d not in w) + (kind == "DE")
                e = self.dev.setdefault((dev, s), [0, {}])
                e[0] += 1
                if score > e[1].get(kind, (-1,))[0]:
                    e[1][kind] = (score, self.detail(st, kind, CR, P0, B0, draws, exp_t, got, rng, dev),
                                  self.explain(dev, s, st, kind, CR, draws, exp_t, got, rng))
                return False
            if got != exp_t and got != asis_t:
                what = "trial"
                problems.append("trial vector")
            else:
                what = "draws"
                problems.append("random() calls / order")
        ck.violation("%s:%s:%s" % (prefix, s, what), self.detail(st, kind, CR, P0, B0, draws, exp_t, got, rng, "; ".join(problems)),
                     "%s on %s NP=%d nDim=%d c=%d F=%s CR=%s donors=%s n=%d draws=%s: %s; specification trial %s (%d random() calls), "
                     "mystic trial %s (calls %r)" % (s, kind, np_, d, c, f / 2.0, CR, st["don"], st["n"], draws, "; ".join(problems),
                                                    exp_t, st["used"], got, rng.log))
        return False

    # ---- whole generations: the same cases, but the strategy is called by the real solver's Step ----------------
    def run_generations(self, res):
        """cases emitted with best = member 0 (MC_Strategy_gen): one case per candidate makes one generation of a real
        solver whose members all cost 0 and every other point +inf (so nothing is accepted, the population stays the
        specification's, best = member 0).  Step(strategy=<function>, CrossProbability=CR, ScalingFactor=F) must hand
        the cost function, candidate by candidate, exactly the specification's trial vectors."""
        ck, S = self.ck, self.S
        hdr = res.printed[0]
        Q, scale, ndon = float(hdr["Q"]), float(hdr["scale"]), hdr["ndonors"]
        CR = hdr["CRq"] / Q
        inits, groups = {}, {}
        for st in res.printed[1:]:
            if st["k"] == "init":
                inits[(st["np"], st["d"])] = ([[v / scale for v in m] for m in st["pop"]], [v / scale for v in st["best"]])
            else:
                groups.setdefault((st["np"], st["d"], st["s"], st["f"]), {}).setdefault(st["c"], []).append(st)
        saved = S.random
        gr = GenRandom()
        S.random = gr
        try:
            ngen = 0
            for (np_, d, s, f), byc in sorted(groups.items()):
                P0, B0 = inits[(np_, d)]
                if B0 != P0[0] or sorted(byc) != list(range(np_)):
                    raise RuntimeError("generation cases need best = member 0 and every candidate")
                members = set(tuple(m) for m in P0)
                for g in range(max(len(v) for v in byc.values())):
                    cases = [byc[c][g % len(byc[c])] for c in range(np_)]
                    ngen += 1
                    kind = "DE" if ngen % 2 else "DE2"
                    cls = self.D.DifferentialEvolutionSolver if kind == "DE" else self.D.DifferentialEvolutionSolver2
                    inst = cls(d, np_)
                    inst.population = [m[:] for m in P0]
                    inst.SetTermination(never)
                    seen = []

                    def cost(x):
                        x = [float(v) for v in x]
                        seen.append(x)
                        return 0.0 if tuple(x) in members else float("inf")
                    gr.load([(st["don"], st["n"], [u / Q for u in st["u"]]) for st in cases])
                    err = None
                    try:
                        inst.Step(cost)
                        del seen[:]
                        msg = inst.Step(strategy=getattr(S, s), CrossProbability=CR, ScalingFactor=f / 2.0)
                        if msg is not None:
                            err = "raised: Step stopped with %r" % (msg,)
                    except RngProtocol as ex:
                        err = "rng-protocol: %s" % ex
                    except Exception as ex:
                        err = "raised %r" % (ex,)
                    side = None
                    if not err:
                        if len(seen) != np_ or gr.idx != np_ - 1:
                            err = "raised: %d evaluations and %d strategy calls in one generation of %d candidates" % (len(seen), gr.idx + 1, np_)
                        elif [list(map(float, m)) for m in inst.population] != P0 or list(map(float, inst.bestSolution)) != B0:
                            side = "the population or the best changed although every trial costs +inf"
                    for c, st in enumerate(cases):
                        ck.case(nontrivial=0 < len(st["w"]) < d, key=("gen", kind, np_, d, s, c, f, tuple(st["don"]), st["n"], tuple(st["u"])))
                        got = seen[c] if c < len(seen) else []
                        rec = gr.recs[c] if c < len(gr.recs) else ScriptedRandom()
                        draws = [u / Q for u in st["u"]]
                        self.verdict("generation", st, kind, CR, P0, B0, draws, [v / scale for v in st["t"]],
                                     [v / scale for v in st["at"]], got, rec, err, side, ndon)
                        if err:
                            break
                    ck.trace()
            self.ngen += ngen
        finally:
            S.random = saved

    @staticmethod
    def same(got, rng, t, used, slack):
        if got != t:
            return False
        allowed = (used, used - 1) if slack else (used,)
        return any(rng.log == "sr" + "u" * k for k in allowed)

    @staticmethod
    def detail(st, kind, CR, P0, B0, draws, exp_t, got, rng, note):
        return {"case": st, "solver": kind, "CR": CR, "population": P0, "best": B0, "draws": draws, "spec_trial": exp_t,
                "mystic_trial": got, "mystic_calls": rng.log, "sample_pool": rng.pool, "sample_k": rng.k, "note": note}

    @staticmethod
    def explain(dev, s, st, kind, CR, draws, exp_t, got, rng):
        if dev == "DevBinIsExp":
            head = ("%s applies the EXPONENTIAL crossover loop (its body is a copy of the *Exp strategy): the mutated positions are a "
                    "run from n that stops at the first draw >= CR, not the binomial rule (n forced, every other position by its own draw)" % s)
        else:
            head = ("%s draws BEFORE the first mutation (`while 1: if random() >= CR or i == nDim: break`), so the run length is the "
                    "number of leading draws below CR (possibly 0: the trial is the parent unchanged) instead of 1 + that number" % s)
        return "%s.  %s NP=%d nDim=%d c=%d donors=%s n=%d draws=%s CR=%s: specification trial %s mutated %s, mystic trial %s (calls %r)" % (
            head, kind, st["np"], st["d"], st["c"], st["don"], st["n"], draws, CR, exp_t, st["w"], got, rng.log)

    def flush(self):
        """report the buffered named-deviation mismatches: every one counts, the most telling case is written out"""
        for (dev, s), (n, best) in sorted(self.dev.items()):
            key = "strategy:%s:%s" % (dev, s)
            shown = [best[k] for k in ("DE", "DE2") if k in best]
            for i in range(n):
                if i < len(shown):
                    self.ck.violation(key, shown[i][1], shown[i][2])
                else:
                    self.ck.violation(key, shown[0][1], "")
        hits = {"%s:%s" % k: v[0] for k, v in sorted(self.dev.items())}
        self.dev = {}
        return hits

    def coverage(self):
        """vacuity: for every binomial strategy, dimension and n, the specification produced every subset containing n"""
        bad = []
        for (s, d, n), ms in self.masks.items():
            if s.endswith("Bin") and len(ms) != 2 ** (d - 1):
                bad.append((s, d, n, len(ms)))
            if s.endswith("Exp") and len(ms) != d:
                bad.append((s, d, n, len(ms)))
        if bad:
            raise RuntimeError("specification cases do not cover all crossover patterns: %s" % bad[:5])


# ------------------------------------------------------------------------------------------------ DE replay
def never(inst, info=False):
    return "" if info else False


class DEReplay(object):
    def __init__(self, ck, corrupt=False):
        import mystic.differential_evolution as D
        self.ck, self.D = ck, D
        self.corrupt = corrupt
        self.n = 0
        self.final = {}          # (cost, pop0, rows) -> {kind: final pop}: how often the two solvers must differ

    def run(self, res):
        for b in res.printed:
            self.behaviour(b)

    def behaviour(self, b):
        ck = self.ck
        kind, table, pop0, steps = b["kind"], b["cost"], b["pop0"], b["steps"]
        K, NP = len(table), len(pop0)
        self.n += 1
        dim = 1 + self.n % 3
        emb = {p: [float(p * (j + 1)) + 0.5 * j for j in range(dim)] for p in range(1, K + 1)}
        ident = {tuple(v): p for p, v in emb.items()}
        energy = {tuple(emb[p]): (float("inf") if table[p - 1] == INF else float(table[p - 1])) for p in emb}
        cls = self.D.DifferentialEvolutionSolver if kind == "DE" else self.D.DifferentialEvolutionSolver2
        s = cls(dim, NP)
        if s.nPop != NP:
            raise RuntimeError("solver has nPop=%s, behaviour needs %s" % (s.nPop, NP))
        s.population = [emb[p][:] for p in pop0]
        s.SetTermination(never)
        cur = {}

        def cost(x):
            return energy[tuple(float(v) for v in x)]

        def strat(inst, c):
            r = cur["row"][c]
            if r <= K:
                v = emb[r]
            elif r == K + NP + 1:
                v = inst.bestSolution
            else:
                v = inst.population[r - K - 1]
            t = inst.trialSolution[c] if inst._map_solver else inst.trialSolution
            t[:] = v

        tie = any(st["tie"] for st in steps)
        rows = tuple(tuple(st["row"]) for st in steps)
        ck.case(nontrivial=tie, key=("de", kind, tuple(table), tuple(pop0), rows))
        self.final.setdefault((tuple(table), tuple(pop0), rows), {})[kind] = tuple(steps[-1]["pop"])
        if self.corrupt and self.n == 5:
            steps = [dict(st) for st in steps]
            steps[-1]["bestE"] = steps[-1]["bestE"] + 1
        for k, st in enumerate(steps):
            cur["row"] = st["row"]
            try:
                msg = s.Step(cost, strategy=strat) if k == 0 else s.Step(strategy=strat)
                got = {"pop": [ident.get(tuple(float(v) for v in m), list(map(float, m))) for m in s.population],
                       "popE": [float(e) for e in s.popEnergy],
                       "best": ident.get(tuple(float(v) for v in s.bestSolution), list(map(float, s.bestSolution))),
                       "bestE": float(s.bestEnergy)}
            except Exception as ex:
                ck.violation("select:%s:raised" % kind, {"behaviour": b, "step": k, "error": repr(ex)},
                             "%s Step %d raised %r" % (kind, k, ex))
                break
            exp = {"pop": st["pop"], "popE": [float("inf") if e == INF else float(e) for e in st["popE"]],
                   "best": st["best"], "bestE": float("inf") if st["bestE"] == INF else float(st["bestE"])}
            bad = [f for f in ("pop", "popE", "best", "bestE") if got[f] != exp[f]]
            if msg is not None:
                bad.append("stopped")
            if bad:
                cls_ = "tie-replaced" if (st["tie"] and ("pop" in bad or "best" in bad)) else bad[0]
                ck.violation("select:%s:%s" % (kind, cls_),
                             {"behaviour": b, "step": k, "embedding": emb, "expected": exp, "got": got, "msg": msg},
                             "%s, cost table %s, initial population %s, rows %s: after Step %d the specification has %s, mystic has %s"
                             % (kind, table, pop0, [list(r) for r in rows[:k + 1]], k, {f: exp[f] for f in bad if f in exp},
                                {f: got[f] for f in bad if f in got}))
                break
        ck.trace()
        if len(ck.samples) < 4 and tie and kind == "DE2" and len(steps) == 2:
            ck.sample({"solver": kind, "cost_table": table, "initial_population": pop0,
                       "rows(rule per candidate: 1..K point, K+m copy member m, K+NP+1 copy best)": [list(r) for r in rows],
                       "spec_after_each_step": [{f: st[f] for f in ("pop", "popE", "best", "bestE")} for st in steps]})

    def differ(self):
        n = sum(1 for v in self.final.values() if len(v) == 2 and v["DE"] != v["DE2"])
        both = sum(1 for v in self.final.values() if len(v) == 2)
        return n, both


# ------------------------------------------------------------------------------------------------ explore
ASSUMPTIONS = [
    "DE strategies: populations are small integers (or halves), F in {1/2, 1}, draws and CR are multiples of 1/8 (CR 1/2; "
    "thorough also 3/4), the draws are the two values next to CR (CR-1/8 and CR itself): IEEE arithmetic is exact and the "
    "comparison with CR is decided at its boundary",
    "the draw protocol (one sample() from all members but the candidate, one randrange(nDim), then random() calls; which call "
    "decides which position) is part of specs/de/Strategy.tla; a last random() call whose outcome cannot matter (the run "
    "already has nDim positions) may or may not be made",
    "the generic initial population of Strategy.tla makes every signed sum of up to five members distinct, so a wrong donor, "
    "sign, coordinate or base changes the trial; bestSolution is a vector different from every member",
    "DE selection is bound through scripted strategy callables (passed to every Step) and table costs over 3 points embedded in "
    "R^1..R^3, NP 4 (thorough also 5), no constraints/bounds/penalty; the random rows of MC_DE_deep are not reproducible by seed "
    "(the replay artefact of a violation holds the whole behaviour)",
]


def explore(ck, a, corrupt=None, light=False):
    """run the DE half of C08 into the shared Check `ck` (a.tier, a.seed, a.jobs)"""
    assert_repo()
    warnings.simplefilter("ignore")
    sr = StrategyReplay(ck, corrupt == "strategy")
    dr = DEReplay(ck, corrupt == "de")
    wit = {}

    def consume(tag, name, r, expect):
        if tag == "witness":
            wit[name] = r.violated
            if r.violated != expect:
                raise RuntimeError("vacuity witness %s: TLC was expected to violate %s, reported %r" % (name, expect, r.violated))
            return
        if r.violated:
            ck.violation("spec:" + r.violated, {"model": name, "tlc": r.out[-4000:]},
                         "TLC: design property %s violated in %s" % (r.violated, name))
        ck.mc(r, name)
        if tag == "strategy":
            sr.run(r)
        elif tag == "strategy-gen":
            sr.run_generations(r)
        elif tag == "de":
            dr.run(r)

    generate(a, consume)
    hits = sr.flush()
    sr.coverage()
    nd, both = dr.differ()
    if both and not nd:
        raise RuntimeError("no behaviour distinguishes the in-place loop of DE from the frozen generation of DE2")
    ck.extra["de_strategy_cases"] = sr.ncases
    ck.extra["de_real_generations_with_real_strategies"] = sr.ngen
    ck.extra["de_behaviours"] = dr.n
    ck.extra["de_scripts_where_DE_and_DE2_must_differ"] = nd
    ck.extra["de_witnesses_violated_as_expected"] = sorted(wit)
    ck.extra["de_named_deviation_hits"] = hits
    for x in ASSUMPTIONS:
        if x not in ck.assumptions:
            ck.assumptions.append(x)
    return ck


# ------------------------------------------------------------------------------------------------ self-test
def _mutants():
    import mystic.strategy as S
    import mystic.differential_evolution as D
    from harness.srcpatch import patch
    DE, DE2 = D.DifferentialEvolutionSolver, D.DifferentialEvolutionSolver2
    pool = "list(range(exclude))+list(range(exclude+1,NP))"
    return [
        ("DE selection < becomes <=",
         lambda: patch(DE, "_Step", "if trialEnergy < self.popEnergy[candidate]:", "if trialEnergy <= self.popEnergy[candidate]:")),
        ("DE2 selection < becomes <=",
         lambda: patch(DE2, "_Step", "if trialEnergy[candidate] < self.popEnergy[candidate]:",
                       "if trialEnergy[candidate] <= self.popEnergy[candidate]:")),
        ("DE all-time best < becomes <=",
         lambda: patch(DE, "_Step", "if trialEnergy < self.bestEnergy:", "if trialEnergy <= self.bestEnergy:")),
        ("DE2 sees in-generation replacements",
         lambda: patch(DE2, "_Step", "            self.trialSolution[candidate][:] = constraints(self.trialSolution[candidate])\n",
                       "            self.trialSolution[candidate][:] = constraints(self.trialSolution[candidate])\n"
                       "            if strategy and cost(self.trialSolution[candidate]) < self.popEnergy[candidate]:\n"
                       "                self.population[candidate][:] = self.trialSolution[candidate]\n")),
        ("DE ignores the ScalingFactor given to Step",
         lambda: patch(DE, "_process_inputs", "self.scale = kwds[word] if word in kwds else scale", "self.scale = scale")),
        ("DE2 ignores the CrossProbability given to Step",
         lambda: patch(DE2, "_process_inputs", "self.probability = kwds[word] if word in kwds else probability", "self.probability = probability")),
        ("DE2 calls the strategy with the wrong candidate index",
         lambda: patch(DE2, "_Step", "strategy(self, candidate)", "strategy(self, (candidate + 1) % self.nPop)")),
        ("donors sampled with replacement",
         lambda: patch(S, "get_random_candidates", "return random.sample(%s, N)" % pool,
                       "return [random.choice(%s) for _ in range(N)]" % pool)),
        ("donors may include the candidate itself",
         lambda: patch(S, "get_random_candidates", pool, "list(range(NP))")),
        ("Rand1Exp start index off by one",
         lambda: patch(S, "Rand1Exp", "n = random.randrange(inst.nDim)", "n = (random.randrange(inst.nDim) + 1) % inst.nDim")),
        ("Best1Exp applies F to the base instead of the difference",
         lambda: patch(S, "Best1Exp", "inst.bestSolution[n] + \\\n                           inst.scale * (",
                       "inst.scale * inst.bestSolution[n] + \\\n                           (")),
        ("Best1Bin never forces a position",
         lambda: patch(S, "Best1Bin", "if i==n or cross < inst.probability:", "if cross < inst.probability:")),
        ("Best1Bin crossover < becomes <=",
         lambda: patch(S, "Best1Bin", "if i==n or cross < inst.probability:", "if i==n or cross <= inst.probability:")),
        ("Best1Bin uses population[0] instead of bestSolution",
         lambda: patch(S, "Best1Bin", "trialSolution[i] = inst.bestSolution[i] + \\", "trialSolution[i] = inst.population[0][i] + \\")),
        ("Rand2Exp swaps the sign of a donor",
         lambda: patch(S, "Rand2Exp", "inst.population[r3][n] - \\", "inst.population[r3][n] + \\")),
        ("RandToBest1Exp pulls towards population[candidate] instead of best",
         lambda: patch(S, "RandToBest1Exp", "inst.scale * (inst.bestSolution[n] - \\", "inst.scale * (inst.population[r1][n] - \\")),
    ]


class _Cached(object):
    """TLC results do not depend on the mutant: generate once, replay per mutant"""
    def __init__(self, a):
        self.items = []
        generate(a, lambda tag, name, r, expect: self.items.append((tag, name, types.SimpleNamespace(
            printed=r.printed, violated=r.violated, out="", get=r.get), expect)))

    def replay(self, ck, corrupt=None):
        sr = StrategyReplay(ck, corrupt == "strategy")
        dr = DEReplay(ck, corrupt == "de")
        for tag, name, r, expect in self.items:
            if tag == "strategy":
                sr.run(r)
            elif tag == "strategy-gen":
                sr.run_generations(r)
            elif tag == "de":
                dr.run(r)
        sr.flush()


def selftest(a):
    """in-memory mutants of mystic (never written to /repo) + corrupted expected values: each must yield a violation class
    that the unchanged tree does not yield"""
    assert_repo()
    warnings.simplefilter("ignore")
    a2 = types.SimpleNamespace(tier="quick", seed=a.seed, jobs=a.jobs)
    cache = _Cached(a2)

    def classes(corrupt=None):
        ck = Check("C08", "model_checking", "quick", a.seed)
        ck.dry = True
        ck.outdir = "/dev/shm/verif_c08_de_selftest_%d" % os.getpid()
        buf = io.StringIO()
        with contextlib.redirect_stdout(buf):
            try:
                cache.replay(ck, corrupt)
            except Exception as ex:
                ck.viol_keys["raised %r" % (ex,)] = 1
        return set(ck.viol_keys)

    base = classes()
    print("SELFTEST baseline (unchanged tree) violation classes: %s" % (sorted(base) or "none"))
    missed = 0
    for name, mk in _mutants():
        undo = mk()
        try:
            new = classes() - base
        finally:
            undo()
        print("SELFTEST %s: %s   %s" % (name, "caught" if new else "MISSED", "; ".join(sorted(new))[:200]))
        missed += 0 if new else 1
    for what in ("strategy", "de"):
        new = classes(corrupt=what) - base
        print("SELFTEST corrupted expected value from TLC (%s): %s   %s" % (what, "caught" if new else "MISSED", "; ".join(sorted(new))[:200]))
        missed += 0 if new else 1
    if classes() != base:
        print("SELFTEST undo: MISSED (classes differ after removing the mutants)")
        missed += 1
    import shutil
    shutil.rmtree("/dev/shm/verif_c08_de_selftest_%d" % os.getpid(), ignore_errors=True)
    return 1 if missed else 0


def main():
    a = tier_seed()
    assert_repo()
    if a.selftest:
        return selftest(a)
    ck = Check("C08", "model_checking", a.tier, a.seed, rule=RULE)
    ck.dry = True               # standalone runs of this half never write evidence/C08.json
    ck.outdir = os.path.join(ck.outdir, "de_standalone")
    ck.exhaustive = True
    explore(ck, a)
    for r in ck.mc_runs:
        print("  TLC %-40s distinct %8s generated %8s  %6.1fs" % (r["model"], r["distinct_states"], r["states_generated"], r["wall_s"]))
    for k, v in sorted(ck.extra.items()):
        print("  %s: %s" % (k, v))
    return ck.finish()


if __name__ == "__main__":
    main_guard(main)
