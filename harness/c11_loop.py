"""C11, the solver loop Solve -> Collapse -> Solve ...

spec -> code (`replay_stop`): TLC (specs/term/Collapse.tla, Record = TRUE) emits every reachable stop of the
loop machine together with the stops at which collapses were applied before it (the script), the members the
termination names there, what Collapse() must report, the masks afterwards and, for every point of the domain
that would break a collapsed relation, the clauses it breaks.  The script is replayed on a real solver object
(its step monitor is loaded with exactly the recorded history) through the public Collapse(); afterwards the
solver's constraints are applied to every point of the domain and the result looked up in TLC's table.

(Measure collapses -- CollapseWeight / CollapsePosition on a flattened product measure -- run through the same
specification and the same `validate`; their replay and recording are in harness/c11_measure.py.)

code -> spec (`record_run`, `validate`): real solvers run on objectives with flat and tied directions under
Or(stop, CollapseAt, CollapseAs); the cost and Collapse() are wrapped; parameter values are interned to
equality-preserving integer ids (exact float equality, -0.0 = 0.0); TLC validates every recorded run against
specs/term/Trace_Collapse.tla and returns, per run, the names of the specification clauses it breaks.
"""
import json, os, shutil, warnings, random

FREE, UNSET = -1, -2


def _tol(t):
    return t[0] / t[1]


def _target(tgt, vals=float):
    if tgt["mode"] == "none":
        return None
    if tgt["mode"] == "scalar":
        return vals(tgt["v"][0])
    return [vals(v) for v in tgt["v"]]


def py_mask(m):
    if m["none"]:
        return None
    return set(int(i) for i in m["idx"]) | set((int(p[0]), int(p[1])) for p in m.get("prs", ()))


def stop_condition(mt):
    # VTR(0, -1): holds iff the last recorded energy is exactly -1.0
    return mt.VTR(0.0, -1.0)


def build_termination(mt, conf, stop=None, vals=float, emb=None, mask_fillers=False):
    """Or(stop, CollapseAt, CollapseAs) of a configuration; emb: at the real positions of an embedding
    (harness/c11_embed.py); mask_fillers: the filler positions are named in the initial masks"""
    members = [stop if stop is not None else stop_condition(mt)]
    embedded = emb is not None and not emb.identity
    target = _target(conf["atTgt"], vals)
    mat, mas = py_mask(conf["initAt"]), py_mask(conf["initAs"])
    if embedded:
        if conf["atTgt"]["mode"] == "list":
            target = emb.target_list(target)
        if mat is not None:
            mat = emb.idx(mat)
        if mas is not None:
            mas = emb.idx(i for i in mas if not isinstance(i, tuple)) | emb.pairs(i for i in mas if isinstance(i, tuple))
        if mask_fillers:
            mat = set(mat or ()) | set(emb.fillers)
            mas = set(mas or ()) | set(emb.fillers)
    if conf["atOn"]:
        members.append(mt.CollapseAt(target=target, tolerance=_tol(conf["atTol"]), generations=conf["atG"], mask=mat))
    if conf["asOn"]:
        members.append(mt.CollapseAs(offset=False, tolerance=_tol(conf["asTol"]), generations=conf["asG"], mask=mas))
    return mt.Or(*members)


NOMM = {"fmt": "none", "els": []}          # a measure mask of the specification: mask=None


def _jl(x):
    return [_jl(i) for i in x] if isinstance(x, (tuple, list)) else int(x)


def members_of(message):
    """the members of Or(stop, CollapseAt, CollapseAs, CollapseWeight, CollapsePosition) a termination message names"""
    out = set()
    for part in (message or "").split("; "):
        if not part:
            continue
        out.add("at" if part.startswith("CollapseAt") else "as" if part.startswith("CollapseAs") else
                "wt" if part.startswith("CollapseWeight") else "ps" if part.startswith("CollapsePosition") else
                "limit" if part.startswith("EvaluationLimits") else "stop")
    return out


def masks_of(mt, termination, emb=None, mask_fillers=False):
    """the masks of the CollapseAt / CollapseAs members, read from the termination's reported state.
    Under an embedding: translated back to the specification's parameters, fillers dropped, pairs as (i, j), i < j
    (a mask pair counts in either orientation); with mask_fillers the real mask is never None"""
    out = {"at": {"none": True, "idx": [], "prs": []}, "as": {"none": True, "idx": [], "prs": []}}
    embedded = emb is not None and not emb.identity
    if embedded and mask_fillers:
        out = {"at": {"none": False, "idx": [], "prs": []}, "as": {"none": False, "idx": [], "prs": []}}
    out["wt"], out["ps"] = dict(NOMM), dict(NOMM)       # measure conditions (harness/c11_measure.py): [format, elements]
    for doc, kw in mt.state(termination).items():
        k = "at" if doc.startswith("CollapseAt") else "as" if doc.startswith("CollapseAs") else None
        if k is None:
            km = "wt" if doc.startswith("CollapseWeight") else "ps" if doc.startswith("CollapsePosition") else None
            if km is not None and kw.get("mask") is not None:
                from harness import c11_detect as D
                out[km] = {"fmt": D.fmt_of(kw["mask"]), "els": sorted(_jl(e) for e in D.mask_elems(kw["mask"]))}
            continue
        m = kw.get("mask")
        if m is None:
            continue
        idx = sorted(int(i) for i in m if not hasattr(i, "__len__"))
        prs = sorted([int(i[0]), int(i[1])] for i in m if hasattr(i, "__len__"))
        if embedded:
            idx = sorted(emb.back_idx(idx)[0])
            prs = sorted(list(q) for q in emb.back_pairs(prs)[0])
        out[k] = {"none": False, "idx": idx, "prs": prs}
    return out


def norm_mask(m):
    """a specification mask with its pairs as (i, j), i < j (what masks_of gives under an embedding)"""
    return {"none": m["none"], "idx": sorted(m["idx"]), "prs": sorted(sorted(q) for q in m.get("prs", []))}


class FillerCollapsed(Exception):
    pass


def reported_of(collapses, emb=None):
    """Collapse()'s return value {doc: collapse} as (indices, pairs) of the specification's parameters"""
    ra, rs = _reported_of(collapses)
    if emb is None or emb.identity:
        return ra, rs
    ra, fa = emb.back_idx(ra)
    rs, fs = emb.back_pairs(rs)
    if fa or fs:
        raise FillerCollapsed("filler parameters reported as collapsed: %s %s (embedded parameters at %s)" % (sorted(fa), sorted(fs), emb.pm))
    return ra, rs


def _reported_of(collapses):
    ra, rs = set(), set()
    for doc, v in (collapses or {}).items():
        if doc.startswith("CollapseAt"):
            ra |= set(int(i) for i in v)
        elif doc.startswith("CollapseAs"):
            rs |= set((int(i[0]), int(i[1])) for i in v)
        else:
            raise ValueError("unexpected collapse %r" % doc)
    return ra, rs


def solver_of(kind, n, npop=4):
    from mystic.solvers import DifferentialEvolutionSolver, DifferentialEvolutionSolver2, NelderMeadSimplexSolver, \
        PowellDirectionalSolver
    if kind == "DE":
        return DifferentialEvolutionSolver(n, npop)
    if kind == "DE2":
        return DifferentialEvolutionSolver2(n, npop)
    if kind == "NM":
        return NelderMeadSimplexSolver(n)
    return PowellDirectionalSolver(n)


KINDS = ("DE", "DE2", "NM", "PW")


# ------------------------------------------------------------------------------------------------------
# spec -> code: replay of one emitted stop
# ------------------------------------------------------------------------------------------------------
def load_stop(solver, h, l, stop, limit=False, emb=None):
    """make the solver look exactly like the recorded stop: step monitor = history, best = last point"""
    from mystic.monitors import Monitor
    pts = [[float(v) for v in p] for p in h]
    if l > len(pts):                      # one older point outside every window
        pts = [[v + 5.0 for v in pts[0]]] + pts
    if emb is not None and not emb.identity:
        pts = emb.history(pts)            # fillers keep moving by >= 50 per record
    mon = Monitor()
    for k, p in enumerate(pts):
        last = k == len(pts) - 1
        mon(list(p), (-1.0 if stop else 1.0) if last else 2.0)
    solver._stepmon = mon
    solver.SetEvaluationLimits(generations=(len(pts) - 1) if limit else 10 ** 6, evaluations=10 ** 6)
    import numpy
    solver.population[0] = numpy.array(pts[-1]) if not isinstance(solver.population[0], list) else list(pts[-1])
    return mon


def replay_stop(mt, case, kind, points, emb=None):
    """returns (nontrivial, violations[(key, detail, what)]).
    emb: the specification's parameters sit at the real positions emb.pm of an emb.dim-dimensional solver (fillers
    elsewhere, harness/c11_embed.py); everything is translated there and back, TLC's expectations stay as they are"""
    warnings.simplefilter("ignore")
    conf = case["conf"]
    n = len(case["h"][0])
    if emb is not None and emb.identity:
        emb = None
    s = solver_of(kind, n if emb is None else emb.dim)
    s.SetTermination(build_termination(mt, conf, emb=emb))
    viol = []

    def bad(key, what, **detail):
        d = {"solver": kind, "termination": conf, "script(stops at which Collapse() was applied)": case["script"],
             "stop": {"history": case["h"], "len": case["l"], "members": case["msg"]}}
        if emb is not None:
            d["embedding"] = repr(emb)
        d.update(detail)
        viol.append(("collapse-call:" + key, d, "%s solver%s, stops %s then history %s: %s" % (
            kind, "" if emb is None else " (parameters at %r)" % (emb,), [e["h"] for e in case["script"]], case["h"], what)))

    try:
        for e in case["script"]:
            load_stop(s, e["h"], e["l"], False, emb=emb)
            s.Collapse()
        load_stop(s, case["h"], case["l"], "stop" in case["msg"], "limit" in case["msg"], emb=emb)
        got_msg = members_of(s.Terminated(info=True))
        before = masks_of(mt, s._termination, emb)
        got = s.Collapse()
        ra, rs = reported_of(got, emb)
        after = masks_of(mt, s._termination, emb)
    except FillerCollapsed as ex:
        bad("filler-collapsed", str(ex))
        return False, viol
    except Exception as ex:
        bad("raises", "raised %r" % (ex,), error=repr(ex))
        return False, viol
    exp_ra, exp_rs = set(case["ra"]), set(tuple(q) for q in case["rs"])
    nontrivial = bool(exp_ra or exp_rs) or ("stop" in case["msg"] and len(case["msg"]) > 1) or "limit" in case["msg"]
    if got_msg != set(case["msg"]):
        bad("stop-members", "termination names %s, specification %s" % (sorted(got_msg), sorted(case["msg"])),
            got=sorted(got_msg))
        return nontrivial, viol
    if (ra, rs) != (exp_ra, exp_rs):
        what = "Collapse() reported %s / %s, specification Detect \\ mask = %s / %s" % (sorted(ra), sorted(rs), sorted(exp_ra), sorted(exp_rs))
        bad("reported" if (exp_ra or exp_rs) else "applied-although-a-stop-condition-holds", what,
            got={"at": sorted(ra), "as": sorted(rs)}, expected={"at": sorted(exp_ra), "as": sorted(exp_rs)})
        return nontrivial, viol
    exp_mk = case["mk"]
    for k in ("at", "as"):
        e, g = exp_mk[k], after[k]
        if emb is not None:
            e = norm_mask(e)
        same = (e["none"] == g["none"] and sorted(e["idx"]) == g["idx"]
                and sorted(map(list, e.get("prs", []))) == g["prs"])
        if not same:
            bad("mask-after-is-mask-before-plus-reported", "mask of Collapse%s after Collapse(): %s, specification %s (before: %s)" % (
                k.capitalize(), g, e, before[k]), got=after, expected=exp_mk, before=before)
            return nontrivial, viol
    if not (exp_ra or exp_rs):
        return nontrivial, viol
    # every point the solver could evaluate from now on: constraints(x) must break no collapsed relation
    table = dict((tuple(b["x"]), b["why"]) for b in case["bad"])
    domain = set(float(v) for p in points for v in p)
    seen = {}
    for x in points:
        try:
            if emb is None:
                y = s._constraints([float(v) for v in x])
                y = tuple(float(v) for v in y)
            else:
                xr = emb.point(x, fill=lambda f: 7.0 + f)
                yr = [float(v) for v in s._constraints(list(xr))]
                moved = [f for f in emb.fillers if yr[f] != xr[f]]
                if moved:
                    bad("filler-constrained", "the constraints changed filler parameters %s: %s -> %s" % (moved, xr, yr))
                    break
                y = tuple(emb.back_point(yr))
        except Exception as ex:
            bad("constraints-raise[target=%s]" % conf["atTgt"]["mode"], "Collapse() reported pins %s, ties %s; then constraints(%s) "
                "raised %r" % (sorted(exp_ra), sorted(exp_rs), list(x), ex), error=repr(ex))
            break
        # values outside the specification's domain are replaced by its stand-ins 100, 101, .. (equal values: same
        # stand-in), which preserves every equality the relations test
        ext, yi = {}, []
        for v in y:
            if v in domain:
                yi.append(int(v))
            else:
                yi.append(ext.setdefault(v, 100 + len(ext)))
        why = table.get(tuple(yi))
        if why:
            for w in why:
                seen.setdefault(w, (list(x), list(y)))
    for w, (x, y) in sorted(seen.items()):
        bad(w, "after Collapse() reported pins %s (values %s) and ties %s [all pins %s, all ties %s] the solver's constraints map "
               "%s to %s, which breaks %s" % (sorted(exp_ra), [v for v in case["vals"] if v != FREE], sorted(exp_rs),
                                               case["pinned"], case["tied"], x, y, w),
            x=x, constrained=y, pinned=case["pinned"], tied=case["tied"])
    return nontrivial, viol


# ------------------------------------------------------------------------------------------------------
# code -> spec: recording real runs
# ------------------------------------------------------------------------------------------------------
KWIN = 6          # recorded window (>= every look-back window used by the drivers)


class Interner(object):
    """exact float value -> small integer id (equality-preserving; -0.0 == 0.0)"""
    def __init__(self):
        self.ids = {}

    def __call__(self, v):
        v = float(v)
        if v != v:
            raise ValueError("nan parameter value")
        if v == 0.0:
            v = 0.0
        i = self.ids.get(v)
        if i is None:
            i = self.ids[v] = len(self.ids)
        return i

    def point(self, x):
        return [self(v) for v in x]


def objective(spec):
    """deterministic objective  sum_k w_k (x_k - a_k)^2 + sum_(i,j) (x_i - x_j)^2 ;  w_k = 0: flat direction k;
    a pair (i,j): the cost depends on x_i - x_j (tied direction)"""
    w, a, ties = spec["w"], spec["a"], spec["ties"]

    def f(x):
        s = 0.0
        for k in range(len(w)):
            if w[k]:
                d = x[k] - a[k]
                s += w[k] * d * d
        for (i, j) in ties:
            d = x[i] - x[j]
            s += d * d
        return s
    return f


def id_conf(conf, intern, n):
    """the termination as the specification sees it: targets as ids, one per parameter"""
    c = dict(conf)
    t = conf["atTgt"]
    if t["mode"] == "none":
        v = [0] * n
    elif t["mode"] == "scalar":
        v = [intern(t["v"][0])] * n
    else:
        v = [intern(x) for x in t["v"]]
    c["atTgt"] = {"mode": t["mode"], "v": v}
    for k in ("initAt", "initAs"):
        c[k] = {"none": conf[k]["none"], "idx": list(conf[k]["idx"]), "prs": [list(p) for p in conf[k].get("prs", [])]}
    c["exact"] = bool((not conf["atOn"] or conf["atTol"][0] == 0) and (not conf["asOn"] or conf["asTol"][0] == 0))
    # no measure conditions (those runs are recorded by harness/c11_measure.py)
    c.update({"npts": [0, 0], "wtOn": False, "psOn": False, "wtTol": [0, 1], "wtG": 1, "psTol": [0, 1], "psG": 1,
              "initWt": dict(NOMM), "initPs": dict(NOMM)})
    return c


def record_run(mt, spec):
    """run one real solver; returns the list of events"""
    import numpy
    warnings.simplefilter("ignore")
    kind, n, conf = spec["kind"], spec["n"], spec["conf"]
    intern = Interner()
    random.seed(spec["seed"])
    numpy.random.seed(spec["seed"])
    emb = None
    if spec.get("pm"):                      # the run happens in a larger dimension; the specification's parameters at pm
        from harness.c11_embed import Emb
        emb = Emb(spec["pm"], spec.get("dim"))
        if emb.identity:
            emb = None
    dim = n if emb is None else emb.dim
    back = (lambda x: x) if emb is None else emb.back_point
    s = solver_of(kind, dim, spec.get("npop", 6))
    if kind in ("DE", "DE2"):
        s.SetRandomInitialPoints([-2.0] * dim, [2.0] * dim)
    else:
        s.SetInitialPoints(list(spec["x0"]) if emb is None else emb.point(spec["x0"], fill=lambda f: 1.5))
    s.SetEvaluationLimits(generations=spec["gens"], evaluations=spec.get("evals"))
    stop = {"never": lambda: mt.VTR(0.0, -1.0), "vtr": lambda: mt.VTR(1e-12, 0.0),
            "cog": lambda: mt.ChangeOverGeneration(1e-9, 8)}[spec["stop"]]()
    cf = id_conf(conf, intern, n)
    if emb is not None:                      # fillers are named in the real initial masks (never None); pairs unoriented
        cf["initAt"], cf["initAs"] = norm_mask(dict(cf["initAt"], none=False)), norm_mask(dict(cf["initAs"], none=False))
    events = [{"ev": "New", "kind": kind, "n": n, "conf": cf}]
    if emb is not None:
        events[0]["embedding"] = repr(emb)
    s.SetTermination(build_termination(mt, conf, stop=stop, emb=emb, mask_fillers=True))
    f0 = objective(spec["obj"])
    if emb is None:
        f = f0
    else:                                    # the fillers matter only weakly
        def f(x):
            return f0(back(x)) + 1e-3 * sum((x[k] - 1.0) ** 2 for k in emb.fillers)
    state = {"collapsed": False, "calls": 0, "ncol": 0}
    maxcol = n + n * (n - 1) // 2 + 3

    def cost(x):
        state["calls"] += 1
        if state["collapsed"]:
            events.append({"ev": "CostCall", "x": intern.point(back(x)), "mass": []})
        return f(x)

    def log_stop(message):
        xs = list(s._stepmon.x)[-KWIN:]
        events.append({"ev": "Stop", "msg": sorted(members_of(message)), "h": [intern.point(back(p)) for p in xs],
                       "len": min(len(s.energy_history), KWIN + 1)})

    orig = s.Collapse

    def wrapped(disp=False):
        message = getattr(s, "__stop__", None)
        if message is None:
            message = s.Terminated(info=True)
        log_stop(message)
        before = masks_of(mt, s._termination, emb, True)
        r = orig(disp)
        after = masks_of(mt, s._termination, emb, True)
        if r:
            ra, rs = reported_of(r, emb)
            t = conf["atTgt"]
            vals = []
            for i in range(n):
                if i not in ra:
                    vals.append(FREE)
                elif t["mode"] == "none":
                    vals.append(UNSET)
                elif t["mode"] == "scalar":
                    vals.append(intern(t["v"][0]))
                else:
                    vals.append(intern(t["v"][i]))
            events.append({"ev": "Collapse", "ra": sorted(ra), "rs": sorted(list(q) for q in rs), "vals": vals, "rw": [], "rp": [],
                           "before": before, "after": after, "calls": state["calls"], "gens": s.generations})
            state["collapsed"] = True
            state["ncol"] += 1
            if state["ncol"] > maxcol:
                raise RuntimeError("more than %d collapses: the loop does not terminate" % maxcol)
        else:
            events.append({"ev": "NoCollapse", "before": before, "after": after})
        return r

    s.Collapse = wrapped
    try:
        if spec["mode"] == "solve":
            s.Solve(cost)
        else:
            s.SetObjective(cost)
            while True:
                message = None
                while not message:
                    message = s.Step()
                if not s.Collapse():
                    break
        if events[-1]["ev"] != "NoCollapse":
            log_stop(s.Terminated(info=True))
        events.append({"ev": "End", "best": intern.point(back(s.bestSolution)), "calls": state["calls"], "gens": s.generations,
                       "ncol": state["ncol"]})
    except Exception as ex:
        events.append({"ev": "Raise", "what": repr(ex)[:300], "calls": state["calls"], "ncol": state["ncol"]})
    return events


TRACE_CFG = """SPECIFICATION TraceSpec
CONSTANTS
  N = %d
  Vals = {0}
  K = %d
  Confs = {}
  Design = "closed"
  MaskRule = "extend"
  Record = FALSE
CONSTRAINT Accept
INVARIANT TrReportedDisjoint
INVARIANT TrMaskGrewByReported
INVARIANT TrMaskBounded
INVARIANT TrCollapseBound
PROPERTY TrMaskMonotone
POSTCONDITION AllAccepted
CHECK_DEADLOCK FALSE
"""


def validate(traces, n, timeout=1800):
    """TLC validates a batch of traces (all with n parameters) against Trace_Collapse.tla.
    returns (TLC result, verdicts): verdict = {"dev": [clause names]} or {"dev": None, "at": k, "event": e}
    (not a behaviour of the loop machine even with deviation steps: unexplainable event k)"""
    from harness.tlc import run_tlc, scratch_dir, TLCError
    d = scratch_dir()
    try:
        path = os.path.join(d, "traces.json")
        with open(path, "w") as f:
            json.dump(traces, f)
        cfgp = os.path.join(d, "Trace.cfg")
        with open(cfgp, "w") as f:
            f.write(TRACE_CFG % (n, KWIN))
        r = run_tlc("term/Trace_Collapse", cfg=cfgp, env={"TRACE_FILE": path}, workers=1, timeout=timeout, heap="4g")
    finally:
        shutil.rmtree(d, ignore_errors=True)
    if r.violated and r.kind in ("invariant", "action-property"):
        return r, None
    summ = [p for p in r.printed if isinstance(p, dict) and "done" in p]
    if not summ:
        raise TLCError("no acceptance summary from trace validation:\n" + r.out[-3000:])
    done = dict((x["tid"], x["dev"]) for x in summ[-1]["done"])
    verdicts = []
    for i, tr in enumerate(traces, 1):
        if i in done:
            verdicts.append({"dev": sorted(done[i])})
        else:
            k = max(summ[-1]["prefix"][i - 1], 2) - 1
            verdicts.append({"dev": None, "at": k, "event": tr[k] if k < len(tr) else None})
    return r, verdicts


def replay_stops_chunk(args):
    """process-pool entry: replay a list of (index, emitted stop); returns [(index, nontrivial, violations)]"""
    cases, vals = args
    import itertools
    import mystic.termination as mt
    out = []
    from harness.c11_embed import maps_for
    for i, c in cases:
        n = len(c["h"][0])
        pts = list(itertools.product(vals, repeat=n))
        nt, viol = replay_stop(mt, c, KINDS[i % 4], pts)
        out.append((i, nt, viol))
        embs = maps_for(n)[1:]                 # and once more at rotating real positions of a larger solver
        nt, viol = replay_stop(mt, c, KINDS[(i // 4) % 4], pts, emb=embs[(i // 2) % len(embs)])
        out.append((i, nt, viol))
    return out


def record_chunk(runs):
    import mystic.termination as mt
    return [record_run(mt, r) for r in runs]
