"""C05 -- see harness/lifecycle_check.py (shared pipeline) and specs/solver/{Lifecycle,Trace_Lifecycle,Gen_Lifecycle}.tla"""
from harness.core import tier_seed, main_guard
from harness.lifecycle_check import run


def main():
    a = tier_seed()
    if a.selftest:
        from harness.lifecycle_selftest import selftest
        return selftest("C05", a)
    return run("C05", a)


if __name__ == "__main__":
    main_guard(main)
