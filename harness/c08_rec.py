"""C08, Nelder-Mead / Powell half: problem catalogue and the recorders that turn runs of the REAL solvers into traces.

Everything here runs in worker processes (one problem per call, picklable dict in, plain dict out).

record_nm(spec)   NelderMeadSimplexSolver driven Step by Step / through Solve() / through fmin.  While the run lasts,
                  NelderMeadSimplexSolver._Step and .Step are wrapped (in this process) so that the simplex before and after
                  every _Step, the objective calls in between and the message of every Step are seen.  Per _Step one event for
                  specs/solver/Trace_NM.tla: the calls are labelled R/E/OC/IC/S_j/X0/I_k by recomputing the documented points
                  from the pre-state simplex with the published coefficients (bit-for-bit equality or no label).
record_pw(spec)   PowellDirectionalSolver likewise with mystic.scipy_optimize._linesearch_powell -- the given line search --
                  wrapped: events for specs/solver/Trace_Powell.tla.
xcheck_one(spec)  mystic fmin / fmin_powell against the vendored reference (and scipy.optimize.fmin).

The harness never decides a branch: it records what was called with which point, what came back, the ranks of the
energies, and the outcome of the GIVEN primitives (numpy.argsort on candidate arrangements, the float test t < 0 for every
candidate delta); the specifications decide which of them apply.
"""
import io, math, random, contextlib, warnings
import numpy as np

NAN_RANK = -1000000
REF_NONZDELT, REF_ZDELT = 0.05, 0.00025          # scipy.optimize.fmin's initial simplex


# ===================================================================================================== catalogue
def f_rosen(x):
    x = np.asarray(x, dtype=float)
    return float(np.sum(100.0 * (x[1:] - x[:-1] ** 2.0) ** 2.0 + (1 - x[:-1]) ** 2.0))


def f_sphere(x):
    return float(sum(float(v) * float(v) for v in x))


def f_quad1(x):
    return float(sum((float(v) - 0.7) ** 2 for v in x))


def f_abs(x):
    return float(sum(abs(float(v) - 0.3 * (i + 1)) for i, v in enumerate(x)))


def f_maxabs(x):
    return float(max(abs(float(v) - 0.25 * (i + 1)) * (i + 1) for i, v in enumerate(x)))


def f_ill(x):
    n = len(x)
    return float(sum((10.0 ** (6.0 * i / max(1, n - 1))) * (float(v) - 1.0) ** 2 for i, v in enumerate(x)))


def f_plateau(x):
    return float(sum(math.floor(abs(float(v)) * 4.0) for v in x))


def f_step(x):
    """staircase with a slope on every second step: ties between some vertices, strict order between others"""
    t = 0.0
    for i, v in enumerate(x):
        k = math.floor(abs(float(v) - 0.5) * 3.0)
        t += k + (0.25 * (abs(float(v) - 0.5) * 3.0 - k) if k % 2 else 0.0)
    return float(t)


def f_walls(x):
    if any(abs(float(v)) > 2.5 for v in x):
        return float("inf")
    return f_rosen(x)


def f_wallsq(x):
    if any(float(v) < -0.25 for v in x):
        return float("inf")
    return float(sum((float(v) - 0.1 * (i + 1)) ** 2 for i, v in enumerate(x)))


def f_w(x):
    """W-shaped, not convex: rejected contractions (shrinks)"""
    return float(sum((i + 1) * abs(abs(float(v) - 0.2) - 1.0) for i, v in enumerate(x)))


_SW, _SC, _SS = (3, 2, 1, 2, 1, 3), (0.5, 2.0, 1.0, 0.0, 1.5, 0.25), (1.0, 1.0, 2.0, 0.5, 1.0, 2.0)


def f_stairs(x):
    """integer-valued staircase with unequal weights: exact ties, and Powell's test quantity t can be exactly 0"""
    return float(sum(_SW[i % 6] * math.floor(abs(float(v) - _SC[i % 6]) * _SS[i % 6]) for i, v in enumerate(x)))


FUNCS = {"stairs": f_stairs, "rosen": f_rosen, "sphere": f_sphere, "quad1": f_quad1, "abs": f_abs, "maxabs": f_maxabs, "ill": f_ill,
         "plateau": f_plateau, "step": f_step, "walls": f_walls, "wallsq": f_wallsq, "w": f_w}
# name -> (dims quick, dims thorough, start box, class)
CATALOGUE = {
    "rosen":   ((2, 3, 4), (2, 3, 4, 6), 2.0, "smooth"),
    "sphere":  ((2, 3), (1, 2, 3, 5, 8), 3.0, "smooth"),
    "quad1":   ((1,), (1,), 3.0, "smooth"),
    "abs":     ((2, 3), (1, 2, 3, 4), 2.0, "non-smooth"),
    "maxabs":  ((2,), (2, 3), 2.0, "non-smooth"),
    "ill":     ((2, 3), (2, 3, 4), 2.0, "ill-conditioned"),
    "plateau": ((2, 4), (1, 2, 3, 4, 5), 3.0, "ties"),
    "step":    ((2, 4), (2, 3, 4, 5), 3.0, "ties"),
    "stairs":  ((2, 3), (2, 3, 4, 5), 4.0, "ties"),
    "walls":   ((2,), (2, 3), 2.0, "inf-walls"),
    "wallsq":  ((2,), (2, 3), 2.0, "inf-walls"),
    "w":       ((2, 3), (2, 3, 4), 3.0, "non-convex"),
}


def start_point(fn, n, seed):
    """random start by seed; no zero coordinate, inside the walls"""
    rng = random.Random("%s/%d/%d" % (fn, n, seed))
    box = CATALOGUE[fn][2]
    while True:
        x0 = [rng.uniform(-box, box) for _ in range(n)]
        if fn == "wallsq":
            x0 = [abs(v) + 0.05 for v in x0]
        if all(v != 0.0 for v in x0) and math.isfinite(FUNCS[fn](x0)):
            return x0


def problems(kind, tier, seed, light=False):
    """the list of run specifications of one tier (deterministic in tier and seed)"""
    thorough = tier == "thorough"
    rng = random.Random("c08/%s/%s/%d" % (kind, tier, seed))
    out = []
    nseeds = 2 if light else (40 if thorough else 6)
    for fn, (dq, dt, _box, _cls) in sorted(CATALOGUE.items()):
        for n in (dt if thorough and not light else dq):
            for k in range(nseeds):
                sd = seed * 1000 + k
                p = {"kind": kind, "fn": fn, "n": n, "seed": sd, "x0": start_point(fn, n, sd),
                     "mode": ("step", "solve", "fmin")[k % 3], "ftol": 1e-4, "xtol": 1e-4, "maxiter": None, "maxfun": None}
                v = rng.random()
                if kind == "nm":
                    p.update(radius=0.05, adaptive=False)
                    if p["mode"] != "fmin":                   # the variants the solver class offers
                        if v < 0.25 and n >= 2:
                            p["adaptive"] = True
                        elif v < 0.45:
                            p["radius"] = rng.choice([0.25, 0.1, 0.5])
                    w = rng.random()
                    if w < 0.2:
                        p["xtol"], p["ftol"] = rng.choice([(1e-2, 1e-2), (1e-8, 1e-8), (1e-3, 1e-6)])
                    elif w < 0.32:
                        p["maxiter"] = rng.choice([3, 7, 20])
                    elif w < 0.42:
                        p["maxfun"] = rng.choice([n + 4, 25, 60])
                else:
                    p.update(direc=None)
                    if n >= 7 or (fn == "ill" and n > 3):
                        continue
                    if p["mode"] != "fmin" and v < 0.25:
                        p["direc"] = rng.choice(["scaled", "rotated"])
                    elif 0.25 <= v < 0.45:
                        # a caller's direction set in other legal spellings: python ints, an integer array, tuples
                        # (fmin_powell takes direc= too)
                        p["direc"] = rng.choice(["inteye", "intmix", "intarray", "tuple"])
                    w = rng.random()
                    if w < 0.2:
                        p["xtol"], p["ftol"] = rng.choice([(1e-2, 1e-2), (1e-6, 1e-8), (1e-3, 1e-6)])
                    elif w < 0.3:
                        p["maxiter"] = rng.choice([1, 2, 4])
                    elif w < 0.4:
                        p["maxfun"] = rng.choice([30, 90, 200])
                out.append(p)
    return out


def zero_start_problems(kind):
    """start points with a zero coordinate (a class of its own: the reference's initial simplex uses zdelt there)"""
    out = []
    for fn, n, x0 in (("abs", 2, [0.0, 0.0]), ("sphere", 2, [0.0, 1.5]), ("ill", 4, [-2.5, 0.0, 2.54, 0.0]),
                      ("rosen", 3, [0.0, 0.0, 0.0]),
                      # ... and coordinates that are tiny but NOT zero (they take the relative step like any other)
                      ("sphere", 2, [1e-9, 1.5]), ("abs", 2, [-3e-10, 5e-324]), ("rosen", 3, [1.0, 2e-12, -1e-8]),
                      ("sphere", 2, [-0.0, 1e-300])):
        out.append({"kind": kind, "fn": fn, "n": n, "seed": -1, "x0": list(x0), "mode": "fmin", "ftol": 1e-4, "xtol": 1e-4,
                    "maxiter": None, "maxfun": None, "radius": 0.05, "adaptive": False, "direc": None, "zero": True})
    return out


def first_stop_problems(kind):
    """Powell starts at a minimizer: the very first direction loop already satisfies the reference's stop test"""
    out = []
    for fn, n, x0, mode in (("quad1", 1, [0.7], "fmin"), ("abs", 2, [0.3, 0.6], "step"), ("sphere", 3, [0.0, 0.0, 0.0], "solve")):
        out.append({"kind": kind, "fn": fn, "n": n, "seed": -2, "x0": list(x0), "mode": mode, "ftol": 1e-4, "xtol": 1e-4,
                    "maxiter": None, "maxfun": None, "radius": 0.05, "adaptive": False, "direc": None, "first": True})
    return out


def boundary_problems(kind):
    """inputs (found by search, always included) on which a boundary of the algorithm is hit: Nelder-Mead states whose tied
    energies the reference's sort (numpy.argsort, not stable) orders differently from a stable sort; Powell extrapolations
    with the test quantity t exactly 0"""
    cases = {"nm": (("step", 4, 1), ("step", 4, 2), ("step", 4, 3), ("plateau", 4, 0), ("step", 5, 0), ("stairs", 4, 98)),
             "pw": (("stairs", 2, 75), ("stairs", 2, 240), ("stairs", 3, 210), ("stairs", 3, 322))}[kind]
    out = []
    for i, (fn, n, sd) in enumerate(cases):
        p = {"kind": kind, "fn": fn, "n": n, "seed": sd, "x0": start_point(fn, n, sd), "mode": ("fmin", "step", "solve")[i % 3],
             "ftol": 1e-4, "xtol": 1e-4, "maxiter": None, "maxfun": None, "radius": 0.05, "adaptive": False, "direc": None, "boundary": True}
        out.append(p)
    return out


def pkey(p):
    return "%s %s n%d seed%d %s%s" % (p["kind"], p["fn"], p["n"], p["seed"], p["mode"], " boundary" if p.get("boundary") else "") + \
        "".join(" %s=%s" % (k, p[k]) for k in ("radius", "adaptive", "direc", "xtol", "ftol", "maxiter", "maxfun")
                if p.get(k) not in (None, False, 0.05, 1e-4))


# ===================================================================================================== interning
class Ids(object):
    """exact float tuples -> small integers (first seen = 1); -0.0 and 0.0 are the same number"""
    def __init__(self):
        self.d = {}

    def __call__(self, x):
        k = tuple(float(v) + 0.0 for v in np.asarray(x, dtype=float).ravel())
        i = self.d.get(k)
        if i is None:
            i = self.d[k] = len(self.d) + 1
        return i


class F(object):
    """a float waiting for its rank"""
    __slots__ = ("v", "space")

    def __init__(self, v, space="e"):
        self.v, self.space = float(v), space


def _walk(o, fn):
    if isinstance(o, F):
        return fn(o)
    if isinstance(o, dict):
        return {k: _walk(v, fn) for k, v in o.items()}
    if isinstance(o, (list, tuple)):
        return [_walk(v, fn) for v in o]
    if isinstance(o, (np.bool_,)):
        return bool(o)
    if isinstance(o, np.integer):
        return int(o)
    return o


def rank_floats(events):
    """replace every F by its dense order-preserving rank (ties preserved); energies: 0..; decreases: relative to 0.0,
    NaN (inf - inf) -> NAN_RANK.  Returns (events, has_nan_energy)"""
    vals = {"e": set(), "d": {0.0}}
    nan = [False]

    def collect(f):
        if f.v != f.v:
            if f.space == "e":
                nan[0] = True
        else:
            vals[f.space].add(f.v + 0.0)
        return f
    _walk(events, collect)
    es = sorted(vals["e"])
    ds = sorted(vals["d"])
    er = {v: i for i, v in enumerate(es)}
    z = ds.index(0.0)
    dr = {v: i - z for i, v in enumerate(ds)}

    def put(f):
        if f.v != f.v:
            return NAN_RANK
        return er[f.v + 0.0] if f.space == "e" else dr[f.v + 0.0]
    return _walk(events, put), nan[0]


def stop_class(msg):
    if not msg:
        return ""
    if "CandidateRelativeTolerance" in msg or "NormalizedChangeOverGeneration" in msg:
        return "crt"
    if "EvaluationLimits" in msg:
        return "limit"
    return "other:" + str(msg)[:40]


@contextlib.contextmanager
def quiet():
    with contextlib.redirect_stdout(io.StringIO()), warnings.catch_warnings(), np.errstate(all="ignore"):
        warnings.simplefilter("ignore")
        yield


# ===================================================================================================== Nelder-Mead
def nm_coef(adaptive, n):
    """the published coefficients: standard (Nelder & Mead / scipy.optimize.fmin) and dimension-adaptive (Gao & Han)"""
    if adaptive:
        d = float(n)
        return 1, 1 + 2 / d, 0.75 - 1 / (2 * d), 1 - 1 / d
    return 1, 2, 0.5, 0.5


def nm_documented(sim, coef):
    """label -> documented point of one iteration, from the pre-state simplex (expression shapes of the reference)"""
    rho, chi, psi, sigma = coef
    N = sim.shape[1]
    xbar = np.add.reduce(sim[:-1], 0) / N
    pts = [(("R", 0), (1 + rho) * xbar - rho * sim[-1]),
           (("E", 0), (1 + rho * chi) * xbar - rho * chi * sim[-1]),
           (("OC", 0), (1 + psi * rho) * xbar - psi * rho * sim[-1]),
           (("IC", 0), (1 - psi) * xbar + psi * sim[-1])]
    for j in range(1, N + 1):
        pts.append((("S", j), sim[0] + sigma * (sim[j] - sim[0])))
    return pts


def nm_initial(x0, radius):
    """label -> documented vertex k of the initial simplex: x0 with coordinate k scaled by 1 + radius (zdelt if zero)"""
    pts = []
    zd = REF_ZDELT if radius == REF_NONZDELT else None
    for k in range(len(x0)):
        y = np.array(x0, copy=True)
        if y[k] != 0:
            y[k] = (1 + radius) * y[k]
        elif zd is not None:
            y[k] = zd
        else:
            continue
        pts.append((("I", k + 1), y))
    return pts


def _labels(x, pts):
    return [{"l": nm, "j": j} for (nm, j), p in pts if p.shape == x.shape and np.array_equal(p, x)]


def _argsort1(fl, stat=None):
    """the given sort: numpy.argsort with its default kind, as scipy.optimize.fmin calls it; 1-based"""
    a = np.array(fl, dtype=float)
    p = np.argsort(a)
    if stat is not None and not np.array_equal(p, np.argsort(a, kind="stable")):
        stat[0] += 1
    return [int(i) + 1 for i in p]


def crt_documented(sim, f, xtol, ftol):
    with np.errstate(all="ignore"):
        return bool(np.max(np.abs(sim[1:] - sim[0])) <= xtol and np.max(np.abs(f[0] - f[1:])) <= ftol)


class NMRec(object):
    def __init__(self, spec):
        self.spec = spec
        self.n = spec["n"]
        self.coef = nm_coef(spec["adaptive"], self.n)
        self.log = []
        self.events = []
        self.ids = Ids()
        self.nstep = 0
        self.prev = None
        self.extra_returns = 0
        self.x0 = np.array(spec["x0"], dtype=float)
        self.labelseq = []
        self.unstable = [0]

    def cost(self, x):
        v = FUNCS[self.spec["fn"]](x)
        self.log.append((np.array(x, dtype=float).ravel().copy(), float(v)))
        return v

    @staticmethod
    def snap(s):
        return (np.array(s.population, dtype=float).copy(), np.array(s.popEnergy, dtype=float).copy(),
                int(s.generations), int(s.evaluations))

    def step(self, s, pre, k0):
        self.nstep += 1
        calls = self.log[k0:]
        sim0, f0 = pre[0], pre[1]
        post = self.snap(s)
        sim2, f2 = post[0], post[1]
        V = self.n + 1
        if self.nstep == 1:
            t, pts = "start", [(("X0", 0), self.x0)]
            sim2, f2 = sim2[:1], f2[:1]
            pre_ok = True
        elif self.nstep == 2:
            t, pts = "build", nm_initial(sim0[0], self.spec["radius"])
            pre_ok = bool(np.array_equal(sim0[0], self.prev[0][0]) and np.array_equal(f0[:1], self.prev[1][:1]))
        else:
            t, pts = "iter", nm_documented(sim0, self.coef)
            pre_ok = bool(np.array_equal(sim0, self.prev[0]) and np.array_equal(f0, self.prev[1]))
        cs = [{"labs": _labels(x, pts), "p": self.ids(x), "f": F(v)} for x, v in calls]
        sorts = [[], [], []]
        if t == "iter":
            for k in (0, 1):
                if len(calls) > k:
                    sorts[k] = _argsort1(list(f0[:-1]) + [calls[k][1]], self.unstable)
            if len(calls) == V + 1:
                sorts[2] = _argsort1([f0[0]] + [v for _x, v in calls[2:]], self.unstable)
            self.labelseq.append(",".join((c["labs"][0]["l"] if c["labs"] else "?") for c in cs[:2]) + (",S" if len(cs) > 2 else ""))
        elif t == "build" and len(calls) == self.n:
            sorts[2] = _argsort1([f0[0]] + [v for _x, v in calls], self.unstable)
        crt = False if t == "start" else crt_documented(sim2, f2, self.spec["xtol"], self.spec["ftol"])
        self.events.append({"t": t, "pre": pre_ok, "calls": cs, "sorts": sorts,
                            "s2": [self.ids(x) for x in sim2], "f2": [F(v) for v in f2],
                            "it": post[2], "ev": post[3], "crt": crt, "stop": "", "warn": -1})
        self.prev = (sim2, f2)

    def returned(self, msg):
        if self.events and self.events[-1].get("_open", True):
            self.events[-1]["stop"] = stop_class(msg)
            self.events[-1]["_open"] = False
        else:
            self.extra_returns += 1


@contextlib.contextmanager
def spy(cls, rec):
    """wrap cls._Step / cls.Step (harness process only) so that the recorder sees every step of every instance"""
    from mystic.abstract_solver import AbstractSolver
    orig = cls.__dict__["_Step"]

    def _Step(self, *a, **k):
        pre = rec.snap(self)
        k0 = len(rec.log)
        r = orig(self, *a, **k)
        rec.step(self, pre, k0)
        return r

    def Step(self, *a, **k):
        msg = AbstractSolver.Step(self, *a, **k)
        rec.returned(msg)
        return msg
    cls._Step, cls.Step = _Step, Step
    try:
        yield
    finally:
        cls._Step = orig
        del cls.Step


def limits(spec, per):
    n = spec["n"]
    return (spec["maxiter"] if spec["maxiter"] is not None else n * per,
            spec["maxfun"] if spec["maxfun"] is not None else n * per)


def record_nm(spec):
    """one run -> {"key", "trace" | "error", "stats"}"""
    import mystic.scipy_optimize as M
    from mystic.termination import CandidateRelativeTolerance as CRT
    rec = NMRec(spec)
    n = spec["n"]
    maxiter, maxfun = limits(spec, 200)
    out = {"key": pkey(spec), "spec": spec}
    try:
        with quiet(), spy(M.NelderMeadSimplexSolver, rec):
            if spec["mode"] == "fmin":
                res = M.fmin(rec.cost, list(spec["x0"]), xtol=spec["xtol"], ftol=spec["ftol"], maxiter=spec["maxiter"],
                             maxfun=spec["maxfun"], full_output=1, disp=0)
                ret = (res[0], res[1], res[2], res[3], int(res[4]))
            else:
                s = M.NelderMeadSimplexSolver(n)
                s.SetInitialPoints(list(spec["x0"]))
                s.SetEvaluationLimits(spec["maxiter"], spec["maxfun"])
                s.SetTermination(CRT(spec["xtol"], spec["ftol"]))
                s.SetObjective(rec.cost)
                kw = {}
                if spec["radius"] != 0.05:
                    kw["radius"] = spec["radius"]
                if spec["adaptive"]:
                    kw["adaptive"] = True
                if spec["mode"] == "solve":
                    s.Solve(disp=0, **kw)
                else:
                    guard = 0
                    while not s.Step(**kw):
                        guard += 1
                        if guard > 100000:
                            raise RuntimeError("Step never reported a stop")
                ret = (s.bestSolution, s.bestEnergy, s.generations, s.evaluations, -1)
    except Exception as ex:
        out["error"] = "%s: %s" % (type(ex).__name__, str(ex)[:200])
        return out
    rec.events.append({"t": "ret", "pre": True, "calls": [], "sorts": [[], [], []], "s2": [rec.ids(ret[0])], "f2": [F(ret[1])],
                       "it": int(ret[2]), "ev": int(ret[3]), "crt": False, "stop": "", "warn": ret[4]})
    for e in rec.events:
        e.pop("_open", None)
    events, nan = rank_floats(rec.events)
    out["trace"] = {"n": n, "maxiter": maxiter, "maxfun": maxfun, "ev": events}
    out["stats"] = {"iters": sum(1 for e in events if e["t"] == "iter"), "calls": len(rec.log), "nan": nan,
                    "ties": sum(1 for e in events if e["t"] in ("iter", "build") and len(set(e["f2"])) < len(e["f2"])),
                    "unstable_sort": rec.unstable[0],
                    "labelseq": _count(rec.labelseq), "extra_returns": rec.extra_returns,
                    "inf": sum(1 for _x, v in rec.log if v == float("inf")),
                    "end": events[-2]["stop"] if len(events) > 1 else "", "result": [list(map(float, np.ravel(ret[0]))), float(ret[1]), int(ret[2]), int(ret[3])]}
    return out


def _count(xs):
    d = {}
    for x in xs:
        d[x] = d.get(x, 0) + 1
    return d


# ===================================================================================================== Powell
def t_documented(fx, fx2, fval, delta):
    """the documented test quantity, same operation order as the reference"""
    with np.errstate(all="ignore"), warnings.catch_warnings():
        warnings.simplefilter("ignore")
        fx, fx2, fval, delta = np.float64(fx), np.float64(fx2), np.float64(fval), np.float64(delta)
        t = 2.0 * (fx + fx2 - 2.0 * fval)
        temp = (fx - fval - delta)
        t *= temp * temp
        temp = fx - fx2
        t -= delta * temp * temp
        return bool(t < 0.0)


def ncog_documented(fx, fval, ftol):
    with np.errstate(all="ignore"):
        return bool(2.0 * (np.float64(fx) - np.float64(fval)) <= ftol * (abs(np.float64(fx)) + abs(np.float64(fval))) + 1e-20)


def sub(a, b):
    with np.errstate(all="ignore"):
        return float(np.float64(a) - np.float64(b))


class PWRec(object):
    def __init__(self, spec):
        self.spec = spec
        self.n = spec["n"]
        self.log = []            # ("cost", x, f) outside line searches / ("ls", p, xi, fret, pout, xiout, k, tol)
        self.ncalls = 0
        self.inls = 0
        self.events = []
        self.pid, self.did = Ids(), Ids()
        self.nstep = 0
        self.x0 = np.array(spec["x0"], dtype=float)
        # the harness's own view of the run, fed only by what the objective and the line search returned
        self.cur_x, self.cur_f = None, None
        self.X1 = None
        self.loop_fx = None
        self.loop_decs = []
        self.extra_returns = 0
        self.nls = 0

    def cost(self, x):
        v = FUNCS[self.spec["fn"]](x)
        self.ncalls += 1
        if not self.inls:
            self.log.append(("cost", np.array(x, dtype=float).ravel().copy(), float(v)))
        return v

    def wrap_ls(self, orig):
        def _linesearch_powell(func, p, xi, tol=1e-3, maxiter=500):
            k0 = self.ncalls
            self.inls += 1
            try:
                out = orig(func, p, xi, tol=tol, maxiter=maxiter)
            finally:
                self.inls -= 1
            self.log.append(("ls", np.array(p, dtype=float).copy(), np.array(xi, dtype=float).copy(), float(out[0]),
                             np.array(out[1], dtype=float).copy(), np.array(out[2], dtype=float).copy(), self.ncalls - k0, tol))
            return out
        return _linesearch_powell

    def snap(self, s):
        x1, fx, bigind, delta = s._PowellDirectionalSolver__internals
        eh = [float(v) for v in s.energy_history]
        d = s._direc
        return {"x": np.array(s.population[0], dtype=float).ravel().copy(), "fval": float(s.popEnergy[0]),
                "direc": None if d is None else np.array(d, dtype=float).copy(),
                "x1": np.array(x1, dtype=float).ravel().copy(), "fx": float(fx), "bigind": int(bigind), "delta": float(delta),
                "it": int(s.generations), "ev": int(s.evaluations), "eh": eh}

    def post(self, sn):
        eh = sn["eh"]
        return {"x": self.pid(sn["x"]), "fval": F(sn["fval"]),
                "direc": [] if sn["direc"] is None else [self.did(d) for d in sn["direc"]],
                "x1": self.pid(sn["x1"]), "fx": F(sn["fx"]), "bigind": sn["bigind"], "delta": F(sn["delta"], "d"),
                "it": sn["it"], "ev": sn["ev"], "ehlen": len(eh), "ehlast": F(eh[-1]) if eh else -1,
                "ehprev": F(eh[-2]) if len(eh) > 1 else -1, "stop": False}

    def lsrec(self, e, doc_dir=None):
        _t, p, xi, fret, pout, xiout, k, tol = e
        r = {"din": self.did(xi), "pin": self.pid(p), "fb": F(self.cur_f), "fa": F(fret), "pout": self.pid(pout),
             "dout": self.did(xiout), "d": F(sub(self.cur_f, fret), "d"), "k": int(k),
             "tol": bool(tol == self.spec["xtol"] * 100),
             "ddoc": True if doc_dir is None else bool(np.array_equal(xi, doc_dir))}
        self.dec = sub(self.cur_f, fret)
        self.cur_f, self.cur_x = fret, pout
        self.nls += 1
        return r

    def step(self, s, pre, k0):
        self.nstep += 1
        part = self.log[k0:]
        sn = self.snap(s)
        costs = [e for e in part if e[0] == "cost"]
        lss = [e for e in part if e[0] == "ls"]
        nocall = {"p": -1, "doc": False, "f": -1}
        if self.nstep == 1:
            c = costs[0] if costs else None
            dirs = self.spec_dirs()
            self.events.append({"t": "start", "ncalls": len(costs),
                                "call": nocall if c is None else {"p": self.pid(c[1]), "doc": bool(np.array_equal(c[1], self.x0)), "f": F(c[2])},
                                "dirs": [self.did(d) for d in dirs], "post": self.post(sn)})
            if c is not None:
                self.cur_x, self.cur_f, self.X1 = c[1], c[2], c[1]
            return
        if self.nstep > 2:
            # ---- extrapolation part: one objective call, possibly one line search more than the N of the loop
            c = costs[0] if costs else None
            X, X1 = self.cur_x, self.X1
            ev = {"t": "extra", "ncalls": len(costs), "xa": self.pid(X), "x1a": self.pid(X1),
                  "call": nocall if c is None else {"p": self.pid(c[1]), "doc": bool(np.array_equal(c[1], 2 * X - X1)), "f": F(c[2])},
                  "fxa": F(self.loop_fx), "fva": F(self.cur_f), "els": [],
                  "tneg": [False] * (self.n + 1) if c is None else
                          [t_documented(self.loop_fx, c[2], self.cur_f, 0.0 if j == 0 else self.loop_decs[j - 1]) for j in range(self.n + 1)]}
            self.X1 = X
            if len(lss) == self.n + 1:
                ev["els"] = [self.lsrec(lss[0], doc_dir=X - X1)]
                lss = lss[1:]
            self.events.append(ev)
            costs = costs[1:]
        # ---- direction loop
        self.loop_fx = self.cur_f
        recs, decs = [], []
        for e in lss:
            recs.append(self.lsrec(e))
            decs.append(self.dec)
        self.loop_decs = decs + [0.0] * (self.n - len(decs))
        self.events.append({"t": "loop", "ls": recs, "stray": len(costs), "ncog": ncog_documented(self.loop_fx, self.cur_f, self.spec["ftol"]),
                            "nfx": F(self.loop_fx), "nfv": F(self.cur_f), "post": self.post(sn)})

    def spec_dirs(self):
        n = self.n
        d = self.spec.get("direc")
        if d is None:
            return np.eye(n, dtype=float)
        if d == "scaled":
            return np.diag([0.5 * (i + 1) for i in range(n)]).astype(float)
        if d == "inteye":
            return np.eye(n, dtype=float)
        if d in ("intmix", "intarray", "tuple"):
            m = np.eye(n, dtype=float)
            for i in range(n - 1):
                m[i, i + 1] = 1.0
                m[i + 1, i] = -1.0
            return m
        m = np.eye(n, dtype=float)
        for i in range(n - 1):
            m[i, i + 1] = 0.5
            m[i + 1, i] = -0.25
        return m

    def spec_dirs_arg(self):
        """the direction set as the caller writes it: the same vectors as spec_dirs() in the spelling named by the spec"""
        d, m = self.spec.get("direc"), self.spec_dirs()
        if d in ("inteye", "intmix"):
            return [[int(v) for v in row] for row in m]
        if d == "intarray":
            return m.astype(int)
        if d == "tuple":
            return tuple(tuple(float(v) for v in row) for row in m)
        return m

    def returned(self, msg):
        if self.events and self.events[-1].get("_open", True):
            self.events[-1]["post"]["stop"] = bool(msg)
            self.events[-1]["_open"] = False
            self.lastmsg = stop_class(msg)
        else:
            self.extra_returns += 1


def record_pw(spec):
    import mystic.scipy_optimize as M
    from mystic.termination import NormalizedChangeOverGeneration as NCOG
    rec = PWRec(spec)
    n = spec["n"]
    maxiter, maxfun = limits(spec, 1000)
    out = {"key": pkey(spec), "spec": spec}
    orig_ls = M._linesearch_powell
    M._linesearch_powell = rec.wrap_ls(orig_ls)
    try:
        with quiet(), spy(M.PowellDirectionalSolver, rec):
            direc = None if spec.get("direc") is None else rec.spec_dirs_arg()
            if spec["mode"] == "fmin":
                res = M.fmin_powell(rec.cost, list(spec["x0"]), xtol=spec["xtol"], ftol=spec["ftol"], maxiter=spec["maxiter"],
                                    maxfun=spec["maxfun"], full_output=1, disp=0, direc=direc)
                ret = (res[0], res[1], res[2], res[3], int(res[4]), res[5])
            else:
                s = M.PowellDirectionalSolver(n)
                s.SetInitialPoints(list(spec["x0"]))
                s.SetEvaluationLimits(spec["maxiter"], spec["maxfun"])
                s.SetTermination(NCOG(spec["ftol"], 2))
                s.SetObjective(rec.cost)
                kw = {"xtol": spec["xtol"]}
                if direc is not None:
                    kw["direc"] = direc
                if spec["mode"] == "solve":
                    s.Solve(disp=0, **kw)
                else:
                    guard = 0
                    while not s.Step(**kw):
                        guard += 1
                        kw.pop("direc", None)
                        if guard > 100000:
                            raise RuntimeError("Step never reported a stop")
                ret = (s.bestSolution, s.bestEnergy, s.generations, s.evaluations, -1, s._direc)
    except Exception as ex:
        out["error"] = "%s: %s" % (type(ex).__name__, str(ex)[:200])
        return out
    finally:
        M._linesearch_powell = orig_ls
    rec.events.append({"t": "ret", "x": rec.pid(ret[0]), "f": F(ret[1]), "it": int(ret[2]), "ev": int(ret[3]), "warn": ret[4],
                       "direc": [rec.did(d) for d in np.atleast_2d(np.array(ret[5], dtype=float))]})
    for e in rec.events:
        e.pop("_open", None)
    events, nan = rank_floats(rec.events)
    out["trace"] = {"n": n, "maxiter": maxiter, "maxfun": maxfun, "ev": events}
    out["stats"] = {"loops": sum(1 for e in events if e["t"] == "loop"), "extras": sum(1 for e in events if e["t"] == "extra"),
                    "els": sum(len(e["els"]) for e in events if e["t"] == "extra"), "ls": rec.nls, "calls": rec.ncalls, "nan": nan,
                    "extra_returns": rec.extra_returns, "end": getattr(rec, "lastmsg", ""),
                    "result": [list(map(float, np.ravel(ret[0]))), float(ret[1]), int(ret[2]), int(ret[3])]}
    return out


# ===================================================================================================== cross-check
def _res(r, it, fc):
    return [[float(v) for v in np.ravel(r[0])], float(r[1]), int(r[it]), int(r[fc])]


def xcheck_one(spec):
    """mystic fmin == vendored fmin == scipy.optimize.fmin, mystic fmin_powell == vendored fmin_powell:
    (xopt, fopt, iter, funcalls) exactly"""
    import mystic.scipy_optimize as M
    from mystic import _scipy060optimize as R
    f = FUNCS[spec["fn"]]
    x0 = list(spec["x0"])
    kw = dict(xtol=spec["xtol"], ftol=spec["ftol"], maxiter=spec["maxiter"], maxfun=spec["maxfun"], full_output=1, disp=0)
    out = {"key": pkey(spec), "spec": spec, "res": {}}
    with quiet():
        for name, fn, it, fc in ((("mystic", M.fmin, 2, 3), ("vendored", R.fmin, 2, 3), ("scipy", None, 2, 3))
                                 if spec["kind"] == "nm" else
                                 (("mystic", M.fmin_powell, 2, 3), ("vendored", R.fmin_powell, 3, 4))):
            try:
                if fn is None:
                    import scipy.optimize as so
                    fn = so.fmin
                out["res"][name] = _res(fn(f, list(x0), **kw), it, fc)
            except Exception as ex:
                out["res"][name] = "raised %s: %s" % (type(ex).__name__, str(ex)[:120])
    return out
