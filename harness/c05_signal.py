"""C05, clause "an exit has been requested": the REAL interrupt path (specs/solver/Signal.tla).

TLC enumerates every script of public calls (enable_signal_handler / disable_signal_handler / Solve / Step) x SIGINT
positions x answers typed at the handler's prompt, and emits each with the observations Signal.tla predicts after every
call.  `run_script` executes one script for real, in the main thread of a forked worker process:

  * builtins.input is a scripted function that returns the switches TLC chose (then "cont" for ever) and records calls;
  * SIGINT is raised with signal.raise_signal from inside the user's cost function (first cost call of the chosen
    iteration) or generation callback, i.e. while the solver is in the middle of / at the end of an iteration;
  * stdout is captured: what is printed between two prompts is the observable effect of one answer;
  * after every public call the real objects are compared with the prediction: SIGINT disposition after the call and as
    seen from inside the run, exit flag, generations, iterations performed, iterations begun after an 'exit' answer,
    return value, Terminated(info=True) class, prompts, effects of the answers, sigint_callback invocations (and that
    their argument is the best solution at that moment), user-handler invocations, KeyboardInterrupt.

Expected values come from TLC only.  `python -m harness.c05_signal [--tier T] [--selftest]` runs this part alone.
"""
import builtins, contextlib, io, json, os, shutil, signal, sys, time, types
from concurrent.futures import ThreadPoolExecutor

from harness.core import assert_repo
from harness.tlc import run_tlc

KINDS = ("DE", "DE2", "NM", "PW")
MODULE = "solver/MC_Signal"
GEN_CFGS = {"quick": ["MC_Signal_quickA.cfg", "MC_Signal_quickB.cfg", "MC_Signal_quickC.cfg"],
            "thorough": ["MC_Signal_thoroughA.cfg", "MC_Signal_thoroughB.cfg", "MC_Signal_thoroughC.cfg"]}
LIVE_CFG = {"quick": "MC_Signal_live.cfg", "thorough": "MC_Signal_live_thorough.cfg"}
WITNESS_CFG = "MC_Signal_wit_exit_ignored.cfg"       # a stop check that ignores the exit flag: NoIterAfterExit must fail

# observation fields -> class of what fails (the violation key is "<kind>:C05:sigint:<class>")
FIELD_CLASS = [("exc", "exception"), ("late", "iteration-begun-after-exit-request"), ("iters", "iterations"),
               ("begun", "iterations"), ("gens", "iterations"), ("exit", "exit-flag"), ("ret", "stop-message"),
               ("msg", "stop-message"), ("handler", "handler-after-call"), ("hin", "handler-during-run"),
               ("enabled", "enable-flag"), ("fx", "menu"), ("nprompt", "menu"), ("nsol", "menu"), ("nunk", "menu"),
               ("ncall", "sigint-callback"), ("cbsig", "sigint-callback"), ("cbarg", "sigint-callback"),
               ("nuser", "user-handler"), ("stray", "menu")]
AFTER_KI = ("exc", "handler", "enabled", "exit", "nprompt", "ncall", "nsol", "nunk", "nuser", "fx", "cbsig")


PREMISES = [
    "SIGINT is raised synchronously (signal.raise_signal) from the user's cost function / generation callback in the main "
    "thread; asynchronous delivery between two arbitrary bytecodes of mystic is not explored",
    "input() is replaced by a scripted function and stdout is captured: no terminal is involved",
    "the user termination never holds, no evaluation limit, every Solve has a finite generation limit (new=True)",
    "enable_signal_handler / disable_signal_handler are called between public calls only, at most one SIGINT per "
    "(iteration, place), the sigint_callback and the user's handler return normally"]


def _sphere(x):
    return float(sum((float(xi) - 0.25) ** 2 for xi in x))


def _tup(x):
    return tuple(float(v) for v in x)


def _make(kind, seed):
    import random
    import numpy as np
    import mystic.solvers as ms
    from harness.record import script_term
    random.seed(seed)
    np.random.seed(seed % (2 ** 32))
    if kind == "DE":
        s = ms.DifferentialEvolutionSolver(2, 4)
    elif kind == "DE2":
        s = ms.DifferentialEvolutionSolver2(2, 4)
    elif kind == "NM":
        s = ms.NelderMeadSimplexSolver(2)
    elif kind == "PW":
        s = ms.PowellDirectionalSolver(2)
    else:
        raise ValueError(kind)
    if kind in ("DE", "DE2"):
        s.SetRandomInitialPoints([-2.0, -2.0], [2.0, 2.0])
    else:
        s.SetInitialPoints([1.0, 1.5])
    s.SetTermination(script_term(()))          # premise: the user termination never holds
    return s


class _Run(object):
    """one script on one real solver"""

    def __init__(self, kind, item, seed):
        import mystic._signal as msig
        from harness.record import msgclass
        self.msig, self.msgclass = msig, msgclass
        self.kind, self.item = kind, item
        self.solver = _make(kind, seed)
        self.out = io.StringIO()
        self.nprompt = self.ncall = self.nsol = self.nunk = self.nuser = self.nsig = self.late = 0
        self.cbsig, self.cbarg_bad, self.stray = [], [], []
        self.exit_consumed = False             # an answer that TLC normalises to 'exit' was handed to the prompt
        self.cur = None                        # the SIGINT being handled
        self.plan = {}
        self.ncb_call = self.cur_iter = self.begun = 0
        self.hin, self.fx = set(), []
        self.solver.SetObjective(self.cost)

    # ---- SIGINT dispositions -------------------------------------------------------------
    def user_handler(self, signum, frame):
        self.nuser += 1

    def disposition(self):
        h = signal.getsignal(signal.SIGINT)
        if h is signal.default_int_handler:
            return "default"
        if h == self.user_handler:
            return "user"
        if isinstance(h, self.msig.Handler):
            return "mystic" if h.solver is self.solver else "mystic(other solver)"
        return "other:%r" % (h,)

    # ---- callables handed to mystic ------------------------------------------------------
    def cost(self, x):
        k = self.ncb_call + 1                  # ordinal (in this call) of the iteration in progress
        if self.cur_iter != k:                 # its first cost call
            self.cur_iter = k
            self.begun += 1
            self.hin.add(self.disposition())
            if self.exit_consumed:
                self.late += 1
            self.fire(k, "cost")
        return _sphere(x)

    def gen_callback(self, x):
        self.ncb_call += 1
        self.fire(self.ncb_call, "cb")

    def sigint_callback(self, x):
        self.ncall += 1
        cur = self.cur
        self.cbsig.append(cur["ord"] if cur else 0)
        if cur is None or _tup(x) != cur["best"] or _tup(x) != _tup(self.solver.bestSolution):
            self.cbarg_bad.append({"signal": cur["ord"] if cur else 0, "argument": _tup(x),
                                   "best_at_signal": cur["best"] if cur else None})

    # ---- the scripted user ---------------------------------------------------------------
    def fire(self, k, where):
        sig = self.plan.pop((k, where), None)
        if sig is None:
            return
        self.nsig += 1
        best = self.solver.bestSolution
        self.cur = {"ord": self.nsig, "menu": list(sig["menu"]), "pos": 0, "best": _tup(best), "best_str": str(best),
                    "open": None}
        try:
            signal.raise_signal(signal.SIGINT)          # the Python-level handler runs here, in this thread
        finally:
            self.close_prompt(returned=True)
            self.cur = None

    def close_prompt(self, returned):
        """classify what the answer to the open prompt did (from the outside: output, callback, flag, return)"""
        cur = self.cur
        op = cur and cur["open"]
        if not op:
            return
        cur["open"] = None
        text = self.out.getvalue()[op["mark"]:]
        tokens = []
        if text == cur["best_str"] + "\n":
            tokens.append("print")
            self.nsol += 1
        elif text == "unknown option : %s\n" % op["typed"]:
            tokens.append("unknown")
            self.nunk += 1
        elif text:
            tokens.append("output(%r)" % text[:60])
        n = self.ncall - op["ncall"]
        if n:
            tokens.append("call" if n == 1 else "call*%d" % n)
        if returned:
            tokens.append("return")
        name = "+".join(tokens) or "noop"
        if bool(self.solver._EARLYEXIT) and not op["flag"]:
            name += "+exit"
        self.fx.append(name)

    def input(self, prompt=""):
        self.nprompt += 1
        cur = self.cur
        if cur is None:
            self.stray.append("input() called outside a SIGINT")
            return "cont"
        self.close_prompt(returned=False)
        if cur["pos"] < len(cur["menu"]):
            sw = cur["menu"][cur["pos"]]
            cur["pos"] += 1
            typed = sw["text"]
            if sw["norm"] == "exit":
                self.exit_consumed = True
        else:
            typed = "cont"                     # the finite menu script is used up
        if "sigint_callback" not in prompt:
            self.stray.append("prompt text does not show the menu")
        cur["open"] = {"typed": typed, "mark": len(self.out.getvalue()), "ncall": self.ncall,
                       "flag": bool(self.solver._EARLYEXIT)}
        return typed

    # ---- the script ----------------------------------------------------------------------
    def observe(self, op, ret, exc):
        s = self.solver
        got = {"exc": exc, "handler": self.disposition(), "enabled": bool(s._handle_sigint), "exit": bool(s._EARLYEXIT),
               "nprompt": self.nprompt, "ncall": self.ncall, "nsol": self.nsol, "nunk": self.nunk, "nuser": self.nuser,
               "fx": list(self.fx), "cbsig": list(self.cbsig), "late": self.late,
               "cbarg": list(self.cbarg_bad), "stray": list(self.stray)}
        if exc == "None":
            got["gens"] = int(s.generations)
            got["iters"] = self.ncb_call
            got["begun"] = self.begun
            got["ret"] = "None" if ret is None else self.msgclass(ret) if isinstance(ret, str) else repr(ret)
            got["msg"] = self.msgclass(s.Terminated(info=True))
            got["hin"] = "-" if not self.hin else "|".join(sorted(self.hin))
        return got

    def run(self):
        """-> None if every observation equals the prediction, else dict(call, diffs, ...)"""
        item = self.item
        saved_input, saved_sig = builtins.input, signal.getsignal(signal.SIGINT)
        signal.signal(signal.SIGINT, signal.default_int_handler if item["init"] == "default" else self.user_handler)
        builtins.input = self.input
        try:
            with contextlib.redirect_stdout(self.out):
                for i, call in enumerate(item["calls"]):
                    bad = self.one_call(i, call, item["obs"][i])
                    if bad:
                        return bad
        finally:
            builtins.input = saved_input
            signal.signal(signal.SIGINT, saved_sig if saved_sig is not None else signal.default_int_handler)
        return None

    def one_call(self, i, call, exp):
        s = self.solver
        self.plan = {(g["k"], g["where"]): g for g in call["sigs"]}
        self.ncb_call = self.cur_iter = self.begun = 0
        self.hin, self.fx = set(), []
        if call["op"] == "solve":
            self.exit_consumed = False         # Signal.tla: SolveBegin clears the request
        ret, exc = None, "None"
        try:
            if call["op"] == "enable":
                s.enable_signal_handler()
            elif call["op"] == "disable":
                s.disable_signal_handler()
            elif call["op"] == "solve":
                s.SetEvaluationLimits(generations=call["g"], new=True)
                kw = {"callback": self.gen_callback}
                if call["cb"]:
                    kw["sigint_callback"] = self.sigint_callback
                ret = s.Solve(**kw)
            elif call["op"] == "step":
                ret = s.Step(callback=self.gen_callback)
            else:
                raise ValueError(call)
        except KeyboardInterrupt:
            exc = "KeyboardInterrupt"
        except Exception as ex:          # mystic raised: reported as an observation, not as a machinery failure
            exc = "raise:%s:%s" % (type(ex).__name__, str(ex)[:80])
        got = self.observe(call["op"], ret, exc)
        diffs = compare(exp, got)
        if self.plan and exc == "None" and not diffs:
            # a SIGINT position chosen by TLC was never reached although every observation agrees: the harness's
            # notion of "iteration" does not fit this solver (machinery, not mystic)
            raise RuntimeError("%s: SIGINT position(s) %s of call %d never reached" % (self.kind, sorted(self.plan), i))
        if diffs:
            return {"call": i, "op": call, "diffs": diffs, "expected": exp, "observed": got}
        return None


def compare(exp, got):
    """[(field, expected by Signal.tla, observed)]"""
    diffs = []
    if exp["exc"] != got["exc"]:
        return [("exc", exp["exc"], got["exc"])]
    fields = AFTER_KI if exp["exc"] != "None" else [f for f, _ in FIELD_CLASS if f in exp]
    for f in fields:
        if got.get(f) != exp[f]:
            diffs.append((f, exp[f], got.get(f)))
    if exp["exc"] == "None" and got.get("begun") != exp["iters"]:
        diffs.append(("begun", exp["iters"], got.get("begun")))
    if got["cbarg"]:
        diffs.append(("cbarg", "the best solution at the moment of the SIGINT", got["cbarg"][:2]))
    if got["stray"]:
        diffs.append(("stray", [], got["stray"][:2]))
    order = [f for f, _ in FIELD_CLASS]
    diffs.sort(key=lambda d: order.index(d[0]))
    return diffs


def classify(diffs):
    return dict(FIELD_CLASS)[diffs[0][0]]


def run_script(job):
    kind, item, seed = job
    return _Run(kind, item, seed).run()


def run_jobs(jobs, njobs):
    """replay in forked worker processes: the parent harness never receives a SIGINT"""
    import multiprocessing as mp
    n = max(1, min(8 if len(jobs) < 100000 else 16, njobs))
    with mp.get_context("fork").Pool(n) as pool:
        return pool.map(run_script, jobs, chunksize=max(1, min(256, len(jobs) // (4 * n) + 1)))


# ------------------------------------------------------------------------------------------------
def script_key(item):
    return json.dumps([item["init"], item["calls"]], sort_keys=True)


def generate(ck, tier, jobs, corrupt=None):
    """model-check Signal.tla on every configuration of the tier (design properties and emission in one run each),
    the liveness configuration and the witness; returns the distinct emitted scripts"""
    cfgs = GEN_CFGS[tier]

    def one(cfg):
        return cfg, run_tlc(MODULE, cfg=cfg, workers=1, timeout=3000, heap="4g")

    def live(_):
        return LIVE_CFG[tier], run_tlc(MODULE, cfg=LIVE_CFG[tier], workers=min(4, max(1, jobs // 4)), timeout=3000)

    def wit(_):
        return WITNESS_CFG, run_tlc(MODULE, cfg=WITNESS_CFG, workers=1, timeout=3000)

    tasks = [(one, c) for c in cfgs]
    if ck is not None:
        tasks += [(live, None), (wit, None)]
    with ThreadPoolExecutor(max_workers=max(1, min(len(tasks), jobs // 2 or 1))) as ex:
        results = list(ex.map(lambda t: t[0](t[1]), tasks))
    seen, scripts = set(), []
    for cfg, r in results:
        if ck is not None:
            ck.mc(r, "MC_Signal(%s)" % cfg[len("MC_Signal_"):-4])
        if cfg == WITNESS_CFG:
            if ck is not None:
                ck.extra.setdefault("sigint", {})["exit_ignoring_design_rejected_by"] = r.violated
                if r.violated != "NoIterAfterExit":
                    ck.violation("spec:vacuous:NoIterAfterExit", {"tlc": r.out[-2000:]},
                                 "a stop check that ignores the exit flag passes NoIterAfterExit in Signal.tla: vacuous")
            continue
        if r.violated:
            if ck is None:
                raise RuntimeError("Signal.tla: %s violated (%s)" % (r.violated, cfg))
            else:
                ck.violation("spec:Signal:" + r.violated, {"cfg": cfg, "tlc": r.out[-3000:]},
                                 "design property %s violated in Signal.tla (%s)" % (r.violated, cfg))
            continue
        for item in r.printed:
            k = script_key(item)
            if k not in seen:
                seen.add(k)
                scripts.append(item)
    return scripts


def stats(scripts):
    st = {"scripts": len(scripts), "with_sigint": 0, "keyboard_interrupt": 0, "user_handler": 0, "exit_consumed": 0,
          "exit_while_limit_also_true": 0, "second_solve_after_exit": 0, "step_after_exit": 0, "answers": {}}
    for it in scripts:
        sigs = [g for c in it["calls"] for g in c["sigs"]]
        st["with_sigint"] += bool(sigs)
        st["keyboard_interrupt"] += it["obs"][-1]["exc"] != "None"
        st["user_handler"] += it["obs"][-1]["nuser"] > 0
        ex = [i for i, c in enumerate(it["calls"]) for g in c["sigs"] for m in g["menu"] if m["norm"] == "exit"]
        st["exit_consumed"] += bool(ex)
        if ex:
            st["exit_while_limit_also_true"] += any(it["obs"][i]["msg"] == "Limits" for i in set(ex) if i < len(it["obs"]))
            st["second_solve_after_exit"] += any(c["op"] == "solve" for c in it["calls"][ex[0] + 1:])
            st["step_after_exit"] += any(c["op"] == "step" for c in it["calls"][ex[0] + 1:])
        for o in it["obs"]:
            for f in o["fx"]:
                st["answers"][f] = st["answers"].get(f, 0) + 1
    return st


def run_part(ck, a, corrupt=None, kinds=KINDS, scripts=None):
    """the SIGINT part of C05: model checking + replay of every emitted script on every solver kind"""
    assert_repo()
    t0 = time.time()
    if scripts is None:
        scripts = generate(ck, a.tier, a.jobs)
    if corrupt is not None:
        scripts = corrupt(scripts)
    jobs = [(kind, item, a.seed) for item in scripts for kind in kinds]
    results = run_jobs(jobs, a.jobs)
    nbad = 0
    for (kind, item, _), bad in zip(jobs, results):
        nontrivial = any(c["sigs"] for c in item["calls"])
        ck.case(nontrivial=nontrivial, key=("sigint", kind, script_key(item)))
        ck.trace()
        if bad:
            nbad += 1
            key = "%s:C05:sigint:%s" % (kind, classify(bad["diffs"]))
            d = bad["diffs"][0]
            ck.violation(key, {"kind": kind, "init_handler": item["init"], "calls": item["calls"], "failing_call": bad["call"],
                               "differences(field,spec,mystic)": bad["diffs"], "expected": bad["expected"],
                               "observed": bad["observed"]},
                         "%s, SIGINT script %s (initial disposition %s): after call #%d %s Signal.tla predicts %s=%r, mystic shows %r" % (
                             kind, [[c["op"], c["g"], c["cb"], [[g["k"], g["where"], [m["text"] for m in g["menu"]]] for g in c["sigs"]]]
                                    for c in item["calls"]], item["init"], bad["call"], item["calls"][bad["call"]]["op"],
                             d[0], d[1], d[2]))
    ex = ck.extra.setdefault("sigint", {})
    ex.update(stats(scripts))
    ex.update({"solver_kinds": list(kinds), "replays": len(jobs), "replays_differing": nbad,
               "wall_s": round(time.time() - t0, 1), "premises": PREMISES})
    pick = [it for it in scripts if any(m["norm"] == "exit" for c in it["calls"] for g in c["sigs"] for m in g["menu"])]
    if pick:
        it = pick[len(pick) // 2]
        ck.sample({"sigint_script": it["calls"], "initial_disposition": it["init"], "Signal.tla_predicts": it["obs"]}, limit=8)
    return nbad


# ------------------------------------------------------------------------------------------------
def mutants():
    import mystic.abstract_solver as A
    import mystic._signal as G
    from harness.srcpatch import patch
    AS, H = A.AbstractSolver, G.Handler
    return [
        ("'exit' at the prompt returns without setting the exit flag",
         lambda: patch(H, "__call__", "self.solver._EARLYEXIT = True\n", "pass\n")),
        ("Solve does not restore the default SIGINT handler",
         lambda: patch(AS, "Solve", "signal.signal(signal.SIGINT, signal.default_int_handler)", "pass")),
        ("Solve restores the default handler even when the solver's handler is disabled",
         lambda: patch(AS, "Solve", "        if self._handle_sigint:\n            signal.signal(signal.SIGINT, signal.default_int_handler)",
                       "        if True:\n            signal.signal(signal.SIGINT, signal.default_int_handler)")),
        ("Solve does not clear a previous exit request",
         lambda: patch(AS, "Solve", "self._EARLYEXIT = False  #XXX", "pass  #XXX")),
        ("Solve installs the handler whether enabled or not",
         lambda: patch(AS, "Solve", "        if self._handle_sigint:\n            signal.signal(signal.SIGINT, signal.Handler(self))",
                       "        if True:\n            signal.signal(signal.SIGINT, signal.Handler(self))")),
        ("the prompt compares the answer case-sensitively",
         lambda: patch(H, "__call__", "elif s.lower() == 'exit':", "elif s == 'exit':")),
        ("'sol' prints and then leaves the menu",
         lambda: patch(H, "__call__", "print(self.solver.bestSolution)\n", "print(self.solver.bestSolution); return\n")),
        ("sigint_callback is sticky across Solve calls",
         lambda: patch(AS, "Solve", "else: self.sigint_callback = None", "else: pass")),
        ("'call' hands the callback the last member of the population instead of the best solution",
         lambda: patch(H, "__call__", "self.sigint_callback(self.solver.bestSolution)", "self.sigint_callback(self.solver.population[-1])")),
        ("Solve performs one more iteration after the exit request stopped its loop",
         lambda: patch(AS, "_Solve", "        while not stop: \n            stop = self.Step(**settings) #XXX: remove need to pass settings?\n            continue\n",
                       "        while not stop: \n            stop = self.Step(**settings)\n            continue\n        if self._EARLYEXIT: self._Step(**settings)\n")),
        ("Step installs the signal handler too",
         lambda: patch(AS, "Step", "        if 'disp' in kwds:\n", "        import mystic._signal as _sg\n        if self._handle_sigint: _sg.signal(_sg.SIGINT, _sg.Handler(self))\n        if 'disp' in kwds:\n")),
        ("the stop message prefers the user termination text to the exit request",
         lambda: patch(AS, "Terminated", "        elif self._EARLYEXIT:\n            msg = sig\n", "        elif self._EARLYEXIT and not msg:\n            msg = 'Interrupted with {}'\n")),
    ]


def _corrupt_expected(scripts):
    """one TLC-emitted expected value is falsified: the handler TLC predicts after an enabled Solve"""
    out, done = [], False
    for it in scripts:
        if not done:
            for i, c in enumerate(it["calls"]):
                if c["op"] == "solve" and it["obs"][i]["hin"] == "mystic" and it["obs"][i]["exc"] == "None":
                    it = json.loads(json.dumps(it))
                    it["obs"][i]["handler"] = "mystic"
                    done = True
                    break
        out.append(it)
    if not done:
        raise RuntimeError("no enabled Solve among the emitted scripts")
    return out


def selftest(a):
    """every mutant of the interrupt path must make the replay differ; so must a falsified prediction"""
    from harness.core import Check
    assert_repo()
    a2 = types.SimpleNamespace(tier="quick", seed=a.seed, jobs=a.jobs)
    scripts = generate(None, "quick", a.jobs)

    def attempt(corrupt=None, kinds=KINDS):
        ck = Check("C05", "model_checking", "quick", a.seed)
        ck.dry = True
        ck.outdir = os.path.join("/dev/shm", "verif_c05_signal_selftest_%d" % os.getpid())   # replay files of mutants
        buf = io.StringIO()
        try:
            with contextlib.redirect_stdout(buf):
                run_part(ck, a2, corrupt=corrupt, scripts=scripts, kinds=kinds)
        finally:
            shutil.rmtree(ck.outdir, ignore_errors=True)
        return ck

    missed = 0
    ck = attempt()
    ok = ck.violations == 0
    print("SELFTEST sigint: unchanged mystic agrees with Signal.tla on %d replays: %s" % (ck.evaluations, "yes" if ok else "NO"))
    missed += 0 if ok else 1
    for name, mk in mutants():
        undo = mk()
        try:
            ck = attempt(kinds=("DE", "PW") if "Solve" in name or "Step" in name else ("DE2", "NM"))
        finally:
            undo()
        caught = ck.violations > 0
        print("SELFTEST sigint: %s: %s   %s" % (name, "caught" if caught else "MISSED",
                                                "; ".join(sorted(set(k.split(":", 1)[1] for k in ck.viol_keys)))[:200]))
        missed += 0 if caught else 1
    ck = attempt(corrupt=_corrupt_expected)
    caught = ck.violations > 0
    print("SELFTEST sigint: corrupted TLC prediction (handler after an enabled Solve): %s   %s" % (
        "caught" if caught else "MISSED", "; ".join(sorted(ck.viol_keys))[:200]))
    missed += 0 if caught else 1
    return 1 if missed else 0


def main():
    from harness.core import Check, tier_seed
    a = tier_seed()
    if a.selftest:
        return selftest(a)
    ck = Check("C05", "model_checking", a.tier, a.seed, rule="the SIGINT part of C05 alone (see harness/c05_signal.py)")
    ck.dry = True                                # the evidence file belongs to the registered command
    run_part(ck, a)
    print(json.dumps(ck.extra.get("sigint"), indent=1))
    return ck.finish()


if __name__ == "__main__":
    from harness.core import main_guard
    main_guard(main)
