"""Module-level (hence picklable by reference) user callables for the C06 check.

Every objective bumps the process-wide CALLS counter: the harness runs one solver action at a time, so the
increase of CALLS during an action is the number of REAL objective calls made by the acting instance, however
mystic wrapped, copied or unpickled the function.  Nothing here depends on mystic's own counters.
"""
CALLS = [0]


def rosen(x):
    """Rosenbrock with a mild coupling term; strictly positive, so VTR(target < 0) never holds"""
    CALLS[0] += 1
    x = [float(v) for v in x]
    s = 1.0 + 0.01 * x[0] * x[0]
    for i in range(len(x) - 1):
        s += 100.0 * (x[i + 1] - x[i] * x[i]) ** 2 + (1.0 - x[i]) ** 2
    return s


def bumpy(x):
    """a non-smooth objective (absolute values + products): many ties and direction changes"""
    CALLS[0] += 1
    x = [float(v) for v in x]
    s = 0.5
    for i, v in enumerate(x):
        s += abs(v - 0.3 * (i + 1)) + 0.25 * (v - 0.5) ** 2
    return s + 0.1 * abs(x[0] * x[-1])


def wall(x):
    """Rosenbrock valley behind a wall: +inf on the half-space x0 + x1 < 0 (members that start there keep the
    solver's initial 'inf' energy until a trial lands on the feasible side)"""
    if float(x[0]) + float(x[1]) < 0.0:
        CALLS[0] += 1
        return float("inf")
    return rosen(x)


def cons_fold(x):
    """pure python constraint: first coordinate non-negative, last one not above 1.5 (idempotent)"""
    x = [float(v) for v in x]
    x[0] = abs(x[0])
    if x[-1] > 1.5:
        x[-1] = 1.5
    return x


def pen_cond(x):
    """inequality condition of the penalty: x0 + x1 <= 1"""
    return float(x[0]) + float(x[1]) - 1.0


def zero(x):
    return 0.0


# ------------------------------------------------------------------------------------------------ ensembles
PER = []      # (work item index, real objective calls made while that work item ran) -- filled by cmap


def cmap(f, *args, **kwds):
    """the in-process serial map handed to the ensembles (SetMapper): members run one after the other, in member order,
    exactly as with python's map; additionally the REAL objective calls of every work item (= member) are noted"""
    out = []
    for j, a in enumerate(zip(*args)):
        c0 = CALLS[0]
        out.append(f(*a))
        PER.append((j, CALLS[0] - c0))
    return out


class StopMember(object):
    """user termination condition of the ensemble checks: holds for the member solvers whose id is in `ids` once they
    have completed generation `at` (ids=() never holds).  A deterministic function of the solver's own state."""

    def __init__(self, ids=(), at=0):
        self.ids, self.at = tuple(ids), int(at)
        self.__doc__ = "StopMember with %s" % {"ids": self.ids, "at": self.at}

    def __call__(self, solver, info=False):
        hit = getattr(solver, "id", None) in self.ids and solver.generations >= self.at
        if info:
            return self.__doc__ if hit else ""
        return hit
