"""C16, interval algebra and pair helpers of mystic.tools: replay of specs/cons/Intervals.tla and specs/cons/PairTools.tla.

Intervals.  TLC emits every complete script of the interval calculator (start list, then operations invert / intersection /
union with their operand, and after each operation the membership the specification expects at every test point of the
window: 1 in, 0 out, 2 left open).  The script is replayed on mystic.tools._interval_invert / _interval_intersection /
_interval_union -- each operation applied to the REAL result of the previous one -- and the binary operations also through
interval_overlap({0: ..}, {0: ..}, union) (with further keys that must pass through an intersection).  The real result is
read as the set U [lo, hi] and probed at the same test points.

PairTools.  TLC emits per state what _inverted, _symmetric, unpair, pairwise(.., True), indicator_overlap and select_params
have to return; compared with ==.

Nothing here computes an expected value.
"""
import copy

INF_F = float("inf")


def to_num(t, hdr, as_float):
    if t == hdr["inf"]:
        return INF_F
    if t == -hdr["inf"]:
        return -INF_F
    return t / 2 if as_float else t // 2


def to_list(B, hdr, as_float):
    return [(to_num(a, hdr, as_float), to_num(b, hdr, as_float)) for a, b in B]


def wellformed(R):
    try:
        return isinstance(R, list) and all(len(r) == 2 for r in R) and all(float(r[0]) == float(r[0]) and float(r[1]) == float(r[1]) for r in R)
    except Exception:
        return False


def membership(R, hdr):
    pts = [t / 2 for t in range(hdr["wlo"], hdr["whi"] + 1)]
    return [1 if any(float(lo) <= v <= float(hi) for lo, hi in R) else 0 for v in pts]


def differences(got, exp):
    missing = [j for j, (g, e) in enumerate(zip(got, exp)) if e == 1 and g == 0]
    extra = [j for j, (g, e) in enumerate(zip(got, exp)) if e == 0 and g == 1]
    return missing, extra


def show(R):
    return [(float(a), float(b)) for a, b in R] if wellformed(R) else repr(R)


def replay_intervals(hdr, lines, mt, corrupt=False):
    res = {"evaluations": 0, "nontrivial": 0, "viol": {}, "nviol": {}, "samples": [], "classes": {}, "traces": 0,
           "per_kind": {}, "open_points": 0, "lines": len(lines)}
    fns = {"invert": "_interval_invert", "intersection": "_interval_intersection", "union": "_interval_union"}

    def add_violation(key, detail, what):
        res["nviol"][key] = res["nviol"].get(key, 0) + 1
        if len(res["viol"].setdefault(key, [])) < 2:
            res["viol"][key].append((detail, what))

    def cls(name):
        res["classes"][name] = res["classes"].get(name, 0) + 1

    # self-test: one expected membership of an intersection (a function that agrees on the unchanged tree) is flipped
    corrupt_at = min([i for i, ln in enumerate(lines) if i >= len(lines) // 2 and ln["s"][0]["op"] == "intersection"] or [-1]) if corrupt else -1
    for no, ln in enumerate(lines):
        script = ln["s"]
        finite = all(abs(v) != hdr["inf"] for B in [ln["start"]] + [h["b"] for h in script] for iv in B for v in iv) and \
            all(abs(h[k]) != hdr["inf"] for h in script for k in ("lb", "ub"))
        for as_float in ((True, False) if finite else (True,)):
            cur = to_list(ln["start"], hdr, as_float)
            prev = ln["e0"]
            for j, h in enumerate(script):
                op = h["op"]
                exp = list(h["exp"])
                if no == corrupt_at and j == 0:
                    c = [i for i, e in enumerate(exp) if e != 2][0]
                    exp[c] = 1 - exp[c]
                B = to_list(h["b"], hdr, as_float)
                lb = None if h["lb"] == hdr["none"] else to_num(h["lb"], hdr, as_float)
                ub = None if h["ub"] == hdr["none"] else to_num(h["ub"], hdr, as_float)
                calls = {}
                if op == "invert":
                    calls["direct"] = lambda c=cur: mt._interval_invert(list(c), lb, ub)
                    if lb is None and ub is None:
                        calls["defaults"] = lambda c=cur: mt._interval_invert(list(c))
                else:
                    calls["direct"] = lambda c=cur: getattr(mt, fns[op])(list(c), list(B))
                    calls["overlap-dict"] = lambda c=cur: mt.interval_overlap({0: list(c)}, {0: list(B)}, union=(op == "union")).get(0, [])
                nontriv = exp != prev
                pk = res["per_kind"].setdefault("intervals:" + op, [0, 0, 0])
                pk[0] += 1
                pk[1] += 1 if nontriv else 0
                res["open_points"] += exp.count(2)
                if as_float:
                    cls("intervals: %s %s -> %s" % (op, h["rel"], h["shape"]))
                probs = {}
                results = {}
                for form, call in calls.items():
                    res["evaluations"] += 1
                    res["nontrivial"] += 1 if nontriv else 0
                    try:
                        R = call()
                    except Exception as ex:
                        probs.setdefault("raises-" + type(ex).__name__, []).append(form)
                        results[form] = repr(ex)
                        continue
                    results[form] = R
                    if not wellformed(R):
                        probs.setdefault("malformed", []).append(form)
                        continue
                    missing, extra = differences(membership(R, hdr), exp)
                    if missing or extra:
                        probs.setdefault("+".join((["missing-points"] if missing else []) + (["extra-points"] if extra else [])), []).append(form)
                # an intersection lets the keys of one side through, a union keeps the common keys only
                if op != "invert" and not probs:
                    res["evaluations"] += 1
                    side1, side2 = [(0, 1)], [(5, 6)]
                    try:
                        D = mt.interval_overlap({0: list(cur), 1: list(side1)}, {0: list(B), 2: list(side2)}, union=(op == "union"))
                        if op == "intersection" and (show(D.get(1, [])) != show(side1) or show(D.get(2, [])) != show(side2)):
                            probs.setdefault("one-sided-key-lost", []).append("overlap-dict")
                        if membership(D.get(0, []), hdr) != membership(results["direct"], hdr):
                            probs.setdefault("common-key-differs-with-other-keys", []).append("overlap-dict")
                    except Exception as ex:
                        probs.setdefault("raises-" + type(ex).__name__, []).append("overlap-dict+keys")
                for pr, where in sorted(probs.items()):
                    q = [h["rel"], h["shape"]]
                    if len(where) < len(calls) and "direct" not in where:
                        q.append("form=" + "+".join(sorted(where)))
                    key = ":".join(["intervals", op, pr] + q)      # (number kind and position in the script: see the detail)
                    args = (show(cur), show(B)) if op != "invert" else (show(cur), lb, ub)
                    add_violation(key, {"function": fns[op], "args": args, "ends_given_as": "float" if as_float else "int", "step_of_script": j + 1, "script_so_far": [(s_["op"], s_["b"], s_["lb"], s_["ub"]) for s_ in script[:j + 1]],
                                        "start": ln["start"], "test_points": [t / 2 for t in range(hdr["wlo"], hdr["whi"] + 1)],
                                        "expected_membership(1 in,0 out,2 open)": exp,
                                        "got": {f: show(r) if not isinstance(r, str) else r for f, r in results.items()},
                                        "got_membership": {f: membership(r, hdr) for f, r in results.items() if wellformed(r)}},
                                  "%s%s: %s (%s, result %s); spec membership %s, mystic %s" % (
                                      fns[op], args, pr, h["rel"], h["shape"], "".join(map(str, exp)),
                                      {f: show(r) if not isinstance(r, str) else r for f, r in results.items()}))
                if probs:
                    break            # the rest of the script would start from a wrong set
                # the next operation starts from the real result, without its degenerate entries (lo >= hi: isolated points and
                # empty entries are not specified, and "the extrema of bounds" of a later inversion must not depend on them)
                cur = [tuple(r) for r in results["direct"] if float(r[0]) < float(r[1])]
                if not cur:
                    break
                prev = exp
            res["traces"] += 1
        if len(res["samples"]) < 1 and no % 977 == 11 and len(script) >= 1 and script[0]["op"] == "intersection":
            h = script[0]
            res["samples"].append({"call": "%s(%s, %s)" % (fns[h["op"]], show(to_list(ln["start"], hdr, True)), show(to_list(h["b"], hdr, True))),
                                   "test_points": [t / 2 for t in range(hdr["wlo"], hdr["whi"] + 1)],
                                   "spec_membership": h["exp"]})
    return res


def replay_pairtools(lines, mt, np, corrupt=False):
    res = {"evaluations": 0, "nontrivial": 0, "viol": {}, "nviol": {}, "samples": [], "classes": {}, "traces": 0,
           "per_kind": {}, "notes": {}, "lines": len(lines)}

    def add_violation(key, detail, what):
        res["nviol"][key] = res["nviol"].get(key, 0) + 1
        if len(res["viol"].setdefault(key, [])) < 2:
            res["viol"][key].append((detail, what))

    def check(fn, nontriv, call, good, args, want):
        """call() on the real helper; good(result) decides"""
        res["evaluations"] += 1
        res["nontrivial"] += 1 if nontriv else 0
        pk = res["per_kind"].setdefault("pairs:" + fn, [0, 0, 0])
        pk[0] += 1
        pk[1] += 1 if nontriv else 0
        try:
            got = call()
        except Exception as ex:
            add_violation("pairs:%s:raises-%s" % (fn, type(ex).__name__), {"function": fn, "args": args, "expected": want, "error": repr(ex)},
                          "%s%s raised %r; spec %s" % (fn, args, ex, want))
            return
        try:
            ok = good(got)
        except Exception:
            ok = False
        if not ok:
            add_violation("pairs:%s:wrong-value" % fn, {"function": fn, "args": args, "expected": want, "got": repr(got)},
                          "%s%s: spec %s, mystic %r" % (fn, args, want, got))

    def as_dict(seq):
        d = {}
        for a, b in seq:
            d.setdefault(a, set()).add(b)
        return d

    corrupt_at = min([i for i, ln in enumerate(lines) if i >= len(lines) // 2 and ln["inv"]] or [-1]) if corrupt else -1
    for no, ln in enumerate(lines):
        ps = [tuple(p) for p in ln["ps"]]
        qs = [tuple(p) for p in ln["qs"]]
        inv = [tuple(p) for p in ln["inv"]]
        sym = set(tuple(p) for p in ln["sym"])
        if no == corrupt_at:
            inv = [(inv[0][0] + 1, inv[0][1])] + inv[1:]          # self-test: a corrupted expected value must be noticed
        check("_inverted", inv != ps, lambda: mt._inverted(list(ps)), lambda g: isinstance(g, list) and g == inv and all(isinstance(t, tuple) for t in g),
              (ps,), inv)
        check("_symmetric", sym != set(ps), lambda: mt._symmetric(set(ps)), lambda g: isinstance(g, set) and g == sym, (set(ps),), sorted(sym))
        check("_symmetric", sym != set(ps), lambda: mt._symmetric(list(ps)), lambda g: isinstance(g, set) and g == sym, (ps,), sorted(sym))
        if ps:          # "N pairs": the empty list is outside the docstring
            check("unpair", True, lambda: mt.unpair(list(ps)), lambda g: [list(map(int, r)) for r in g] == ln["unp"] and len(g) == 2, (ps,), ln["unp"])
            x = ln["x"]
            ip = [tuple(p) for p in ln["ip"]]
            pw_ok = lambda g: isinstance(g, tuple) and len(g) == 2 and [float(v) for v in g[0]] == [float(v) for v in ln["pw"]] and \
                [tuple(int(i) for i in p) for p in g[1]] == ip
            check("pairwise", any(ln["pw"]), lambda: mt.pairwise(list(x), True), pw_ok, (x, True), (ln["pw"], ip))
            check("pairwise", any(ln["pw"]), lambda: mt.pairwise(np.array(x, dtype=float), indices=True), pw_ok, ("array(%s)" % x, True), (ln["pw"], ip))
            pw2_ok = lambda g: isinstance(g, tuple) and len(g) == 2 and [[float(v) for v in r] for r in g[0]] == [[float(v) for v in ln["pw"]], [float(v) for v in ln["pw2"]]] \
                and [tuple(int(i) for i in p) for p in g[1]] == ip
            check("pairwise", any(ln["pw"]) or any(ln["pw2"]), lambda: mt.pairwise([list(x), list(ln["x2"])], True), pw2_ok, ([x, ln["x2"]], True), ([ln["pw"], ln["pw2"]], ip))
            # indices=False: the docstring promises the distances alone; noted, not judged (see the check's assumptions)
            try:
                g = mt.pairwise(list(x))
                if isinstance(g, tuple):
                    res["notes"]["pairwise(x) [indices=False] returns a %d-tuple instead of the array of distances" % len(g)] = \
                        res["notes"].get("pairwise(x) [indices=False] returns a %d-tuple instead of the array of distances" % len(g), 0) + 1
            except Exception as ex:
                res["notes"]["pairwise(x) raises " + type(ex).__name__] = 1
            sel = ln["sel"]
            if sel[0]:
                want = (tuple(sel[0]), tuple(sel[1]))
                check("select_params", True, lambda: mt.select_params(list(x), tuple(sel[0])), lambda g: g == want, (x, tuple(sel[0])), want)
                check("select_params", True, lambda: mt.select_params(np.array(x, dtype=float), list(sel[0])),
                      lambda g: (tuple(g[0]), tuple(float(v) for v in g[1])) == (want[0], tuple(float(v) for v in want[1])), ("array(%s)" % x, list(sel[0])), want)
                if len(sel[0]) == 1:
                    check("select_params", True, lambda: mt.select_params(list(x), sel[0][0]), lambda g: g == want, (x, sel[0][0]), want)
        d1, d2 = as_dict(ps), as_dict(qs)
        for union, field in ((True, "ou"), (False, "oi")):
            want = {k: set(v) for k, v in ln[field]}
            check("indicator_overlap", want != d1, lambda: mt.indicator_overlap(copy.deepcopy(d1), copy.deepcopy(d2), union=union),
                  lambda g: isinstance(g, dict) and g == want, (d1, d2, "union=%s" % union), want)
        if len(res["samples"]) < 1 and no % 1013 == 500 and ps:
            res["samples"].append({"pairs": ps, "spec: _inverted": inv, "_symmetric": sorted(sym), "unpair": ln["unp"],
                                   "pairwise(%s, True)" % ln["x"]: [ln["pw"], ln["ip"]]})
    return res
