"""Recorded runs of the one-line wrappers fmin / fmin_powell / diffev / diffev2 for the lifecycle pipeline (C04/C05).

A wrapper hides its solver, so a run is logged as TWO events validated by specs/solver/Trace_Lifecycle.tla:

    New   kind, np, dim, defG, defE (the solver's documented default limits), cb
    Wrap  g, e (maxiter / maxfun as given; -1 = None = "use the default"), the returned gens, fcalls, warnflag,
          the recorder's own count of cost calls (real) and callbacks (ncb), and `mustlimit`: the run was given a
          stop rule that cannot hold (negative tolerances on a cost >= 1), so only a limit can have ended it

The specification (Lifecycle.WarnFlag, ResG, ResE) decides which flag is right; nothing about the flag is computed here.
"""
import io, contextlib, random
import numpy as np

NONE = -1


def _cost_far(counter):
    """Rosenbrock-like valley shifted up by 1 (|f| >= 1 keeps negative relative tolerances unsatisfiable)"""
    def cost(x):
        counter[0] += 1
        x = [float(v) for v in x]
        return 1.0 + sum(100.0 * (x[i + 1] - x[i] ** 2) ** 2 + (1.0 - x[i]) ** 2 for i in range(len(x) - 1)) + \
            (0.0 if len(x) > 1 else (x[0] - 3.0) ** 2)
    return cost


def _cost_easy(counter):
    def cost(x):
        counter[0] += 1
        return 1.0 + sum((float(v) - 0.5) ** 2 for v in x)
    return cost


def lim(v):
    return NONE if v is None else int(v)


def run_wrapper(name, dim, maxiter, maxfun, mustlimit, seed, npop=4):
    """one wrapper call -> [New, Wrap] (or [New, Raise] when mystic raised)"""
    import mystic.solvers as ms
    from mystic.monitors import Monitor
    evalmon, itermon = Monitor(), Monitor()
    random.seed(seed)
    np.random.seed(seed % (2 ** 32))
    counter, ncb = [0], [0]
    cost = _cost_far(counter) if mustlimit else _cost_easy(counter)

    def callback(x):
        ncb[0] += 1

    rng = random.Random(seed)
    x0 = [rng.choice([-1.5, -0.75, 1.25, 2.0]) for _ in range(dim)]
    tol = -1.0 if mustlimit else 1e-3
    kind = {"fmin": "NM", "fmin_powell": "PW", "diffev": "DE", "diffev2": "DE2"}[name]
    if kind in ("DE", "DE2"):
        np_, defG, defE = npop, dim * npop * 10, dim * npop * 1000
    elif kind == "NM":
        np_, defG, defE = 1, dim * 200, dim * 200
    else:
        np_, defG, defE = 1, dim * 1000, dim * 1000
    events = [{"ev": "New", "kind": kind, "np": np_, "dim": dim, "defG": defG, "defE": defE, "cb": True}]
    buf = io.StringIO()
    try:
        with contextlib.redirect_stdout(buf), contextlib.redirect_stderr(buf):
            if name == "fmin":
                r = ms.fmin(cost, x0, xtol=tol, ftol=tol, maxiter=maxiter, maxfun=maxfun, full_output=1, disp=0, callback=callback,
                            evalmon=evalmon, itermon=itermon)
            elif name == "fmin_powell":
                r = ms.fmin_powell(cost, x0, xtol=abs(tol) if mustlimit else tol, ftol=tol, maxiter=maxiter, maxfun=maxfun,
                                   full_output=1, disp=0, callback=callback, evalmon=evalmon, itermon=itermon,
                                   **(dict(gtol=10 ** 6) if mustlimit else {}))
            else:
                f = ms.diffev if name == "diffev" else ms.diffev2
                kw = dict(gtol=10 ** 6) if mustlimit else {}   # window longer than any history: can never hold
                r = f(cost, [(-3.0, 3.0)] * dim, npop=npop, ftol=tol, maxiter=maxiter, maxfun=maxfun, full_output=1, disp=0,
                      callback=callback, evalmon=evalmon, itermon=itermon, **kw)
    except Exception as ex:
        events.append({"ev": "Raise", "what": "%s: %r" % (name, ex)})
        return events
    events.append({"ev": "Wrap", "name": name, "g": lim(maxiter), "e": lim(maxfun), "gens": int(r[2]), "fcalls": int(r[3]),
                   "warnflag": int(r[4]), "real": int(counter[0]), "ncb": int(ncb[0]), "mustlimit": bool(mustlimit),
                   "nem": len(evalmon), "nsm": len(itermon)})
    return events


def wrapper_jobs(seed, thorough=False):
    """(name, dim, maxiter, maxfun, mustlimit, seed) for every wrapper x limit pattern"""
    jobs = []
    rng = random.Random(seed * 7919 + 13)
    names = ["fmin", "fmin_powell", "diffev", "diffev2"]
    for name in names:
        dims = [1, 2] if name in ("fmin", "fmin_powell") else [2]
        if thorough:
            dims = dims + [3]
        for dim in dims:
            small_e = {"fmin": 25, "fmin_powell": 60, "diffev": 30, "diffev2": 30}[name]
            pats = [(None, None), (3, None), (None, small_e), (3, small_e), (0, None), (None, 1), (1, 10 ** 6), (10 ** 6, small_e)]
            for (g, e) in pats:
                for must in (True, False):
                    if must and g is None and e is None and name == "fmin_powell" and dim > 2 and not thorough:
                        continue
                    jobs.append((name, dim, g, e, must, rng.randrange(10 ** 6)))
    return jobs


def _run(job):
    return run_wrapper(*job)


def record(seed, thorough=False, njobs=8):
    jobs = wrapper_jobs(seed, thorough)
    if njobs > 1 and len(jobs) > 16:
        import multiprocessing as mp
        with mp.get_context("fork").Pool(min(njobs, 8)) as pool:
            traces = pool.map(_run, jobs, chunksize=4)
    else:
        traces = [_run(j) for j in jobs]
    return jobs, traces
