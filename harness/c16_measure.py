"""C16, measure decorators: replay of specs/cons/TransformsMeasure.tla on impose_measure / impose_position / impose_weight.

TLC emits one line per reachable state of the specification: the shape `npts`, the flat start vector `x` (units 1/S),
the collapses `ops` applied (= the decorator's arguments), the expected flat result `e` and the result `e2` of applying
the decorated function to its own result (rationals [num, den]), and `ex`/`ex2`: every division was by a power of two
(the implementation's float arithmetic is then exact and compared with ==; otherwise to 1e-12 relative).

Every line is replayed on the real decorators in every calling form the docstrings give:
  tuple     impose_measure(npts, ({k: P}, ..), ({k: I}, ..))     one dict per collapse, in the specification's order
  dict      impose_measure(npts, {k: P, ..}, {k: I, ..})         when no factor occurs twice in tracking / in noweight
  position  impose_position(npts, tracking)                      when there is no noweight collapse
  weight    impose_weight(npts, noweight)                        when there is no tracking collapse
  default   impose_measure(npts)                                 when there is no collapse at all
on a float list and a float64 array.  Nothing here computes an expected value.
"""
from fractions import Fraction

TOL = Fraction(1, 10 ** 12)


def as_floats(out):
    return [float(t) for t in out]


def same_bits(a, b):
    return len(a) == len(b) and all(float(u).hex() == float(w).hex() for u, w in zip(a, b))


def forms(mc, npts, ops):
    """the real decorators for one specification state: {form name: decorator}"""
    T = [{o["k"]: set(tuple(p) for p in o["p"])} for o in ops if o["t"] == "track"]
    W = [{o["k"]: set(o["i"])} for o in ops if o["t"] == "noweight"]
    res = {"tuple": mc.impose_measure(npts, tuple(T), tuple(W))}
    tk = [list(d)[0] for d in T]
    wk = [list(d)[0] for d in W]
    if len(set(tk)) == len(tk) and len(set(wk)) == len(wk):
        Td = {k: v for d in T for k, v in d.items()}
        Wd = {k: v for d in W for k, v in d.items()}
        res["dict"] = mc.impose_measure(npts, Td, Wd)
        if not W and T:
            res["position"] = mc.impose_position(npts, Td)
        if not T and W:
            res["weight"] = mc.impose_weight(npts, Wd)
    else:
        if not W and T:
            res["position"] = mc.impose_position(npts, tuple(T))
        if not T and W:
            res["weight"] = mc.impose_weight(npts, tuple(W))
    if not T and not W:
        res["default"] = mc.impose_measure(npts)
    return res


def listed_late_root(pairs):
    """does the python set of these pairs iterate some pair (a, b) BEFORE the pair (c, a) that hands a's weight on to c?
    (a qualifier of the case for the violation key, computed from the very set object the decorator is given)"""
    order = list(set(tuple(p) for p in pairs))
    return any(order[i][0] == order[j][1] for i in range(len(order)) for j in range(i + 1, len(order)))


def describe(npts, ops):
    T = [{o["k"]: sorted(tuple(p) for p in o["p"])} for o in ops if o["t"] == "track"]
    W = [{o["k"]: sorted(o["i"])} for o in ops if o["t"] == "noweight"]
    return "impose_measure(%s, tracking=%s, noweight=%s)" % (tuple(npts), tuple(T), tuple(W))


def compare(out, exp, exact):
    """entries (0-based) where the real output differs from the specification's rationals"""
    if len(out) != len(exp):
        return None
    bad = []
    for i, (o, w) in enumerate(zip(out, exp)):
        w = Fraction(w[0], w[1])
        if o != o or o in (float("inf"), float("-inf")):
            bad.append(i)
        elif exact:
            if Fraction(o) != w:
                bad.append(i)
        elif abs(Fraction(o) - w) > TOL * max(1, abs(w)):
            bad.append(i)
    return bad


def factor_of(npts, entry):
    """flat entry (0-based) -> (factor, 'w' | 'x')"""
    off = 0
    for k, n in enumerate(npts):
        if entry < off + n:
            return k, "w"
        if entry < off + 2 * n:
            return k, "x"
        off += 2 * n
    return None, None


def replay_measure(lines, mc, np, S, corrupt=False):
    res = {"evaluations": 0, "nontrivial": set(), "viol": {}, "nviol": {}, "samples": [], "classes": {}, "traces": 0,
           "per_kind": {}, "lines": len(lines)}

    def add_violation(key, detail, what):
        res["nviol"][key] = res["nviol"].get(key, 0) + 1
        if len(res["viol"].setdefault(key, [])) < 2:
            res["viol"][key].append((detail, what))

    def cls(name):
        res["classes"][name] = res["classes"].get(name, 0) + 1

    cache = {}
    for no, ln in enumerate(lines):
        npts, x, ops = tuple(ln["npts"]), ln["x"], ln["ops"]
        exp, exp2 = ln["e"], (ln["e2"] or ln["e"])          # e2 = []: the specification's second application changes nothing
        if corrupt and no == len(lines) // 2:
            exp = [[exp[0][0] + exp[0][1], exp[0][1]]] + exp[1:]          # self-test: first expected weight + 1
        xs = [v / S for v in x]
        nontriv = any(Fraction(a, S) != Fraction(e[0], e[1]) for a, e in zip(x, exp))
        kinds = "+".join(sorted(set(o["t"] for o in ops))) or "identity"
        quals = sorted(set(ln["cls"]))
        late_root = any(o["t"] == "track" and listed_late_root(o["p"]) for o in ops)
        touched = set(o["k"] for o in ops)
        pk = res["per_kind"].setdefault("measure:" + kinds, [0, 0, 0])
        pk[0] += 1
        pk[1] += 1 if nontriv else 0
        for c in quals:
            cls("measure: " + c)
        cls("measure: shape %s" % (npts,))
        if len(ops) > 1:
            cls("measure: %d collapses" % len(ops))
        ckey = (npts, repr(ops))
        fs = cache.get(ckey)
        if fs is None:
            ident = lambda z: z
            fs = cache[ckey] = {name: dec(ident) for name, dec in forms(mc, npts, ops).items()}
            if len(cache) > 4000:
                cache.clear()
        probs = {}          # problem -> {"where": set of form/kind, "entries": set}
        got = {}

        def note(pr, where, entries=()):
            p = probs.setdefault(pr, {"where": set(), "entries": set()})
            p["where"].add(where)
            p["entries"].update(entries)

        for form, fn in fs.items():
            for kind in ("list", "array"):
                res["evaluations"] += 1
                if nontriv:
                    res["nontrivial"].add((no, form, kind))
                where = form + "/" + kind
                xin = list(xs) if kind == "list" else np.array(xs, dtype=float)
                try:
                    out = as_floats(fn(xin))
                except Exception as ex_:
                    note("raises-" + type(ex_).__name__, where)
                    got[where] = repr(ex_)
                    continue
                got[where] = out
                bad = compare(out, exp, ln["ex"])
                if bad is None:
                    note("wrong-length", where)
                    continue
                in_touched = [e for e in bad if factor_of(npts, e)[0] in touched]
                if in_touched:
                    parts = sorted(set(factor_of(npts, e)[1] for e in in_touched))
                    note("wrong-" + {"w": "weights", "x": "positions", "wx": "value"}["".join(parts)], where, in_touched)
                # factors no collapse addresses: as the specification says, and bit-identical to the input
                other = [e for e in range(len(out)) if factor_of(npts, e)[0] not in touched
                         and (e in bad or float(out[e]).hex() != float(xs[e]).hex())]
                if other:
                    note("other-factor-changed", where, other)
                if not same_bits(as_floats(xin), xs):
                    note("input-mutated", where)
                if not bad:
                    try:
                        out2 = as_floats(fn(list(out) if kind == "list" else np.array(out, dtype=float)))
                        bad2 = compare(out2, exp2, ln["ex2"] and ln["ex"])
                        if bad2 is None or bad2:
                            note("second-application-differs", where, bad2 or ())
                            got[where + "-twice"] = out2
                    except Exception as ex_:
                        note("second-application-raises-" + type(ex_).__name__, where)
        if len(ops) > 1:            # a decorator of several collapses: a behaviour of the state machine
            res["traces"] += 1
        for pr, info in sorted(probs.items()):
            allw = [f + "/" + k for f in fs for k in ("list", "array")]
            q = list(quals)
            fw = sorted(set(w.split("/")[0] for w in info["where"]))
            kw = sorted(set(w.split("/")[1] for w in info["where"]))
            if len(info["where"]) < len(allw):
                if len(fw) < len(fs):
                    q.append("form=" + "+".join(fw))
                if len(kw) == 1:
                    q.append(kw[0] + "-only")
            key = ":".join(["measure", kinds, pr] + q)
            if late_root:
                # a chained collapse whose python SET happens to iterate a pair before the pair that hands its first member on:
                # its own family of classes, like as:pair-order:* of impose_as (tools.connected depends on the listing order)
                key = ":".join(["measure", "pair-order", "late-root", pr])
            add_violation(key, {"decorator": describe(npts, ops), "npts": list(npts), "ops": ops, "input": xs,
                                "expected": [float(Fraction(a, b)) for a, b in exp], "expected_exact": exp, "got": got,
                                "failing_entries(0-based)": sorted(info["entries"]), "forms_failing": sorted(info["where"])},
                          "%s on %s (%s): %s; spec %s, mystic %s" % (describe(npts, ops), xs, ",".join(sorted(info["where"]))[:80], pr,
                                                                      [float(Fraction(a, b)) for a, b in exp],
                                                                      str(got.get(sorted(info["where"])[0]))[:200]))
        if not probs and nontriv and len(res["samples"]) < 2 and no % 499 == 7:
            res["samples"].append({"decorator": describe(npts, ops), "input": xs, "spec_expects": ["%d/%d" % (a, b) for a, b in exp],
                                   "mystic_returns": got.get("tuple/list"), "forms_replayed": sorted(fs)})
    res["nontrivial"] = len(res["nontrivial"])
    return res
