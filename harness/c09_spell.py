"""C09 -- concretisation of the abstract inputs TLC enumerates: ONE abstract value, SEVERAL concrete spellings.

The specifications (Grid.tla, GridGen.tla, Ensemble.tla, Sampler.tla, Searcher.tla) speak of a box, a bin layout, a count,
a tolerance.  The implementation branches on how such a value is WRITTEN (python float / int, numpy scalar, list / tuple /
ndarray, integer dtype, float32, -0.0, keyword vs positional vs setter, scalar vs one-element sequence, numpy.all vs all,
None vs omitted).  Every function here turns an abstract value into one of its legal spellings; the spelling is chosen by
a deterministic rotation over the case number, so that every quick run replays every spelling many times and a failure is
reproducible.  A spelling that does not apply to a value (python ints for 0.75) falls back to the canonical one; the tag
actually used is returned and counted (`Tally`), the counts go into the evidence.

Only LEGAL spellings: each one was tried on the unchanged tree; spellings the implementation rejects with an exception
(an ndarray as `nbins`: `nbins or npts` is ambiguous) are outside its domain and are not listed.
"""
import math
import numpy as np


def val(units, sc=0):
    """the real number `units` * 2^sc / 16 (Grid.tla: Scale = 16, binary exponent sc) -- exact in IEEE doubles"""
    return math.ldexp(float(units), int(sc) - 4)


class Tally(dict):
    def hit(self, group, tag):
        if group is None:
            return tag
        k = "%s:%s" % (group, tag)
        self[k] = self.get(k, 0) + 1
        return tag


TALLY = Tally()

# ------------------------------------------------------------------------------------------- sequences of reals
SEQ = ["list", "tuple", "ndarray", "ints", "int64-array", "float32-array", "neg-zero", "np.float64-list"]


def _integral(vals, limit=2.0 ** 53):
    return all(float(v).is_integer() and abs(v) < limit for v in vals)


def _f32(vals):
    with np.errstate(over="ignore"):
        return bool(vals) and all(math.isfinite(v) and float(np.float32(v)) == v for v in vals)


def applicable(vals, how):
    vals = [float(v) for v in vals]
    if how == "ints":
        return _integral(vals)
    if how == "int64-array":
        return _integral(vals, 2.0 ** 62)
    if how == "float32-array":
        return _f32(vals)
    if how == "neg-zero":
        return any(v == 0.0 for v in vals)
    return True


def pair(lo, hi, how, group="bounds"):
    """lower and upper bounds in ONE spelling (a float32 lower bound next to a python-float upper bound would make numpy
    compute their difference in float32); `neg-zero` applies if either side has a zero"""
    if how == "neg-zero":
        ok = applicable(lo, how) or applicable(hi, how)
    else:
        ok = applicable(lo, how) and applicable(hi, how)
    how = how if ok else "list"
    a, _ = seq(lo, how if applicable(lo, how) else "list", None)
    b, _ = seq(hi, how if applicable(hi, how) else "list", None)
    return a, b, TALLY.hit(group, how)


_TURN = {}


def pair_rot(lo, hi, group="bounds"):
    """the next spelling, in turn, among those that APPLY to this pair of bounds (a private counter per set of applicable
    spellings: integer spellings get their share of the integral boxes); deterministic in the sequence of calls"""
    apps = tuple(h for h in SEQ if ((applicable(lo, h) or applicable(hi, h)) if h == "neg-zero"
                                    else (applicable(lo, h) and applicable(hi, h))))
    k = _TURN[(group, apps)] = _TURN.get((group, apps), -1) + 1
    return pair(lo, hi, apps[k % len(apps)], group)


def reset_turns():
    _TURN.clear()
    TALLY.clear()


def seq(vals, how, group="seq"):
    """a sequence of reals in the spelling `how` (one of SEQ); returns (object, tag used)"""
    vals = [float(v) for v in vals]
    if not applicable(vals, how):
        how = "list"
    if how == "tuple":
        return tuple(vals), TALLY.hit(group, how)
    if how == "ndarray":
        return np.array(vals, dtype=float), TALLY.hit(group, how)
    if how == "ints" and _integral(vals):
        return [int(v) for v in vals], TALLY.hit(group, how)
    if how == "int64-array" and _integral(vals, 2.0 ** 62):
        return np.array([int(v) for v in vals], dtype=np.int64), TALLY.hit(group, how)
    if how == "float32-array":
        return np.array(vals, dtype=np.float32), TALLY.hit(group, how)
    if how == "neg-zero" and any(v == 0.0 for v in vals):
        return [(-0.0 if v == 0.0 else v) for v in vals], TALLY.hit(group, how)
    if how == "np.float64-list":
        return [np.float64(v) for v in vals], TALLY.hit(group, how)
    return list(vals), TALLY.hit(group, "list")


def same_reals(obj, vals):
    """the caller-owned object still holds the numbers it was built from (no in-place write by the callee)"""
    try:
        return [float(v) for v in obj] == [float(v) for v in vals]
    except Exception:
        return False


# ---------------------------------------------------------------------------------------------- counts / flags
INT = ["int", "np.int64", "np.int32"]


def count(n, how, group="int"):
    if how == "np.int64":
        return np.int64(n), TALLY.hit(group, how)
    if how == "np.int32":
        return np.int32(n), TALLY.hit(group, how)
    return int(n), TALLY.hit(group, "int")


# ------------------------------------------------------------------------------- gridpts(q): list of bin lists
GRID = ["lists", "ints", "tuples", "arrays", "mixed", "np.float64-lists"]


def bins(q, how):
    """q = per-dimension lists of reals -> the argument of gridpts in spelling `how`"""
    q = [[float(v) for v in b] for b in q]
    if how == "ints" and all(_integral(b) for b in q):          # the docstring's own type: lists of integers
        return [[int(v) for v in b] for b in q], TALLY.hit("gridpts", how)
    if how == "tuples":
        return tuple(tuple(b) for b in q), TALLY.hit("gridpts", how)
    if how == "arrays":
        if len(set(len(b) for b in q)) == 1:
            return np.array(q, dtype=float), TALLY.hit("gridpts", "2d-array")
        return [np.array(b, dtype=float) for b in q], TALLY.hit("gridpts", "list-of-arrays")
    if how == "mixed" and len(q) > 1 and _integral(q[0]):       # first dimension written as ints, the others as floats
        return [[int(v) for v in q[0]]] + q[1:], TALLY.hit("gridpts", how)
    if how == "np.float64-lists":
        return [[np.float64(v) for v in b] for b in q], TALLY.hit("gridpts", how)
    return q, TALLY.hit("gridpts", "lists")


# ------------------------------------------------------------------- LatticeSolver(dim, nbins): the bin layout
NBINS = ["list", "tuple", "np.int64-list", "kw-list", "kw-tuple"]
NBINS1 = ["scalar", "list", "np.int64-scalar", "tuple", "scalar", "kw-list", "np.int64-scalar", "np.int64-list", "kw-tuple"]


def nbins_tag(dim, how):
    """the spelling the rotation number `how` selects for a layout of `dim` dimensions"""
    if isinstance(how, int):
        how = rot(how, NBINS1 if dim == 1 else NBINS)
    if how in ("scalar", "np.int64-scalar") and dim != 1:
        how = "list"
    return how


def lattice(cls, dim, nbins, how):
    """a LatticeSolver with the layout `nbins` written in spelling `how`.  In ONE dimension the layout [n] may also be
    written as the scalar n: randomly_bin(n, 1) can only answer [n]."""
    nbins = [int(v) for v in nbins]
    how = TALLY.hit("nbins", nbins_tag(dim, how))
    if how == "tuple":
        return cls(dim, tuple(nbins)), how
    if how == "np.int64-list":
        return cls(dim, [np.int64(v) for v in nbins]), how
    if how == "kw-list":
        return cls(dim, nbins=list(nbins)), how
    if how == "kw-tuple":
        return cls(dim, nbins=tuple(nbins)), how
    if how == "scalar":
        return cls(dim, nbins[0]), how
    if how == "np.int64-scalar":
        return cls(dim, nbins=np.int64(nbins[0])), how
    return cls(dim, list(nbins)), how


# ------------------------------------------------------------------------------- SetStrictRanges(min, max)
RANGES = ["positional", "keywords", "keywords-swapped-order"]


def set_ranges(solver, lo, hi, how):
    if how == "keywords":
        solver.SetStrictRanges(min=lo, max=hi)
    elif how == "keywords-swapped-order":
        solver.SetStrictRanges(max=hi, min=lo)
    else:
        how = "positional"
        solver.SetStrictRanges(lo, hi)
    return TALLY.hit("SetStrictRanges", how)


def rot(k, options, stride=1):
    """deterministic rotation: option number (k // stride) mod len(options)"""
    return options[(k // stride) % len(options)]
