"""Self-test of the C01/C02/C03 binding: in-memory mutants of mystic (never written to /repo) must be rejected."""
import io, contextlib, types
from harness.core import assert_repo
from harness.srcpatch import patch


def mutants(prop):
    import mystic.abstract_solver as A
    import mystic.differential_evolution as D
    import mystic.scipy_optimize as S
    import mystic.tools as T
    AS, DE, DE2, NM, PW = A.AbstractSolver, D.DifferentialEvolutionSolver, D.DifferentialEvolutionSolver2, \
        S.NelderMeadSimplexSolver, S.PowellDirectionalSolver
    m = []

    def both(*fs):
        def mk():
            u = [f() for f in fs]
            return lambda: [x() for x in u]
        return mk

    def rebind_wrap(name, newfn):
        """tools.wrap_* are imported by name into the solver modules"""
        def mk():
            olds = [(mod, getattr(mod, name)) for mod in (A, D, S, T) if hasattr(mod, name)]
            for mod, _ in olds:
                setattr(mod, name, newfn)
            return lambda: [setattr(mod, name, o) for mod, o in olds]
        return mk

    if prop == "C01":
        def wrap_penalty_pre(cost_function, penalty_function):   # penalty of a shifted vector
            def function_wrapper(x):
                _x = x[:]
                return cost_function(_x) + penalty_function([v + 0.25 for v in _x])
            return function_wrapper
        m.append(("penalty evaluated at a different vector than the cost", rebind_wrap("wrap_penalty", wrap_penalty_pre)))
        m.append(("DE updates bestEnergy but not bestSolution",
                  lambda: patch(DE, "_Step", "                    self.bestSolution[:] = self.trialSolution\n", "                    pass\n")))
        m.append(("DE2 stores the trial of the next candidate",
                  lambda: patch(DE2, "_Step", "self.population[candidate][:] = self.trialSolution[candidate]",
                                "self.population[candidate][:] = self.trialSolution[(candidate+1) % self.nPop]")))
        m.append(("penalty added before the reducer (fix reverted)", both(
            lambda: patch(AS, "_decorate_objective", "        cost = wrap_penalty(cost, self._penalty)\n", "        pass\n"),
            lambda: patch(AS, "_decorate_objective", "        if self._reducer:\n", "        cost = wrap_penalty(cost, self._penalty)\n        if self._reducer:\n"))))
        m.append(("Nelder-Mead reports the unconstrained best vertex (fix reverted)",
                  lambda: patch(NM, "_Step", "            sim[0] = asarray(constraints(sim[0]), dtype='float64')\n        self.population = sim",
                                "        self.population = sim")))
        m.append(("Powell keeps the energy of the previous line search",
                  lambda: patch(PW, "_Step", "        self.popEnergy[0] = fval # bestEnergy\n\n        # do callback",
                                "        self.popEnergy[0] = fx # bestEnergy\n\n        # do callback")))
    elif prop == "C02":
        def wrap_bounds_off(target_function, min=None, max=None):
            def function_wrapper(x):
                return target_function(x)
            return function_wrapper
        m.append(("wrap_bounds never fires", rebind_wrap("wrap_bounds", wrap_bounds_off)))
        m.append(("SetRandomInitialPoints ignores the lower limit",
                  lambda: patch(AS, "SetRandomInitialPoints", "random.uniform(min[j],max[j])", "random.uniform(min[j]-1.0,max[j])")))
        def lower_side_unchecked():
            u = patch(T, "wrap_bounds", "if any((x<min)|(x>max)):", "if any((x>max)):")
            mods = [(mod, getattr(mod, "wrap_bounds")) for mod in (A, D, S)]
            for mod, _ in mods:
                mod.wrap_bounds = T.wrap_bounds
            return lambda: ([setattr(mod, "wrap_bounds", o) for mod, o in mods], u())
        m.append(("bounds test checks only the upper side", lower_side_unchecked))
        m.append(("Powell evaluates the extrapolated point without the bounds wrapper",
                  lambda: patch(PW, "_Step", "            fx2 = squeeze(cost(x2))", "            fx2 = squeeze(self._cost[1](x2))")))
        m.append(("Nelder-Mead keeps its old simplex when ranges are installed mid-run",
                  lambda: patch(NM, "_decorate_objective", "            if self.generations:\n", "            if False:\n")))
    else:
        m.append(("DE evaluates the trial before constraining it",
                  lambda: patch(DE, "_Step", "            self.trialSolution[:] = constraints(self.trialSolution)\n", "            pass\n")))
        m.append(("Nelder-Mead reports the unconstrained best vertex (fix reverted)",
                  lambda: patch(NM, "_Step", "            sim[0] = asarray(constraints(sim[0]), dtype='float64')\n        self.population = sim",
                                "        self.population = sim")))
        m.append(("Powell skips the constraints after the line searches",
                  lambda: patch(PW, "_Step", "                x = asarray(constraints(x), dtype='float64') #XXX: self._map?", "                pass", count=2)))
        m.append(("constraints nested only when strict ranges are on",
                  lambda: patch(AS, "_decorate_objective", "        else: constraints = self._constraints\n", "        else: constraints = lambda x: x\n")))
        m.append(("DE2 constrains a copy and evaluates the unconstrained trial",
                  lambda: patch(DE2, "_Step", "            self.trialSolution[candidate][:] = constraints(self.trialSolution[candidate])\n",
                                "            constraints(list(self.trialSolution[candidate]))\n")))
    return m


def selftest(prop, a):
    assert_repo()
    from harness.objective_check import run
    missed = 0
    for name, mk in mutants(prop):
        undo = mk()
        try:
            a2 = types.SimpleNamespace(tier="quick", seed=a.seed, jobs=a.jobs, dry=True, light=True)
            buf = io.StringIO()
            with contextlib.redirect_stdout(buf):
                try:
                    rc = run(prop, a2)
                except Exception as ex:
                    rc = "raised %r" % (ex,)
            out = buf.getvalue()
            classes = sorted(set(l.strip()[len("violation class "):].rsplit(":", 1)[0] for l in out.splitlines()
                                 if l.strip().startswith("violation class")))
            caught = rc not in (0,)
            print("SELFTEST %s: %s   %s" % (name, "caught" if caught else "MISSED", "; ".join(classes)[:260]))
            missed += 0 if caught else 1
        finally:
            undo()
    return 1 if missed else 0
