"""C08 -- the optimizers implement their published algorithms.

One Check assembled from two halves (each is a module with its own specifications and self-test):

 * harness/c08_de.py     specs/de/Strategy.tla (ten mutation strategies with explicit random draws) and
                         specs/solver/DE.tla (generation loop, strict greedy selection): every TLC-emitted case /
                         behaviour replayed on the real strategy functions and both DE solver classes.
 * harness/c08_nmpw.py   specs/solver/NMExact.tla (concrete Nelder-Mead on dyadic rationals, bit-for-bit replay into
                         NelderMeadSimplexSolver / fmin), specs/solver/NM.tla + Trace_NM.tla (decision tree explains every
                         recorded iteration of float runs), specs/solver/Powell.tla + Trace_Powell.tla (direction-set outer
                         loop explains every recorded Powell iteration, the Brent line search being the given one).

The parts that exist in c08_nmpw are discovered by name, so this file does not change when a part is added.
"""
import sys, time
from harness.core import Check, tier_seed, assert_repo, main_guard
from harness import c08_de, c08_nmpw

RULE = (c08_de.RULE + ".  NM/Powell half: every behaviour of specs/solver/NMExact.tla (start point x cost family x radius x "
        "standard/adaptive coefficients x tolerances on the dyadic lattice) is replayed Step by Step on the real "
        "NelderMeadSimplexSolver, through Solve() and through fmin and must agree bit for bit (simplex, energies, iteration "
        "and evaluation counts, stop verdict); recorded float runs of Nelder-Mead and Powell are validated per iteration "
        "by TLC against the decision tree of NM.tla / the outer loop of Powell.tla.  Non-trivial (NM) = an iteration that "
        "takes a branch other than start/build")



def run(a, corrupt=None):
    ck = Check("C08", "model_checking", a.tier, a.seed, rule=RULE)
    ck.exhaustive = True
    # the Nelder-Mead / Powell half first starts its long exact-replay TLC run in a forked child, which then overlaps
    # with its own trace pipelines; the DE half follows
    walls = {}
    t1 = time.time()
    c08_nmpw.run_half(ck, a, corrupt=(corrupt == "nmpw"), walls=walls)
    ck.extra["wall_nmpw_half_s"] = round(time.time() - t1, 1)
    ck.extra["wall_nmpw_parts_s"] = walls
    t0 = time.time()
    c08_de.explore(ck, a, corrupt=corrupt if corrupt in ("strategy", "de") else None)
    ck.extra["wall_de_half_s"] = round(time.time() - t0, 1)
    for x in getattr(c08_nmpw, "ASSUMPTIONS_NMPW", []):
        if x not in ck.assumptions:
            ck.assumptions.append(x)
    return ck


def selftest(a):
    rc = c08_de.selftest(a)
    rc = c08_nmpw.selftest_nmpw(a) or rc
    return rc


def main():
    a = tier_seed()
    assert_repo()
    if a.selftest:
        return selftest(a)
    ck = run(a)
    return ck.finish()


if __name__ == "__main__":
    main_guard(main)
