"""C08, Nelder-Mead and Powell half -- the optimizers implement their published algorithms.

spec -> code   specs/solver/NMExact.tla is a concrete Nelder-Mead on dyadic rationals.  TLC enumerates problems
               (start point x cost family/parameters x radius x standard/adaptive coefficients x tolerances),
               model-checks the design properties and emits per behaviour the simplex, energies, counters, branch
               and stop verdict after every Step.  `nm_exact` replays each behaviour on the real
               NelderMeadSimplexSolver Step by Step, on Solve() and on mystic fmin and compares bit for bit.
code -> spec   `nm_traces`: Nelder-Mead runs on arbitrary float problems (catalogue in harness/c08_rec.py: smooth,
               non-smooth, ill-conditioned 1e6:1, staircases with exact ties, inf walls, non-convex; dims 1..8; random
               starts by seed; radius / adaptive variants; Step by Step, Solve(), fmin) are recorded per iteration
               (every objective call labelled R/E/OC/IC/S_j/X0/I_k by recomputing the documented points from the pre-state
               simplex, energies as ranks, the result of the given sort on every candidate arrangement, post-state,
               counters, stop verdict) and TLC validates each trace with the decision tree of specs/solver/NM.tla
               (specs/solver/Trace_NM.tla): one path of the tree per iteration, counters and stop rule included.
               `powell_traces`: specs/solver/Powell.tla (outer loop of the direction-set method; MC_Powell*.cfg model-check
               its design properties and vacuity probes) and Powell runs with mystic.scipy_optimize._linesearch_powell --
               the GIVEN line search -- wrapped: every Step is logged as extrapolation part (point 2x-x1, flags fx>fx2 by
               ranks and t<0 recomputed from the documented formula for every candidate delta, optional extra line search,
               direction replacement) and direction loop (line-search chain, delta/bigind, x1/fx, energy history,
               counters, stop test) and validated against Powell.tla by specs/solver/Trace_Powell.tla.
secondary      `xcheck`: mystic fmin / fmin_powell against the vendored reference and scipy.optimize.fmin:
               (xopt, fopt, iter, funcalls) exactly equal, else a violation 'xcheck:...'.
self-test      `selftest_nmpw`: in-memory mutants of mystic, each must produce a new violation class.
entry          python -m harness.c08_nmpw --tier quick|thorough [--selftest]   (dry: writes no evidence file)

All four functions have the signature (ck, a, corrupt=False, light=False) and add their numbers to ck.extra / ck.case /
ck.trace / ck.mc / ck.assumptions.  nm_exact is dominated by one long TLC run: run it in a thread next to the others
(see run_half / main) to stay inside the wall budget.
"""
import io, os, sys, json, math, random, shutil, contextlib, itertools, types
import numpy as np
from harness.tlc import run_tlc, scratch_dir, TLCError

S = 20
UNIT = float(2 ** S)
LIMB = 2 ** 24


# =====================================================================================================
# spec -> code: NMExact behaviours replayed bit for bit
# =====================================================================================================
def xf(v):
    return v / UNIT


def ef(fam, e):
    """two-limb energy of the specification -> float (exact: < 2^53)"""
    n = e[0] * LIMB + e[1]
    assert abs(n) < 2 ** 53
    return n / UNIT if fam != "sq" else n / (UNIT * UNIT)


def exact_cost(prob):
    a = [xf(v) for v in prob["a"]]
    c = [float(v) for v in prob["c"]]
    fam = prob["fam"]
    if fam == "abs":
        def cost(x):
            return sum(ci * abs(float(xi) - ai) for xi, ai, ci in zip(x, a, c))
    elif fam == "sq":
        def cost(x):
            return sum(ci * ((float(xi) - ai) * (float(xi) - ai)) for xi, ai, ci in zip(x, a, c))
    else:
        def cost(x):
            return sum(ci * abs(abs(float(xi) - ai) - 1.0) for xi, ai, ci in zip(x, a, c))
    return cost


def rat(t):
    return t[0] / t[1]


def prob_key(p):
    return "n%d %s x0=%s a=%s c=%s r=%s ad=%s tol=%s/%s" % (
        p["n"], p["fam"], [xf(v) for v in p["x0"]], [xf(v) for v in p["a"]], p["c"], rat(p["r"]), p["ad"],
        rat(p["xtol"]), rat(p["ftol"]))


def new_nm(prob, cost):
    from mystic.solvers import NelderMeadSimplexSolver
    from mystic.termination import CandidateRelativeTolerance as CRT
    s = NelderMeadSimplexSolver(prob["n"])
    s.SetInitialPoints([xf(v) for v in prob["x0"]])
    s.SetEvaluationLimits(prob["maxiter"], prob["maxfun"])
    s.SetTermination(CRT(rat(prob["xtol"]), rat(prob["ftol"])))
    s.SetObjective(cost)
    return s


def stop_class(msg):
    if not msg:
        return ""
    if "CandidateRelativeTolerance" in msg:
        return "crt"
    if "EvaluationLimits" in msg:
        return "limit"
    return "other:" + str(msg)[:40]


def same_vertices(sim, f, esim, ef_):
    """tie case: the same (vertex, energy) pairs in an energy-sorted order"""
    got = sorted((fi, tuple(x)) for x, fi in zip(sim, f))
    exp = sorted((fi, tuple(x)) for x, fi in zip(esim, ef_))
    return got == exp and all(f[i] <= f[i + 1] for i in range(len(f) - 1))


def replay_exact(ck, item, corrupt=False):
    """one NMExact behaviour on the real solver; returns number of observations confirmed bit for bit"""
    prob, hist = item["prob"], item["hist"]
    fam = prob["fam"]
    cost = exact_cost(prob)
    key = prob_key(prob)
    s = new_nm(prob, cost)
    r, ad = rat(prob["r"]), bool(prob["ad"])
    confirmed = 0
    diverged = False
    branches = set()
    for k, o in enumerate(hist):
        if o["stop"] == "lattice":
            break                                   # the specification left the lattice: end of the exact prefix
        esim = [[xf(v) for v in x] for x in o["sim"]]
        ef_ = [ef(fam, e) for e in o["f"]]
        if corrupt and k == len(hist) // 2:
            ef_[0] += 1.0 / UNIT
        with contextlib.redirect_stdout(io.StringIO()):
            msg = s.Step(radius=r, adaptive=ad)
        sim = np.array(s.population, dtype=float).tolist()
        f = np.array(s.popEnergy, dtype=float).tolist()
        if o["br"] == "start":
            sim, f = sim[:1], f[:1]
        got = {"sim": sim, "f": f, "it": s.generations, "ev": s.evaluations, "stop": stop_class(msg)}
        exp = {"sim": esim, "f": ef_, "it": o["it"], "ev": o["ev"],
               "stop": {"": "", "crt": "crt", "maxiter": "limit", "maxfun": "limit"}[o["stop"]]}
        bad = [fld for fld in ("sim", "f", "it", "ev", "stop") if got[fld] != exp[fld]]
        if bad and o["tie"] and set(bad) <= {"sim"} and same_vertices(sim, f, esim, ef_):
            diverged = True                         # equal energies: the order is not defined by the algorithm
            ck.extra["nm_exact_tie_order_differs"] = ck.extra.get("nm_exact_tie_order_differs", 0) + 1
            break
        if bad:
            what = "+".join(bad)
            ck.violation("nm-exact:%s:%s" % (o["br"], what),
                         {"problem": key, "prob": prob, "observation#": k, "branch": o["br"], "expected": exp, "got": got},
                         "Nelder-Mead %s: after Step #%d (spec branch %s) %s differ: spec %s, mystic %s" % (
                             key, k, o["br"], what, {b: exp[b] for b in bad}, {b: got[b] for b in bad}))
            return confirmed, True
        confirmed += 1
        branches.add(o["br"])
    for b in branches:
        ck.case(nontrivial=b not in ("start", "build"), key=("exact", b, key))
    if not branches:
        ck.case(nontrivial=False, key=("exact", "none", key))

    # ---- the same behaviour through Solve() / fmin: final x, f, iterations, evaluations
    last = hist[confirmed - 1] if confirmed else None
    if last is None or diverged:
        return confirmed, False
    maxiter = prob["maxiter"] if last["stop"] != "" else last["it"]
    if maxiter < 1:
        return confirmed, False
    ex = [xf(v) for v in last["sim"][0]]
    efv = ef(fam, last["f"][0])
    exp = (ex, efv, last["it"], last["ev"])
    p2 = dict(prob, maxiter=maxiter)
    s2 = new_nm(p2, cost)
    with contextlib.redirect_stdout(io.StringIO()):
        s2.Solve(radius=r, adaptive=ad, disp=0)
    got = (np.array(s2.bestSolution, dtype=float).tolist(), float(s2.bestEnergy), s2.generations, s2.evaluations)
    if got != exp:
        ck.violation("nm-exact:solve-final", {"problem": key, "prob": p2, "expected": exp, "got": got},
                     "Nelder-Mead Solve %s maxiter=%d: spec (x,f,iters,evals) %s, mystic %s" % (key, maxiter, exp, got))
        return confirmed, True
    if prob["r"] == [1, 20] and not ad:
        from mystic.solvers import fmin
        with contextlib.redirect_stdout(io.StringIO()):
            res = fmin(cost, [xf(v) for v in prob["x0"]], xtol=rat(prob["xtol"]), ftol=rat(prob["ftol"]),
                       maxiter=maxiter, maxfun=prob["maxfun"], full_output=1, disp=0)
        got = (np.array(res[0], dtype=float).tolist(), float(res[1]), res[2], res[3])
        ck.case(nontrivial=True, key=("fmin", key, maxiter))
        if got != exp:
            ck.violation("nm-exact:fmin-final", {"problem": key, "prob": p2, "expected": exp, "got": got},
                         "fmin %s maxiter=%d: spec (x,f,iters,evals) %s, mystic %s" % (key, maxiter, exp, got))
            return confirmed, True
        exp_warn = 2 if last["it"] >= maxiter else 0
        if res[4] != exp_warn and last["ev"] < prob["maxfun"]:
            ck.violation("nm-exact:fmin-warnflag", {"problem": key, "expected": exp_warn, "got": res[4]},
                         "fmin %s: warnflag %s, expected %s" % (key, res[4], exp_warn))
    return confirmed, False


def nm_exact(ck, a, corrupt=False, light=False):
    thorough = a.tier == "thorough"
    cfg = "MC_NMExact_thorough.cfg" if thorough else "MC_NMExact_quick.cfg"
    r = run_tlc("solver/MC_NMExact", cfg=cfg, workers=1, timeout=3000, heap="6g")
    ck.mc(r, "NMExact(%s)" % cfg)
    if r.violated:
        ck.violation("spec:NMExact:" + r.violated, {"tlc": r.out[-3000:]}, "design property %s violated in NMExact.tla" % r.violated)
    items = [p for p in r.printed if isinstance(p, dict) and "hist" in p]
    nobs = 0
    stats = {}
    for i, item in enumerate(items):
        n, bad = replay_exact(ck, item, corrupt=corrupt and i == len(items) // 3)
        nobs += n
        ck.trace()
        for o in item["hist"][:n]:
            stats[o["br"]] = stats.get(o["br"], 0) + 1
        if corrupt and i == len(items) // 3:
            break
    ck.extra["nm_exact_behaviours"] = len(items)
    ck.extra["nm_exact_observations_bit_for_bit"] = nobs
    ck.extra["nm_exact_branches"] = stats
    ck.extra["nm_exact_end"] = {}
    for it in items:
        e = it["hist"][-1]["stop"]
        ck.extra["nm_exact_end"][e] = ck.extra["nm_exact_end"].get(e, 0) + 1
    if items:
        it = items[len(items) // 2]
        ck.sample({"nm_exact_problem": prob_key(it["prob"]),
                   "spec_says": [{"it": o["it"], "ev": o["ev"], "branch": o["br"], "stop": o["stop"],
                                  "best": [xf(v) for v in o["sim"][0]], "fbest": ef(it["prob"]["fam"], o["f"][0])}
                                 for o in it["hist"][:6]]})
    return len(items)


# =====================================================================================================
# code -> spec: recorded float runs validated by TLC (Trace_NM.tla, Trace_Powell.tla)
# =====================================================================================================
import copy, time, multiprocessing
from concurrent.futures import ThreadPoolExecutor
from harness import c08_rec as R

ASSUMPTIONS_NMPW = [
    "C08 code->spec: energies are compared through order-preserving ranks (ties preserved) and points/directions through "
    "ids of exact float tuples, so the specifications decide every comparison, branch, replacement and counter; "
    "the harness supplies only (a) labels = bit-for-bit equality of an evaluated point with a documented point recomputed "
    "from the pre-state with the published coefficients, (b) the outcome of the GIVEN primitives: numpy.argsort (the "
    "reference's sort; not stable) on each candidate arrangement, Brent's line search as called by the solver, the float "
    "test t < 0 of the documented formula for each candidate delta, the documented stop tests on the recorded floats",
    "C08 premise: unconstrained problems, default in-process evaluation; start points without a zero coordinate except in "
    "the dedicated zero-start class; objective values are never NaN (runs with a NaN energy are counted and skipped)",
    "C08 limitation: the floating-point interior of the Brent line search is not modelled (the given line search)",
]


def _jobs(a, cap=16):
    return max(1, min(int(getattr(a, "jobs", 4) or 4), cap))


def _pool_map(fn, specs, jobs):
    if jobs <= 1 or len(specs) < 4:
        return [fn(p) for p in specs]
    ctx = multiprocessing.get_context("fork")
    with ctx.Pool(jobs) as pool:
        return pool.map(fn, specs, chunksize=max(1, len(specs) // (jobs * 8)))


def _tlc_traces(module, traces, diag=False, timeout=1800, dev=None):
    d = scratch_dir()
    try:
        path = os.path.join(d, "traces.json")
        with open(path, "w") as f:
            json.dump(traces, f, separators=(",", ":"))
        env = {"TRACE_FILE": path}
        if diag:
            env["DIAG"] = "1"
        if dev:
            env[dev] = "1"
        return run_tlc("solver/" + module, cfg=module + ".cfg", env=env, workers=1, timeout=timeout, heap="4g")
    finally:
        shutil.rmtree(d, ignore_errors=True)


def _summary(r):
    s = [p for p in r.printed if isinstance(p, dict) and "accepted" in p]
    return s[-1] if s else None


def _diagnose(module, trace):
    """one rejected trace alone: index of the first unexplainable event and the names of the false clauses"""
    r = _tlc_traces(module, [trace], diag=True)
    if r.violated and r.kind in ("invariant", "action-property"):
        return {"at": None, "failing": ["design-property:" + r.violated], "event": None}
    s = _summary(r)
    if s is not None and not s["rejected"]:
        return None
    at = (s["prefix"][0] if s and s["prefix"] else 1)
    at = max(at, 1)
    probes = [p for p in r.printed if isinstance(p, dict) and "probe" in p and p["at"] == at]
    failing = sorted(set(x for p in probes for x in p["failing"]))
    ev = trace["ev"][at - 1] if at - 1 < len(trace["ev"]) else None
    if not failing:
        failing = ["event-not-enabled:%s" % ((ev or {}).get("t", "end-of-trace"))]
    return {"at": at - 1, "failing": failing, "event": ev, "prev": trace["ev"][at - 2] if at >= 2 else None}


def _validate(ck, module, traces, jobs, per_batch=2500, max_diag=12, deviation=None):
    """validate all traces in batches of ~per_batch events (several TLC processes at once);
    returns (verdicts: None | diagnosis per trace, merged TLC counters).
    deviation = (IOEnv name, class name): a NAMED deviation of the trace spec, disabled in the validation proper; the
    rejected traces are validated once more with it enabled -- a trace accepted only then differs from the specification
    in exactly that respect (verdict `failing` = [class name], `dev` = True: the rest of the run is validated)."""
    verdicts = [None] * len(traces)
    batches, cur, size = [], [], 0
    for i, t in enumerate(traces):
        cur.append(i)
        size += len(t["ev"])
        if size >= per_batch:
            batches.append(cur)
            cur, size = [], 0
    if cur:
        batches.append(cur)
    counts = {}

    def run(idx):
        return idx, _tlc_traces(module, [traces[i] for i in idx])
    with ThreadPoolExecutor(max_workers=max(1, min(jobs, len(batches) or 1))) as ex:
        results = list(ex.map(run, batches))
    rejected = []
    for idx, r in results:
        ck.mc(r, "%s(%d traces)" % (module, len(idx)))
        if r.violated and r.kind in ("invariant", "action-property"):
            # a design property failed in a recorded state: find the traces by validating them singly
            for i in idx:
                r1 = _tlc_traces(module, [traces[i]])
                s1 = _summary(r1)
                if r1.violated or s1 is None or s1["rejected"]:
                    rejected.append(i)
            continue
        s = _summary(r)
        if s is None:
            raise TLCError("no acceptance summary from %s:\n%s" % (module, r.out[-3000:]))
        rejected += [idx[j - 1] for j in s["rejected"]]
        for k, v in (s.get("counts") or {}).items():
            counts[k] = counts.get(k, 0) + v
    if deviation and rejected:
        r = _tlc_traces(module, [traces[i] for i in rejected], dev=deviation[0])
        ck.mc(r, "%s+%s(%d traces)" % (module, deviation[0], len(rejected)))
        s = _summary(r)
        if s is not None and not r.violated:
            still = set(rejected[j - 1] for j in s["rejected"])
            for i in rejected:
                if i not in still:
                    verdicts[i] = {"at": None, "failing": [deviation[1]], "event": None, "dev": True}
            rejected = [i for i in rejected if i in still]
    with ThreadPoolExecutor(max_workers=max(1, min(jobs, max_diag))) as ex:
        diags = list(ex.map(lambda i: _diagnose(module, traces[i]), rejected[:max_diag]))
    for nth, i in enumerate(rejected):
        if nth < max_diag:
            verdicts[i] = diags[nth] or {"at": None, "failing": ["rejected-in-batch-only"], "event": None}
        else:
            verdicts[i] = {"at": None, "failing": ["rejected-not-diagnosed(more-than-%d)" % max_diag], "event": None}
    return verdicts, counts


def _record(ck, kind, fn, specs, jobs, tag):
    """run the recorder over the problem list; raise-class results become violations; returns usable results"""
    outs = _pool_map(fn, specs, jobs)
    good, nan = [], 0
    for o in outs:
        if "error" in o:
            ck.violation("%s:raised:%s" % (tag, o["error"].split(":")[0]), {"problem": o["key"], "spec": o["spec"], "error": o["error"]},
                         "%s run %s raised %s" % (kind, o["key"], o["error"]))
        elif o["stats"]["nan"]:
            nan += 1
        else:
            good.append(o)
    return good, nan


def _report_rejected(ck, tag, o, v, what):
    cls = "zero-start:" if o["spec"].get("zero") else ""
    key = "%s:%s%s" % (tag, cls, "+".join(v["failing"]))
    ck.violation(key, {"problem": o["key"], "spec": o["spec"], "event#": v["at"], "failing_clauses": v["failing"],
                       "event": v.get("event"), "previous_event": v.get("prev"), "result": o["stats"].get("result")},
                 ("%s %s (x0=%s): accepted only with the named deviation %s" % (what, o["key"], o["spec"]["x0"], v["failing"][0]))
                 if v.get("dev") else
                 "%s %s: event #%s (%s) is not a step of the specification: %s" % (
                     what, o["key"], v["at"], (v.get("event") or {}).get("t"), ", ".join(v["failing"])))


def _add(ck, name, n):
    ck.extra[name] = ck.extra.get(name, 0) + n


def _merge(ck, name, d):
    cur = ck.extra.setdefault(name, {})
    for k, v in d.items():
        cur[k] = cur.get(k, 0) + v


def nm_traces(ck, a, corrupt=False, light=False):
    """code -> spec: Nelder-Mead runs on arbitrary float problems explained per iteration by the decision tree of NM.tla"""
    jobs = _jobs(a)
    specs = R.problems("nm", a.tier, a.seed, light=light) + R.boundary_problems("nm") + R.zero_start_problems("nm")
    outs, nan = _record(ck, "Nelder-Mead", R.record_nm, specs, jobs, "nm-trace")
    traces = [o["trace"] for o in outs]
    if corrupt and traces:
        # a recorded label of an otherwise valid trace is changed: TLC must reject exactly that trace
        done = False
        for t in traces:
            if done:
                break
            for e in t["ev"]:
                if e["t"] == "iter" and len(e["calls"]) == 2 and e["calls"][1]["labs"] and e["calls"][1]["labs"][0]["l"] == "IC":
                    e["calls"][1]["labs"] = [{"l": "OC", "j": 0}]
                    done = True
                    break
    verdicts, counts = _validate(ck, "Trace_NM", traces, jobs, max_diag=4 if light else 24)
    iters = 0
    for o, v in zip(outs, verdicts):
        st = o["stats"]
        if v is not None:
            _report_rejected(ck, "nm-trace", o, v, "Nelder-Mead")
            continue
        ck.trace()
        iters += st["iters"]
        ck.case(nontrivial=False, n=st["iters"] + 2)
        for seq in st["labelseq"]:
            ck.case(nontrivial=True, key=("nm-path", o["spec"]["fn"], o["spec"]["n"], seq), n=0)
        _merge(ck, "nm_trace_label_sequences", st["labelseq"])
        _merge(ck, "nm_trace_runs_by_mode", {o["spec"]["mode"] + ("/adaptive" if o["spec"]["adaptive"] else "") +
                                             ("/radius" if o["spec"]["radius"] != 0.05 else ""): 1})
        _merge(ck, "nm_trace_runs_by_end", {st["end"] or "none": 1})
        _merge(ck, "nm_trace_runs_by_class", {R.CATALOGUE[o["spec"]["fn"]][3]: 1})
        _add(ck, "nm_trace_objective_calls_labelled", st["calls"])
        _add(ck, "nm_trace_states_with_tied_energies", st["ties"])
        _add(ck, "nm_trace_arrangements_where_given_sort_is_not_stable", st["unstable_sort"])
        _add(ck, "nm_trace_inf_energies", st["inf"])
    _add(ck, "nm_trace_runs_validated", sum(1 for v in verdicts if v is None))
    _add(ck, "nm_trace_iterations_validated", iters)
    _add(ck, "nm_trace_runs_skipped_nan", nan)
    _merge(ck, "nm_trace_branches_taken_according_to_TLC", {k: v for k, v in counts.items() if k not in ("none",)})
    if outs:
        o = outs[len(outs) // 2]
        ck.sample({"nm_trace_problem": o["key"], "result(x,f,iter,funcalls)": o["stats"]["result"],
                   "events": o["trace"]["ev"][2:5]})
    for x in ASSUMPTIONS_NMPW:
        if x not in ck.assumptions:
            ck.assumptions.append(x)
    return len(traces)


def powell_traces(ck, a, corrupt=False, light=False):
    """code -> spec: Powell runs (given line search wrapped) explained per iteration by the outer loop of Powell.tla"""
    jobs = _jobs(a)
    thorough = a.tier == "thorough"
    if not light:
        cfgs = ["MC_Powell_thorough.cfg" if thorough else "MC_Powell_quick.cfg"] + \
               ["MC_Powell_vac_%s.cfg" % v for v in ("NeverReplaced", "NeverKept", "NeverBigindLast", "NeverDeltaZero")]

        def mc(cfg):
            return cfg, run_tlc("solver/MC_Powell", cfg=cfg, workers=1, timeout=1800, heap="2g")
        with ThreadPoolExecutor(max_workers=min(jobs, len(cfgs))) as ex:
            for cfg, r in ex.map(mc, cfgs):
                ck.mc(r, "Powell(%s)" % cfg)
                if "_vac_" in cfg:
                    if not r.violated:
                        raise RuntimeError("vacuity probe %s was not violated: the abstract Powell machine never does it" % cfg)
                elif r.violated:
                    ck.violation("spec:Powell:" + r.violated, {"tlc": r.out[-3000:]}, "design property %s violated in Powell.tla" % r.violated)
    specs = R.problems("pw", a.tier, a.seed, light=light) + R.boundary_problems("pw") + R.first_stop_problems("pw")
    outs, nan = _record(ck, "Powell", R.record_pw, specs, jobs, "powell-trace")
    traces = [o["trace"] for o in outs]
    if corrupt and traces:
        done = False
        for t in traces:
            if done:
                break
            for e in t["ev"]:
                if e["t"] == "loop" and e["post"]["bigind"] > 0:
                    e["post"]["bigind"] -= 1          # the solver "remembered" another direction than the largest decrease
                    done = True
                    break
    verdicts, counts = _validate(ck, "Trace_Powell", traces, jobs, max_diag=4 if light else 24,
                                 deviation=("DEV_FIRSTSTOP", "stop-test-not-applied-after-the-first-direction-loop(rest-of-run-validated)"))
    for i, (o, v) in enumerate(zip(outs, verdicts)):
        st = o["stats"]
        if v is not None:
            _report_rejected(ck, "powell-trace", o, v, "Powell")
            if not v.get("dev"):
                continue
            _add(ck, "powell_trace_runs_validated_with_named_deviation_DevFirstStop", 1)
        ck.trace()
        ck.case(nontrivial=False, n=st["loops"] + st["extras"] + 1)
        if st["els"]:
            ck.case(nontrivial=True, key=("powell-replaced", o["key"]), n=0)
        _merge(ck, "powell_trace_runs_by_mode", {o["spec"]["mode"] + ("/direc=" + o["spec"]["direc"] if o["spec"].get("direc") else ""): 1})
        _merge(ck, "powell_trace_runs_by_end", {st["end"] or "none": 1})
        _merge(ck, "powell_trace_runs_by_class", {R.CATALOGUE[o["spec"]["fn"]][3]: 1})
        _add(ck, "powell_trace_direction_loops_validated", st["loops"])
        _add(ck, "powell_trace_extrapolation_steps_validated", st["extras"])
        _add(ck, "powell_trace_line_searches_validated", st["ls"])
        _add(ck, "powell_trace_objective_calls", st["calls"])
    _add(ck, "powell_trace_runs_validated", sum(1 for v in verdicts if v is None))
    _add(ck, "powell_trace_runs_skipped_nan", nan)
    _merge(ck, "powell_trace_counts_according_to_TLC", counts)
    if outs:
        o = outs[len(outs) // 2]
        ck.sample({"powell_trace_problem": o["key"], "result(x,f,iter,funcalls)": o["stats"]["result"],
                   "events": o["trace"]["ev"][1:3]})
    for x in ASSUMPTIONS_NMPW:
        if x not in ck.assumptions:
            ck.assumptions.append(x)
    return len(traces)


def xcheck(ck, a, corrupt=False, light=False):
    """secondary evidence: mystic fmin / fmin_powell against the vendored reference (and scipy.optimize.fmin):
    (xopt, fopt, iter, funcalls) must be exactly equal"""
    jobs = _jobs(a)
    specs = []
    for kind in ("nm", "pw"):
        ps = [dict(p, mode="fmin", radius=0.05, adaptive=False, direc=None) for p in R.problems(kind, a.tier, a.seed + 7, light=light)]
        specs += ps + R.boundary_problems(kind) + (R.zero_start_problems(kind) if kind == "nm" else R.first_stop_problems(kind))
    outs = _pool_map(R.xcheck_one, specs, jobs)
    if corrupt and outs:
        outs[0]["res"]["vendored"] = copy.deepcopy(outs[0]["res"]["vendored"])
        if isinstance(outs[0]["res"]["vendored"], list):
            outs[0]["res"]["vendored"][3] += 1
    names = ("xopt", "fopt", "iter", "funcalls")
    n_ok = {"fmin": 0, "fmin_powell": 0}
    for o in outs:
        res, sp = o["res"], o["spec"]
        what = "fmin" if sp["kind"] == "nm" else "fmin_powell"
        cls = "zero-start:" if sp.get("zero") else ""
        m, v = res["mystic"], res["vendored"]
        if what == "fmin_powell" and isinstance(m, list) and isinstance(v, list) and v[2] == 1 and m[2] == 2:
            cls = "reference-stops-after-the-first-iteration:"
        if isinstance(m, str) or isinstance(v, str):
            if isinstance(m, str) != isinstance(v, str):
                ck.violation("xcheck:%s%s:raises-differently" % (cls, what), {"problem": o["key"], "spec": sp, "results": res},
                             "%s on %s: mystic %s, vendored reference %s" % (what, o["key"], m, v))
            else:
                _add(ck, "xcheck_both_raise", 1)
            continue
        refs = [("vendored", v)]
        sc = res.get("scipy")
        if sc is not None and not isinstance(sc, str):
            if sc == v:
                refs.append(("scipy", sc))
            else:
                _add(ck, "xcheck_scipy_differs_from_vendored_reference(not counted against mystic)", 1)
        bad = False
        for rn, rv in refs[:1]:
            diff = [names[i] for i in range(4) if m[i] != rv[i]]
            if diff:
                bad = True
                ck.violation("xcheck:%s%s-vs-%s:%s" % (cls, what, rn, "+".join(diff)), {"problem": o["key"], "spec": sp, "results": res},
                             "%s on %s (x0=%s): mystic (xopt,fopt,iter,funcalls)=%s, %s reference %s" % (what, o["key"], sp["x0"], m, rn, rv))
        ck.case(nontrivial=True, key=("xcheck", o["key"]))
        if not bad:
            n_ok[what] += 1
            if len(refs) > 1:
                _add(ck, "xcheck_fmin_also_equal_to_scipy.optimize.fmin", 1)
    _add(ck, "xcheck_fmin_equal_to_reference(xopt,fopt,iter,funcalls)", n_ok["fmin"])
    _add(ck, "xcheck_fmin_powell_equal_to_reference(xopt,fopt,iter,funcalls)", n_ok["fmin_powell"])
    return len(outs)


# =====================================================================================================
# self-test: in-memory mutants of mystic (harness/srcpatch.py), each must yield a NEW violation class
# =====================================================================================================
def _mutants_nmpw():
    import mystic.scipy_optimize as M
    from harness.srcpatch import patch
    NM, PW = M.NelderMeadSimplexSolver, M.PowellDirectionalSolver
    std = "rho = 1; chi = 2; psi = 0.5; sigma = 0.5;"
    loop2 = ("            for i in ilist:\n                direc1 = direc[i]\n                fx2 = fval\n"
             "                fval, x, direc1 = _linesearch_powell(cost, x, direc1, tol=xtol*100, maxiter=imax)\n"
             "                isnan = numpy.isinf(fx2) & numpy.isinf(fval)\n"
             "                if not isnan and (fx2 - fval) > delta:")
    return [
        ("nm", "NM rho 1 -> 1.1", lambda: patch(NM, "_Step", std, "rho = 1.1; chi = 2; psi = 0.5; sigma = 0.5;")),
        ("nm", "NM chi 2 -> 2.5", lambda: patch(NM, "_Step", std, "rho = 1; chi = 2.5; psi = 0.5; sigma = 0.5;")),
        ("nm", "NM psi 0.5 -> 0.4", lambda: patch(NM, "_Step", std, "rho = 1; chi = 2; psi = 0.4; sigma = 0.5;")),
        ("nm", "NM sigma 0.5 -> 0.75", lambda: patch(NM, "_Step", std, "rho = 1; chi = 2; psi = 0.5; sigma = 0.75;")),
        ("nm", "NM adaptive psi 0.75-1/(2n) -> 0.75-1/n",
         lambda: patch(NM, "_Step", "psi = 0.75-1/(2*dim)", "psi = 0.75-1/dim")),
        ("nm", "NM outside contraction accepted with < instead of <=", lambda: patch(NM, "_Step", "if fxc <= fxr:", "if fxc < fxr:")),
        ("nm", "NM reflection accepted with <= f[-2] instead of <", lambda: patch(NM, "_Step", "if fxr < fsim[-2]:", "if fxr <= fsim[-2]:")),
        ("nm", "NM expansion tried with <= f[0] instead of <", lambda: patch(NM, "_Step", "if fxr < fsim[0]:", "if fxr <= fsim[0]:")),
        ("nm", "NM inside contraction accepted with <= instead of <", lambda: patch(NM, "_Step", "if fxcc < fsim[-1]:", "if fxcc <= fsim[-1]:")),
        ("nm", "NM expansion accepted with <= instead of <", lambda: patch(NM, "_Step", "if fxe < fxr:", "if fxe <= fxr:")),
        ("nm", "NM shrink keeps the worst vertex instead of the best",
         lambda: patch(NM, "_Step", "sim[j] = sim[0] + sigma*(sim[j] - sim[0])", "sim[j-1] = sim[-1] + sigma*(sim[j-1] - sim[-1])")),
        ("nm", "NM shrink forgets the last vertex",
         lambda: patch(NM, "_Step", "for j in one2np1:\n", "for j in one2np1[:-1]:\n")),
        ("nm", "NM sort replaced by a stable sort (other tie order than the reference's sort)",
         lambda: patch(NM, "_Step", "ind = numpy.argsort(fsim)", "ind = numpy.argsort(fsim, kind='stable')")),
        ("nm", "NM sort with reversed tie order",
         lambda: patch(NM, "_Step", "ind = numpy.argsort(fsim)",
                       "ind = (len(fsim) - 1 - numpy.argsort(numpy.asarray(fsim)[::-1], kind='stable'))[::-1]")),
        ("nm", "NM centroid over all vertices", lambda: patch(NM, "_Step", "xbar = numpy.add.reduce(sim[:-1],0) / N", "xbar = numpy.add.reduce(sim,0) / (N+1)")),
        ("nm", "NM expansion point replaced although reflection was better (keeps xr energy with xe)",
         lambda: patch(NM, "_Step", "                    sim[-1] = xr\n                    fsim[-1] = fxr\n            else: # fsim[0] <= fxr",
                       "                    sim[-1] = xe\n                    fsim[-1] = fxe\n            else: # fsim[0] <= fxr")),
        ("nm", "NM initial simplex step 1+radius -> 1+2*radius",
         lambda: patch(NM, "_setSimplexWithinRangeBoundary", "val = x0*(1+radius)", "val = x0*(1+2*radius)")),
        ("nm", "NM evaluation counter skips the reflection call",
         lambda: patch(NM, "_Step", "            fxr = cost(xr)\n", "            fxr = cost(xr); self._fcalls[0] -= 1\n")),
        ("pw", "Powell t < 0.0 -> t <= 0.0", lambda: patch(PW, "_Step", "if t < 0.0:", "if t <= 0.0:")),
        ("pw", "Powell t < 0.0 -> t < 1e-3*delta", lambda: patch(PW, "_Step", "if t < 0.0:", "if t < 1e-3*delta:")),
        ("pw", "Powell direc[bigind] = direc[-1] dropped",
         lambda: patch(PW, "_Step", "                    direc[bigind] = direc[-1]\n", "")),
        ("pw", "Powell direc[bigind] = direc1 (new direction stored at bigind)",
         lambda: patch(PW, "_Step", "                    direc[bigind] = direc[-1]\n                    direc[-1] = direc1\n",
                       "                    direc[bigind] = direc1\n")),
        ("pw", "Powell delta/bigind updated with < (smallest decrease)",
         lambda: patch(PW, "_Step", loop2 + "\n                    delta = fx2 - fval\n                    bigind = i\n\n                # apply constraints\n                x = asarray(constraints(x), dtype='float64') #XXX: self._map?\n\n            # decouple from 'best' energy\n            self.energy_history = self.energy_history + [fval]\n\n        self.__internals",
                       loop2.replace("(fx2 - fval) > delta", "(fx2 - fval) < delta") + "\n                    delta = fx2 - fval\n                    bigind = i\n\n                # apply constraints\n                x = asarray(constraints(x), dtype='float64') #XXX: self._map?\n\n            # decouple from 'best' energy\n            self.energy_history = self.energy_history + [fval]\n\n        self.__internals")),
        ("pw", "Powell delta/bigind updated with >= (last largest decrease)",
         lambda: patch(PW, "_Step", "if not isnan and (fx2 - fval) > delta:", "if not isnan and (fx2 - fval) >= delta:", count=2)),
        ("pw", "Powell fx > fx2 test inverted", lambda: patch(PW, "_Step", "if (fx > fx2):", "if (fx < fx2):")),
        ("pw", "Powell extrapolated point 2*x - x1 -> x - x1", lambda: patch(PW, "_Step", "x2 = 2*x - x1", "x2 = x - x1")),
        ("pw", "Powell extra line search along x1 - x", lambda: patch(PW, "_Step", "direc1 = x - x1", "direc1 = x1 - x")),
        ("pw", "Powell x1 not updated after the extrapolation", lambda: patch(PW, "_Step", "            x2 = 2*x - x1\n            x1 = x.copy()\n", "            x2 = 2*x - x1\n")),
        ("pw", "Powell t formula: delta dropped from the first term", lambda: patch(PW, "_Step", "temp = (fx-fval-delta)", "temp = (fx-fval)")),
        ("pw", "Powell line-search tolerance xtol*100 -> xtol*10", lambda: patch(PW, "_Step", "tol=xtol*100", "tol=xtol*10", count=3)),
        ("pw", "Powell direction loop skips the last direction",
         lambda: patch(PW, "_Step", "            ilist = range(len(x))\n            for i in ilist:\n                direc1 = direc[i]",
                       "            ilist = range(len(x))[:max(1, len(x)-1)]\n            for i in ilist:\n                direc1 = direc[i]")),
    ]


def selftest_nmpw(a):
    """every mutant must be caught by nm_traces / powell_traces / xcheck (and nm_exact for the Nelder-Mead ones) with a
    violation class the unchanged tree does not produce; a corrupted recorded field must be caught as well"""
    from harness.core import Check, assert_repo
    import warnings
    assert_repo()
    warnings.simplefilter("ignore")
    a2 = types.SimpleNamespace(tier="quick", seed=a.seed, jobs=min(_jobs(a), 8))
    outdir = "/dev/shm/c08_nmpw_selftest_%d" % os.getpid()
    cache = {}
    real_run_tlc = run_tlc

    def cached_run_tlc(module, **kw):
        if module == "solver/MC_NMExact":
            if "r" not in cache:
                cache["r"] = real_run_tlc(module, **kw)
            return cache["r"]
        return real_run_tlc(module, **kw)

    def classes(fns, corrupt=False):
        ck = Check("C08", "model_checking", "quick", a.seed)
        ck.dry = True
        ck.outdir = outdir
        buf = io.StringIO()
        with contextlib.redirect_stdout(buf):
            for fn in fns:
                try:
                    fn(ck, a2, corrupt=corrupt, light=True)
                except TLCError:
                    raise
                except Exception as ex:
                    ck.viol_keys["raised %s: %s" % (type(ex).__name__, str(ex)[:80])] = 1
        return set(ck.viol_keys)

    globals()["run_tlc"] = cached_run_tlc
    try:
        halves = {"nm": [nm_traces, xcheck, nm_exact], "pw": [powell_traces, xcheck]}
        base = {fn: classes([fn]) for fn in (nm_traces, powell_traces, xcheck, nm_exact)}
        for fn, b in base.items():
            print("SELFTEST baseline %s (unchanged tree) violation classes: %s" % (fn.__name__, sorted(b) or "none"))
        missed = 0
        only = os.environ.get("C08_SELFTEST_ONLY", "")
        for half, name, mk in _mutants_nmpw():
            if only and only not in name:
                continue
            undo = mk()
            by = []
            try:
                for fn in halves[half]:
                    new = classes([fn]) - base[fn]
                    if new:
                        by.append("%s: %s" % (fn.__name__, "; ".join(sorted(new))[:160]))
                        if len(by) >= (1 if getattr(a, "fast", True) else 9):
                            break
            finally:
                undo()
            print("SELFTEST %s: %s   %s" % (name, "caught" if by else "MISSED", " | ".join(by)))
            sys.stdout.flush()
            missed += 0 if by else 1
        for fn in (nm_traces, powell_traces, xcheck, nm_exact):
            new = classes([fn], corrupt=True) - base[fn]
            print("SELFTEST corrupted recorded/expected value (%s): %s   %s" % (fn.__name__, "caught" if new else "MISSED", "; ".join(sorted(new))[:160]))
            missed += 0 if new else 1
        for fn in (nm_traces, powell_traces):
            if classes([fn]) != base[fn]:
                print("SELFTEST undo (%s): MISSED (classes differ after removing the mutants)" % fn.__name__)
                missed += 1
    finally:
        globals()["run_tlc"] = real_run_tlc
        shutil.rmtree(outdir, ignore_errors=True)
    return 1 if missed else 0


# =====================================================================================================
RULE_NMPW = ("a Nelder-Mead iteration is non-trivial per (function, dimension, label sequence of its calls); a Powell run when a "
             "direction was replaced; an NMExact behaviour per branch taken")


class _Forked(object):
    """run fn(ck', a, corrupt, light) in a forked child on a fresh Check and merge what it counted into ck at join().
    (A thread would do for the waiting, but the replay code redirects sys.stdout while it steps the solver, which would
    swallow VIOLATION lines printed by the other thread; the child prints its own lines to the inherited stdout.)"""
    FIELDS = ("evaluations", "nontrivial_anon", "states", "transitions", "traces", "violations")

    def __init__(self, fn, ck, a, corrupt=False, light=False):
        from harness.core import Check
        self.ck, self.name = ck, fn.__name__
        ctx = multiprocessing.get_context("fork")
        self.rx, tx = ctx.Pipe(duplex=False)
        sys.stdout.flush()

        def child():
            try:
                c = Check(ck.prop, ck.level, ck.tier, ck.seed, rule=ck.rule)
                c.dry, c.outdir = True, ck.outdir
                t = time.time()
                fn(c, a, corrupt, light)
                sys.stdout.flush()
                tx.send({"ok": True, "wall": time.time() - t, "nontrivial_keys": c.nontrivial_keys, "samples": c.samples,
                         "mc_runs": c.mc_runs, "viol_keys": c.viol_keys, "known_hits": c.known_hits, "extra": c.extra,
                         "assumptions": c.assumptions, **{f: getattr(c, f) for f in self.FIELDS}})
            except BaseException as ex:
                import traceback
                tx.send({"ok": False, "tlc": isinstance(ex, TLCError), "error": traceback.format_exc()})
            finally:
                tx.close()
                os._exit(0)
        self.p = ctx.Process(target=child)
        self.p.start()
        tx.close()

    def join(self):
        try:
            d = self.rx.recv()
        except EOFError:
            d = {"ok": False, "tlc": False, "error": "child running %s died without a result" % self.name}
        self.p.join()
        if not d["ok"]:
            raise (TLCError if d.get("tlc") else RuntimeError)("%s (forked) failed:\n%s" % (self.name, d["error"]))
        ck = self.ck
        for f in self.FIELDS:
            setattr(ck, f, getattr(ck, f) + d[f])
        ck.nontrivial_keys |= d["nontrivial_keys"]
        ck.mc_runs += d["mc_runs"]
        for s in d["samples"]:
            ck.sample(s)
        for k, v in d["viol_keys"].items():
            ck.viol_keys[k] = ck.viol_keys.get(k, 0) + v
        for k, v in d["known_hits"].items():
            ck.known_hits[k] = ck.known_hits.get(k, 0) + v
        ck.extra.update(d["extra"])
        for x in d["assumptions"]:
            if x not in ck.assumptions:
                ck.assumptions.append(x)
        return d["wall"]


def run_half(ck, a, corrupt=False, light=False, walls=None):
    """the whole Nelder-Mead / Powell half; nm_exact (mostly one long TLC run) overlaps with the trace pipelines"""
    walls = {} if walls is None else walls
    side = _Forked(nm_exact, ck, a, corrupt, light)
    try:
        for fn in (nm_traces, powell_traces, xcheck):
            t = time.time()
            fn(ck, a, corrupt=corrupt, light=light)
            walls[fn.__name__] = round(time.time() - t, 1)
    finally:
        walls["nm_exact"] = round(side.join(), 1)
    return ck


def main():
    from harness.core import Check, tier_seed, assert_repo
    import warnings
    a = tier_seed()
    assert_repo()
    warnings.simplefilter("ignore")
    if a.selftest:
        return selftest_nmpw(a)
    ck = Check("C08", "model_checking", a.tier, a.seed, rule=RULE_NMPW)
    ck.dry = True               # standalone runs of this half never write evidence/C08.json
    ck.outdir = os.path.join(ck.outdir, "nmpw_standalone")
    t0 = time.time()
    walls = {}
    run_half(ck, a, walls=walls)
    for r in ck.mc_runs:
        print("  TLC %-46s distinct %8s generated %8s  %6.1fs" % (r["model"], r["distinct_states"], r["states_generated"], r["wall_s"]))
    for k, v in sorted(ck.extra.items()):
        print("  %s: %s" % (k, v))
    print("  wall per part (nm_exact overlaps the others): %s, total %.1fs" % (walls, time.time() - t0))
    return ck.finish()


if __name__ == "__main__":
    from harness.core import main_guard
    main_guard(main)
