"""C08, Nelder-Mead and Powell half -- the optimizers implement their published algorithms.

spec -> code   specs/solver/NMExact.tla is a concrete Nelder-Mead on dyadic rationals.  TLC enumerates problems
               (start point x cost family/parameters x radius x standard/adaptive coefficients x tolerances),
               model-checks the design properties and emits per behaviour the simplex, energies, counters, branch
               and stop verdict after every Step.  `nm_exact` replays each behaviour on the real
               NelderMeadSimplexSolver Step by Step, on Solve() and on mystic fmin and compares bit for bit.
code -> spec   `nm_traces`: Nelder-Mead runs on arbitrary float problems are recorded per iteration (pre-state, the
               objective calls labelled R/E/OC/IC/S_j by recomputing the documented points, post-state) and TLC
               validates them with the decision tree of specs/solver/NM.tla (Trace_NM.tla).
               `powell_traces`: Powell runs with mystic.scipy_optimize._linesearch_powell wrapped; every iteration is
               logged (extrapolation point and flags recomputed by the documented formulas, line-search calls and
               results, post-state) and validated against specs/solver/Powell.tla (Trace_Powell.tla).
secondary      `xcheck`: mystic fmin / fmin_powell against the vendored reference and scipy.optimize (evidence only).
"""
import io, os, json, math, random, shutil, contextlib, itertools, types
import numpy as np
from harness.tlc import run_tlc, scratch_dir, TLCError

S = 20
UNIT = float(2 ** S)
LIMB = 2 ** 24


# =====================================================================================================
# spec -> code: NMExact behaviours replayed bit for bit
# =====================================================================================================
def xf(v):
    return v / UNIT


def ef(fam, e):
    """two-limb energy of the specification -> float (exact: < 2^53)"""
    n = e[0] * LIMB + e[1]
    assert abs(n) < 2 ** 53
    return n / UNIT if fam != "sq" else n / (UNIT * UNIT)


def exact_cost(prob):
    a = [xf(v) for v in prob["a"]]
    c = [float(v) for v in prob["c"]]
    fam = prob["fam"]
    if fam == "abs":
        def cost(x):
            return sum(ci * abs(float(xi) - ai) for xi, ai, ci in zip(x, a, c))
    elif fam == "sq":
        def cost(x):
            return sum(ci * ((float(xi) - ai) * (float(xi) - ai)) for xi, ai, ci in zip(x, a, c))
    else:
        def cost(x):
            return sum(ci * abs(abs(float(xi) - ai) - 1.0) for xi, ai, ci in zip(x, a, c))
    return cost


def rat(t):
    return t[0] / t[1]


def prob_key(p):
    return "n%d %s x0=%s a=%s c=%s r=%s ad=%s tol=%s/%s" % (
        p["n"], p["fam"], [xf(v) for v in p["x0"]], [xf(v) for v in p["a"]], p["c"], rat(p["r"]), p["ad"],
        rat(p["xtol"]), rat(p["ftol"]))


def new_nm(prob, cost):
    from mystic.solvers import NelderMeadSimplexSolver
    from mystic.termination import CandidateRelativeTolerance as CRT
    s = NelderMeadSimplexSolver(prob["n"])
    s.SetInitialPoints([xf(v) for v in prob["x0"]])
    s.SetEvaluationLimits(prob["maxiter"], prob["maxfun"])
    s.SetTermination(CRT(rat(prob["xtol"]), rat(prob["ftol"])))
    s.SetObjective(cost)
    return s


def stop_class(msg):
    if not msg:
        return ""
    if "CandidateRelativeTolerance" in msg:
        return "crt"
    if "EvaluationLimits" in msg:
        return "limit"
    return "other:" + str(msg)[:40]


def same_vertices(sim, f, esim, ef_):
    """tie case: the same (vertex, energy) pairs in an energy-sorted order"""
    got = sorted((fi, tuple(x)) for x, fi in zip(sim, f))
    exp = sorted((fi, tuple(x)) for x, fi in zip(esim, ef_))
    return got == exp and all(f[i] <= f[i + 1] for i in range(len(f) - 1))


def replay_exact(ck, item, corrupt=False):
    """one NMExact behaviour on the real solver; returns number of observations confirmed bit for bit"""
    prob, hist = item["prob"], item["hist"]
    fam = prob["fam"]
    cost = exact_cost(prob)
    key = prob_key(prob)
    s = new_nm(prob, cost)
    r, ad = rat(prob["r"]), bool(prob["ad"])
    confirmed = 0
    diverged = False
    branches = set()
    for k, o in enumerate(hist):
        if o["stop"] == "lattice":
            break                                   # the specification left the lattice: end of the exact prefix
        esim = [[xf(v) for v in x] for x in o["sim"]]
        ef_ = [ef(fam, e) for e in o["f"]]
        if corrupt and k == len(hist) // 2:
            ef_[0] += 1.0 / UNIT
        with contextlib.redirect_stdout(io.StringIO()):
            msg = s.Step(radius=r, adaptive=ad)
        sim = np.array(s.population, dtype=float).tolist()
        f = np.array(s.popEnergy, dtype=float).tolist()
        if o["br"] == "start":
            sim, f = sim[:1], f[:1]
        got = {"sim": sim, "f": f, "it": s.generations, "ev": s.evaluations, "stop": stop_class(msg)}
        exp = {"sim": esim, "f": ef_, "it": o["it"], "ev": o["ev"],
               "stop": {"": "", "crt": "crt", "maxiter": "limit", "maxfun": "limit"}[o["stop"]]}
        bad = [fld for fld in ("sim", "f", "it", "ev", "stop") if got[fld] != exp[fld]]
        if bad and o["tie"] and set(bad) <= {"sim"} and same_vertices(sim, f, esim, ef_):
            diverged = True                         # equal energies: the order is not defined by the algorithm
            ck.extra["nm_exact_tie_order_differs"] = ck.extra.get("nm_exact_tie_order_differs", 0) + 1
            break
        if bad:
            what = "+".join(bad)
            ck.violation("nm-exact:%s:%s" % (o["br"], what),
                         {"problem": key, "prob": prob, "observation#": k, "branch": o["br"], "expected": exp, "got": got},
                         "Nelder-Mead %s: after Step #%d (spec branch %s) %s differ: spec %s, mystic %s" % (
                             key, k, o["br"], what, {b: exp[b] for b in bad}, {b: got[b] for b in bad}))
            return confirmed, True
        confirmed += 1
        branches.add(o["br"])
    for b in branches:
        ck.case(nontrivial=b not in ("start", "build"), key=("exact", b, key))
    if not branches:
        ck.case(nontrivial=False, key=("exact", "none", key))

    # ---- the same behaviour through Solve() / fmin: final x, f, iterations, evaluations
    last = hist[confirmed - 1] if confirmed else None
    if last is None or diverged:
        return confirmed, False
    maxiter = prob["maxiter"] if last["stop"] != "" else last["it"]
    if maxiter < 1:
        return confirmed, False
    ex = [xf(v) for v in last["sim"][0]]
    efv = ef(fam, last["f"][0])
    exp = (ex, efv, last["it"], last["ev"])
    p2 = dict(prob, maxiter=maxiter)
    s2 = new_nm(p2, cost)
    with contextlib.redirect_stdout(io.StringIO()):
        s2.Solve(radius=r, adaptive=ad, disp=0)
    got = (np.array(s2.bestSolution, dtype=float).tolist(), float(s2.bestEnergy), s2.generations, s2.evaluations)
    if got != exp:
        ck.violation("nm-exact:solve-final", {"problem": key, "prob": p2, "expected": exp, "got": got},
                     "Nelder-Mead Solve %s maxiter=%d: spec (x,f,iters,evals) %s, mystic %s" % (key, maxiter, exp, got))
        return confirmed, True
    if prob["r"] == [1, 20] and not ad:
        from mystic.solvers import fmin
        with contextlib.redirect_stdout(io.StringIO()):
            res = fmin(cost, [xf(v) for v in prob["x0"]], xtol=rat(prob["xtol"]), ftol=rat(prob["ftol"]),
                       maxiter=maxiter, maxfun=prob["maxfun"], full_output=1, disp=0)
        got = (np.array(res[0], dtype=float).tolist(), float(res[1]), res[2], res[3])
        ck.case(nontrivial=True, key=("fmin", key, maxiter))
        if got != exp:
            ck.violation("nm-exact:fmin-final", {"problem": key, "prob": p2, "expected": exp, "got": got},
                         "fmin %s maxiter=%d: spec (x,f,iters,evals) %s, mystic %s" % (key, maxiter, exp, got))
            return confirmed, True
        exp_warn = 2 if last["it"] >= maxiter else 0
        if res[4] != exp_warn and last["ev"] < prob["maxfun"]:
            ck.violation("nm-exact:fmin-warnflag", {"problem": key, "expected": exp_warn, "got": res[4]},
                         "fmin %s: warnflag %s, expected %s" % (key, res[4], exp_warn))
    return confirmed, False


def nm_exact(ck, a, corrupt=False, light=False):
    thorough = a.tier == "thorough"
    cfg = "MC_NMExact_thorough.cfg" if thorough else "MC_NMExact_quick.cfg"
    r = run_tlc("solver/MC_NMExact", cfg=cfg, workers=1, timeout=3000, heap="6g")
    ck.mc(r, "NMExact(%s)" % cfg)
    if r.violated:
        ck.violation("spec:NMExact:" + r.violated, {"tlc": r.out[-3000:]}, "design property %s violated in NMExact.tla" % r.violated)
    items = [p for p in r.printed if isinstance(p, dict) and "hist" in p]
    nobs = 0
    stats = {}
    for i, item in enumerate(items):
        n, bad = replay_exact(ck, item, corrupt=corrupt and i == len(items) // 3)
        nobs += n
        ck.trace()
        for o in item["hist"][:n]:
            stats[o["br"]] = stats.get(o["br"], 0) + 1
        if corrupt and i == len(items) // 3:
            break
    ck.extra["nm_exact_behaviours"] = len(items)
    ck.extra["nm_exact_observations_bit_for_bit"] = nobs
    ck.extra["nm_exact_branches"] = stats
    ck.extra["nm_exact_end"] = {}
    for it in items:
        e = it["hist"][-1]["stop"]
        ck.extra["nm_exact_end"][e] = ck.extra["nm_exact_end"].get(e, 0) + 1
    if items:
        it = items[len(items) // 2]
        ck.sample({"nm_exact_problem": prob_key(it["prob"]),
                   "spec_says": [{"it": o["it"], "ev": o["ev"], "branch": o["br"], "stop": o["stop"],
                                  "best": [xf(v) for v in o["sim"][0]], "fbest": ef(it["prob"]["fam"], o["f"][0])}
                                 for o in it["hist"][:6]]})
    return len(items)
