"""C11, bounds collapse (collapse_cost / CollapseCost): the MASK ALGEBRA only.

The interval search of collapse_cost is not specified (stated gap).  For a family of synthetic monitors the
unmasked result D = collapse_cost(monitor) is taken from the implementation and handed to TLC
(specs/term/CollapseCost.tla) together with a mask (the unmasked result of another monitor of the family: "formatted
same as the return value"); TLC gives the documented report (intersection of bounds and mask; nothing if nothing
new), checks Narrows / FixedPoint on every case, and the harness compares with
collapse_cost(monitor, mask=..), the CollapseCost condition + collapsed(), update_mask and the re-fed output.
"""
import copy, itertools, json, os, shutil, warnings

INF = 1000000
KW = dict(clip=False, limit=1.0, samples=2)


def _num(v):
    v = float(v)
    if v == float("inf"):
        return INF
    if v == float("-inf"):
        return -INF
    if not v.is_integer():
        raise ValueError("non-integer bound %r" % v)
    return int(v)


def as_sets(d):
    """a collapse {index: [(lo,hi),..] or (lo,hi)} as {index: set of integer pairs}"""
    out = {}
    for k, v in (d or {}).items():
        v = list(v)
        if v and not hasattr(v[0], "__len__"):
            v = [tuple(v)]
        out[int(k)] = set((_num(a), _num(b)) for a, b in v)
    return out


def as_json(d):
    return [{"k": k, "iv": sorted([a, b] for a, b in s)} for k, s in sorted(as_sets(d).items())]


def from_tlc(seq):
    return dict((e["k"], set((a, b) for a, b in e["iv"])) for e in seq)


def family():
    """(description, monitor factory) -- good/bad cost profiles over integer positions, one or two parameters"""
    from mystic.monitors import Monitor
    out = []
    for L in (6, 7):
        for bits in itertools.product([0, 1], repeat=L):
            if not any(bits):
                continue
            for two in (False, True):
                if two and (sum(bits) % 2 or L == 7):
                    continue

                def make(bits=bits, two=two, L=L):
                    m = Monitor()
                    order = [(3 * i + 1) % L for i in range(L)] if L % 3 else list(range(L))
                    for i in order:
                        x = [float(i), float((2 * i) % L if L % 2 else L - 1 - i)] if two else [float(i)]
                        m(x, 0.0 if bits[i] else 5.0)
                    return m
                out.append(({"good": list(bits), "parameters": 2 if two else 1}, make))
    return out


class Stub(object):
    def __init__(self, mon):
        self._stepmon = mon
        self.energy_history = list(mon._y)


def start(thorough, run_tlc, scratch_dir, submit, cache=None):
    """build the cases from the implementation's unmasked results and start TLC on them (submit: executor.submit)"""
    import mystic.collapse as ct
    warnings.simplefilter("ignore")
    fam = family()
    distinct = {}
    for desc, make in fam:
        try:
            D = ct.collapse_cost(make(), mask=None, **KW)
            key = json.dumps(as_json(D))
        except Exception:
            continue            # the (unspecified) interval search itself failed on this profile: not a mask question
        distinct.setdefault(key, (desc, make, D))
    items = list(distinct.values())
    if not thorough:
        items = items[::2]
    cases = [(a, b) for a in range(len(items)) for b in range(len(items))]
    payload = [{"d": as_json(items[a][2]), "m": as_json(items[b][2])} for a, b in cases]

    ckey = "cost:" + json.dumps(payload)

    def tlc():
        if cache is not None and ckey in cache:      # self-test: same input, same specification
            return cache[ckey]
        r = tlc_run()
        if cache is not None:
            cache[ckey] = r
        return r

    def tlc_run():
        d = scratch_dir()
        try:
            path = os.path.join(d, "cost.json")
            with open(path, "w") as f:
                json.dump(payload, f)
            return run_tlc("term/CollapseCost", cfg="CollapseCost.cfg", env={"COST_FILE": path}, workers=1, timeout=1800)
        finally:
            shutil.rmtree(d, ignore_errors=True)
    return items, cases, submit(tlc)


def finish(ck, items, cases, r):
    import mystic.collapse as ct, mystic.termination as mt, mystic.mask as ma
    warnings.simplefilter("ignore")
    ck.mc(r, "CollapseCost.tla (mask algebra of the bounds collapse, %d cases)" % len(cases))
    if r.violated:
        ck.violation("spec:" + r.violated, {"tlc": r.out[-3000:]}, "design invariant %s violated in CollapseCost.tla" % r.violated)
        return
    undefined = 0
    for e in r.printed:
        a, b = cases[e["case"] - 1]
        desc, make, D = items[a]
        mask = items[b][2]
        if not e["defined"]:
            undefined += 1
            continue
        exp = from_tlc(e["r"])
        ck.case(nontrivial=bool(exp) or bool(mask), key=("cost", a, b))

        def bad(key, what, **detail):
            dd = {"monitor": desc, "unmasked": repr(D), "mask": repr(mask)}
            dd.update(detail)
            ck.violation("collapse_cost:" + key, dd, "collapse_cost on %s with mask %r (unmasked result %r): %s" % (desc, mask, D, what))
        try:
            mon = make()
            got_raw = ct.collapse_cost(mon, mask=copy.deepcopy(mask), **KW)
            got = as_sets(got_raw)
        except Exception as ex:
            bad("raises", "raised %r, specification %s" % (ex, exp), error=repr(ex))
            continue
        if got != exp:
            bad("report-is-bounds-intersected-with-mask", "specification %s, mystic %s" % (exp, got), expected=repr(exp), got=repr(got))
            continue
        try:
            cond = mt.CollapseCost(mask=copy.deepcopy(mask), **KW)
            msg = cond(Stub(mon), True)
            col = ct.collapsed(msg) if msg else None
            got_c = as_sets(col[cond.__doc__]) if col else {}
            new = ma.update_mask(cond, {cond.__doc__: copy.deepcopy(got_raw)}) if got else cond
            after = as_sets(ma.get_mask(new))
            again = as_sets(ct.collapse_cost(mon, mask=copy.deepcopy(ma.get_mask(new)), **KW)) if got else {}
            own = as_sets(ct.collapse_cost(mon, mask=copy.deepcopy(D), **KW)) if a == b or not from_tlc(e["self"]) else {}
        except Exception as ex:
            bad("condition-raises", "condition / update_mask raised %r" % (ex,), error=repr(ex))
            continue
        if got_c != exp:
            bad("condition-report", "CollapseCost condition reports %s, specification %s" % (got_c, exp), message=msg)
        if got and after != exp:
            bad("update-mask", "mask after update_mask is %s, specification (the reported collapse) %s" % (after, exp))
        if again or own:
            bad("fixed-point", "fed its own output as mask it reports %s again" % (again or own))
    ck.extra["collapse_cost_mask_cases"] = len(cases) - undefined
    ck.extra["collapse_cost_cases_outside_documented_mask_semantics(no overlap)"] = undefined
    if r.printed:
        e = r.printed[len(r.printed) // 3]
        a, b = cases[e["case"] - 1]
        ck.sample({"collapse_cost_unmasked": repr(items[a][2]), "mask": repr(items[b][2]), "specification_reports": e["r"]})
