"""C19 spellings and magnitudes -- the states / transitions of math/Measures replayed in OTHER concrete spellings.

spec -> code, bound to specs/math/MeasureUnits.tla (MC_MeasureUnits_{quick,deep,thorough,long}.cfg), which EXTENDS
Measures.tla.  TLC model-checks the law of units (UnitsLaw / UnitsStep: every observable is homogeneous in the weights,
positions and values, every action commutes with a change of unit) and the zero target, and emits in its header
  units     the catalogue of dyadic units <<ew, ex, ey>> (a model weight w denotes w * 2^ew, ...),
  unitsfor  the units admissible on a product of d factors (UnitOK: nothing leaves the normal double range),
  dims      the degree of every observable in the three units,
  kinds     the kind (weight / position) of every slot of the parameter vector of every shape,
then the same states / transitions as Measures.tla (plus center_mass = 0, loads without / with one value and the LONG
shapes: two-digit point counts, four to six factors).

check_C19.Replay replays all of it in ONE spelling (python floats, lists, positional arguments).  SpellReplay here replays
every state and transition once more in a spelling chosen by a deterministic rotation over
  unit   one of the admissible dyadic units (0.5, 0.125, 2^-30, 2^33, 2^-330, 2^330, 2^-1000, 2^1000, ...)
  num    python float | python int | numpy.float64 | numpy.int64 | numpy.float32 scalars  (ints only in the unit 1)
  seq    parameter vectors / rows as list | tuple | numpy array (int64 / float32 / float64 by `num`)
  pts    list | tuple | numpy int array | list of numpy.int64
  kw     positional | keyword arguments
  idx    c[m][j] | c[m - d][j - n] | c[numpy.int64(m)][numpy.int64(j)]
  ctor   the state built from point masses (lists | generators | keyword arguments) | compose | load | unflatten
  zero   a floating-point zero written 0.0 | -0.0
  sctor  the scenario built by slice assignment | scenario(pm, values) | keywords | load; empty values as [] | None | omitted
  fret   test functions returning python numbers | numpy.float64 | (pof, pof_value) the documented bool 'success'
  tol    support(tol) positional | keyword | left out when 0
  set    weight / position / centre of mass written through the point mass, the measure or the product measure
and checks after every state / transition that no argument handed to mystic was modified (argument:modified).

Expected values are TLC's: the integer the specification printed, moved to the unit by ldexp with the exponent that TLC's
`dims` table gives (an exact operation) -- on the observed side (the value mystic returns is divided by the unit, then
compared with the integer / rational of the model by the comparators of check_C19).  Only LEGAL spellings: what the
unchanged tree handles (e.g. scenario.update wants a list, values are lists, weights= does not take a generator).
"""
import math, json, hashlib
import numpy

TOL = 1e-9
F32TOL = 1e-5           # observables that involve a division, computed by mystic in float32 when the inputs are float32

NUMS = ("float", "int", "np64", "npint", "f32")
SEQS = ("list", "tuple", "array")
PTS = ("list", "tuple", "array", "npints")
IDX = ("pos", "neg", "np")
CTOR = ("raw", "gen", "kwargs", "compose", "load", "unflatten")
SCTOR = ("assign", "ctor", "ctor-kw", "load")
FRET = ("py", "np64", "bool")
TOLSP = ("pos", "kw", "default")
SETVIA = ("point", "measure", "product")


def host():
    from harness import c19_growth
    return c19_growth.host()


def digest(obj):
    return int.from_bytes(hashlib.blake2b(json.dumps(obj, sort_keys=True).encode(), digest_size=8).digest(), "big")


def short(v, n=200):
    s = repr(v)
    return s if len(s) <= n else s[:n] + "..."


def rat(r):
    return None if r[1] == 0 else r[0] / r[1]


class Spelling(object):
    """one concrete spelling of the abstract numbers / containers / calls (see the module docstring)"""

    def __init__(self, r, hdr, d, kinds, fixed=None):
        x = int.from_bytes(hashlib.blake2b(b"%d" % r, digest_size=8).digest(), "big")

        def choose(options):
            nonlocal x
            x, k = divmod(x, len(options))
            return options[k]
        self.d = d
        self.dims = hdr["dims"]
        self.kindtab = kinds
        self.unit_index = choose(hdr["unitsfor"][d - 1])                 # admissible by TLC's UnitOK
        self.unit = tuple(hdr["units"][self.unit_index - 1])
        ew, ex, ey = self.unit
        nums = ["float", "np64"]
        if self.unit == (0, 0, 0):
            nums += ["int", "npint", "int", "npint"]                       # the integer spellings exist in the unit 1 only
        if max(abs(ew) * (d + 1), 3 * abs(ex), 2 * abs(ey)) <= 60:
            nums += ["f32"]                                               # representable in float32 with room
        self.num = choose(nums)
        self.seq = choose(SEQS)
        self.pts_kind = choose(PTS)
        self.kw = choose((False, True))
        self.idx = choose(IDX)
        self.ctor = choose(CTOR)
        self.sctor = choose(SCTOR)
        self.fret = choose(FRET)
        self.tolsp = choose(TOLSP)
        self.setvia = choose(SETVIA)
        self.empty = choose(("list", "none", "omitted"))
        self.negzero = choose((False, False, True))                       # a floating-point zero is written -0.0
        if fixed:                                                         # --replay: the spelling recorded in the artefact
            self.unit = tuple(fixed["unit"])
            self.unit_index = [tuple(u) for u in hdr["units"]].index(self.unit) + 1
            self.num, self.seq, self.pts_kind, self.kw, self.idx = fixed["num"], fixed["seq"], fixed["pts"], bool(fixed["kw"]), fixed["idx"]
            self.ctor, self.sctor, self.fret, self.tolsp = fixed["ctor"], fixed["sctor"], fixed["fret"], fixed["tol"]
            self.setvia, self.empty, self.negzero = fixed["set"], fixed["empty"], bool(fixed.get("negzero"))
        self.variant = x
        self.f32 = self.num == "f32"
        self.tracked = []

    def describe(self):
        return {"unit": list(self.unit), "num": self.num, "seq": self.seq, "pts": self.pts_kind, "kw": self.kw, "idx": self.idx,
                "ctor": self.ctor, "sctor": self.sctor, "fret": self.fret, "tol": self.tolsp, "set": self.setvia, "empty": self.empty,
                "negzero": self.negzero}

    def brief(self):
        return "[unit 2^%s num=%s seq=%s pts=%s kw=%d idx=%s ctor=%s/%s fret=%s tol=%s set=%s]" % (
            list(self.unit), self.num, self.seq, self.pts_kind, self.kw, self.idx, self.ctor, self.sctor, self.fret, self.tolsp, self.setvia)

    # ---------------------------------------------------------------- numbers
    def exp(self, name):
        """binary exponent of the observable `name` in this unit, from TLC's table of degrees"""
        wd, w, x, y = self.dims[name]
        return (wd * self.d + w) * self.unit[0] + x * self.unit[1] + y * self.unit[2]

    def n(self, v):
        """the python float v written in this spelling's number type"""
        k = self.num
        if v == 0 and self.negzero:
            v = -0.0
        if k == "float":
            return float(v)
        if k == "np64":
            return numpy.float64(v)
        if k == "f32":
            return numpy.float32(v)
        if float(v).is_integer():
            return int(v) if k == "int" else numpy.int64(int(v))
        return float(v) if k == "int" else numpy.float64(v)            # a non-integral target next to integer data

    def up(self, name, v):
        """the model value v (an integer or a float from a rational) in this unit"""
        return math.ldexp(float(v), self.exp(name))

    def mk(self, name, v):
        return self.n(self.up(name, v))

    def down(self, name, got):
        """a value returned by mystic, back in model units"""
        return math.ldexp(float(got), -self.exp(name))

    def downs(self, name, seq):
        e = -self.exp(name)
        return [math.ldexp(float(v), e) for v in seq]

    def downs2(self, name, rows):
        return [self.downs(name, row) for row in rows]

    def down_points(self, points):
        e = -self.exp("pos")
        return [tuple(math.ldexp(float(v), e) for v in p) for p in points]

    def kinds(self, shape, n):
        k = self.kindtab[tuple(shape)]
        return list(k[:n]) + [3] * max(0, n - len(k))

    def down_vec(self, vec, shape):
        vec = list(vec)
        name = {1: "w", 2: "x", 3: "y"}
        return [self.down(name[k], v) for k, v in zip(self.kinds(shape, len(vec)), vec)]

    # ---------------------------------------------------------------- containers (tracked: must come back unmodified)
    def track(self, label, obj):
        if isinstance(obj, numpy.ndarray):
            snap = obj.copy()
        elif obj and isinstance(obj[0], (list, tuple, numpy.ndarray)):
            snap = [numpy.array(row, copy=True) if isinstance(row, numpy.ndarray) else list(row) for row in obj]
        else:
            snap = list(obj)
        self.tracked.append((label, obj, snap))
        return obj

    def modified(self):
        """labels of the tracked arguments that no longer hold what they were built with"""
        out = []
        for label, obj, snap in self.tracked:
            try:
                if isinstance(obj, numpy.ndarray):
                    same = obj.shape == snap.shape and obj.dtype == snap.dtype and bool((obj == snap).all())
                elif snap and isinstance(snap[0], (list, numpy.ndarray)):
                    same = len(obj) == len(snap) and all(len(a) == len(b) and all(u == v for u, v in zip(a, b)) for a, b in zip(obj, snap))
                else:
                    same = len(obj) == len(snap) and all(u == v and type(u) is type(v) for u, v in zip(obj, snap))
            except Exception:
                same = False
            if not same:
                out.append((label, short(snap), short(obj)))
        self.tracked = []
        return out

    def dtype(self):
        return {"int": numpy.int64, "npint": numpy.int64, "f32": numpy.float32}.get(self.num, numpy.float64)

    def container(self, items, label, allow=SEQS, kind=None):
        kind = kind or self.seq
        if kind not in allow:
            kind = "list"
        if kind == "tuple":
            obj = tuple(items)
        elif kind == "array":
            integral = all(isinstance(v, (int, numpy.integer)) for v in items)
            obj = numpy.array(items, dtype=self.dtype() if (integral or self.dtype() is not numpy.int64) else numpy.float64)
        else:
            obj = list(items)
        return self.track(label, obj) if label else obj

    def vector(self, ints, shape, label, allow=SEQS):
        """a parameter vector of the model (weights / positions by TLC's slot kinds, then values) in this spelling"""
        name = {1: "w", 2: "x", 3: "y"}
        return self.container([self.mk(name[k], v) for k, v in zip(self.kinds(shape, len(ints)), ints)], label, allow)

    def row(self, name, ints, label=None, allow=SEQS):
        return self.container([self.mk(name, v) for v in ints], label, allow)

    def nest(self, name, rows, label, allow=SEQS):
        kind = self.seq if self.seq in allow else "list"
        inner = [self.container([self.mk(name, v) for v in row], None, kind=kind) for row in rows]
        outer = tuple(inner) if kind == "tuple" else list(inner)         # a 2-d array is outside compose's domain (truth value)
        return self.track(label, outer)

    def pts(self, shape, label="pts"):
        k = self.pts_kind
        if k == "tuple":
            obj = tuple(int(n) for n in shape)
        elif k == "array":
            obj = numpy.array(shape, dtype=numpy.int64)
        elif k == "npints":
            obj = [numpy.int64(n) for n in shape]
        else:
            obj = [int(n) for n in shape]
        return self.track(label, obj)

    def points(self, packed, label):
        """a list of product points (the argument of _unpack / of the product-level positions setter)"""
        rows = [[self.mk("pos", v) for v in p] for p in packed]
        if self.seq == "tuple":
            obj = [tuple(r) for r in rows]
        elif self.seq == "array":
            obj = numpy.array(rows, dtype=self.dtype() if self.dtype() is not numpy.int64 or all(isinstance(v, (int, numpy.integer)) for r in rows for v in r) else numpy.float64)
        else:
            obj = [list(r) for r in rows]
        return self.track(label, obj)

    def index(self, i, n):
        return i if self.idx == "pos" else i - n if self.idx == "neg" else numpy.int64(i)

    # ---------------------------------------------------------------- functions
    def func(self, pf, kind, boolean=False):
        """the catalogue function pf (which reads model coordinates) for positions ('x') / values ('y') in this unit"""
        e = -self.unit[1] if kind == "x" else -self.unit[2]
        fret = self.fret
        if kind == "x":
            if e == 0:
                base = pf                                                 # the coordinates keep their type (int, numpy.int64, float32)
            else:
                base = lambda x: pf([math.ldexp(float(v), e) for v in x])
        else:
            base = pf if e == 0 else (lambda y: pf(math.ldexp(float(y), e)))
        if boolean and fret == "bool":
            return lambda x: bool(base(x) > 0)                            # the documented form: True for success
        if fret == "np64":
            return lambda x: numpy.float64(base(x))
        return base

    # ---------------------------------------------------------------- objects
    def build_pm(self, D, ws, xs, flat, shape, ctor=None):
        ctor = ctor or self.ctor
        if ctor == "compose":
            a, b = self.nest("xs", xs, "compose.samples"), self.nest("ws", ws, "compose.weights")
            return D.compose(samples=a, weights=b) if self.kw else D.compose(a, b)
        if ctor == "load":
            v, p = self.vector(flat, shape, "load.params"), self.pts(shape, "load.pts")
            return D.product_measure().load(params=v, pts=p) if self.kw else D.product_measure().load(v, p)
        if ctor == "unflatten":
            v, p = self.vector(flat, shape, "unflatten.params"), self.pts(shape, "unflatten.npts")
            return D.unflatten(params=v, npts=p) if self.kw else D.unflatten(v, p)
        if ctor == "gen":
            return D.product_measure(D.measure(D.point_mass(self.mk("x", x), self.mk("w", w)) for x, w in zip(xr, wr))
                                     for xr, wr in zip(xs, ws))
        if ctor == "kwargs":
            return D.product_measure(tuple(D.measure(tuple(D.point_mass(weight=self.mk("w", w), position=self.mk("x", x))
                                                           for x, w in zip(xr, wr))) for xr, wr in zip(xs, ws)))
        return D.product_measure([D.measure([D.point_mass(self.mk("x", x), self.mk("w", w)) for x, w in zip(xr, wr)])
                                  for xr, wr in zip(xs, ws)])

    def values(self, vals):
        return [self.mk("y", v) for v in vals]                            # scenario values are lists (update concatenates lists)

    def build_scen(self, D, ws, xs, vals, flat, shape, sctor=None):
        sctor = sctor or self.sctor
        if sctor == "load":
            v = self.vector(list(flat) + list(vals), shape, "scenario.load.params", allow=("list",))
            p = self.pts(shape, "scenario.load.pts")
            return D.scenario().load(params=v, pts=p) if self.kw else D.scenario().load(v, p)
        pm = self.build_pm(D, ws, xs, flat, shape, ctor=self.ctor if self.ctor in ("raw", "gen", "kwargs", "compose") else "raw")
        y = self.values(vals)
        if sctor == "ctor" and (self.variant // 4) % 2:
            pm = list(pm)                                                 # scenario(pm, ...) wraps a plain list of measures itself
        if sctor == "assign":
            s = D.scenario()
            s[:] = list(pm)
            s.values = y
            return s
        if not vals and self.empty != "list":
            if self.empty == "none":
                return D.scenario(pm=pm, values=None) if sctor == "ctor-kw" else D.scenario(pm, None)
            return D.scenario(pm=pm) if sctor == "ctor-kw" else D.scenario(pm)
        return D.scenario(pm=pm, values=y) if sctor == "ctor-kw" else D.scenario(pm, y)


class SpellReplay(object):
    """check_C19.Replay in rotating spellings; expected values are the same TLC records"""

    def __init__(self, hdr):
        self.H = host()
        self.hdr = hdr
        self.kinds = {tuple(r["sh"]): r["k"] for r in hdr["kinds"]}
        self.cases = 0
        self.nontrivial = set()
        self.traces = 0
        self.viol = {}
        self.count = {}
        self.samples = []
        self.pyfuncs = [self.H.pyfunc(f) for f in hdr["funcs"]]
        self.pyvfuncs = [self.H.pyfunc(g) for g in hdr["vfuncs"]]
        self.fixed = None

    def bump(self, k, n=1):
        self.count[k] = self.count.get(k, 0) + n

    def tally(self, K, what):
        for name, v in K.describe().items():
            self.bump("%s:%s=%s" % (what, name, "2^%s" % (v,) if name == "unit" else v))

    def violation(self, key, detail, what):
        v = self.viol.setdefault("spell:" + key, [0, detail, what])
        v[0] += 1

    def eq(self, K, key, what, got_fn, exp, ctx, cmp=None):
        try:
            got = got_fn()
        except Exception as ex:
            self.violation("%s:raises-%s" % (key, type(ex).__name__), dict(ctx, what=what, error=repr(ex)),
                           "%s raised %r in the spelling %s on %s" % (what, ex, K.brief(), self.H.brief(ctx)))
            return False
        ok = cmp(got, exp) if cmp else got == exp
        if not ok:
            self.violation(key, dict(ctx, what=what, expected=exp, got=got),
                           "%s: spec %s, mystic %s (model units) in the spelling %s on %s" % (what, short(exp), short(got), K.brief(), self.H.brief(ctx)))
        return ok

    def close(self, K, got, exp, exact=False):
        got = float(got)
        if got == exp:
            return True
        tol = F32TOL if K.f32 else (0.0 if exact else TOL)
        return abs(got - exp) <= tol * max(1.0, abs(exp))

    def arguments(self, K, ctx, where):
        for label, before, after in K.modified():
            self.violation("argument:modified:" + label.split("#")[0], dict(ctx, argument=label, before=before, after=after),
                           "%s: the caller's argument %s was modified: %s -> %s in the spelling %s on %s"
                           % (where, label, before, after, K.brief(), self.H.brief(ctx)))

    def pick(self, r, d):
        return Spelling(r, self.hdr, d, self.kinds, self.fixed)

    # ---------------------------------------------------------------- one state
    def state(self, o, r):
        H = self.H
        D, M, C = H.D, H.M, H.C
        fl, fl2, tup = H.fl, H.fl2, H.tup
        ws, xs, shape, vals = o["ws"], o["xs"], o["shape"], o["vals"]
        d = len(shape)
        K = self.pick(r, d)
        self.tally(K, "state")
        ctx = {"state": {"shape": shape, "ws": ws, "xs": xs, "vals": vals}, "spelling": K.describe()}
        flat, fvals = fl(o["flat"]), fl(vals)
        fws, fxs = fl2(ws), fl2(xs)
        pos, wts, total = tup(o["pos"]), fl(o["wts"]), float(o["total"])
        self.cases += 1
        self.nontrivial.add(digest(("s", shape, o["flat"], vals, K.describe())))
        try:
            c = K.build_pm(D, ws, xs, o["flat"], shape)
            s = K.build_scen(D, ws, xs, vals, o["flat"], shape)
        except Exception as ex:
            self.violation("construct:raises-%s" % type(ex).__name__, dict(ctx, error=repr(ex)),
                           "building the state raised %r in the spelling %s on %s" % (ex, K.brief(), H.brief(ctx)))
            return
        E = lambda key, what, fn, exp, cmp=None: self.eq(K, key, what, fn, exp, ctx, cmp)
        # (the product weights / positions of a round-tripped measure are functions of its wts / pos, compared above on c)
        pmrec = lambda p: ([int(n) for n in p.pts], K.downs2("ws", p.wts), K.downs2("xs", p.pos), K.down_vec(p.flatten(), shape))
        # structure and the parameter vector
        E("structure:pts", "product_measure.pts", lambda: [int(n) for n in c.pts], shape)
        E("structure:wts", "product_measure.wts", lambda: K.downs2("ws", c.wts), fws)
        E("structure:pos", "product_measure.pos", lambda: K.downs2("xs", c.pos), fxs)
        E("flatten:layout", "product_measure.flatten()", lambda: K.down_vec(c.flatten(), shape), flat)
        E("flatten:layout", "discrete.flatten(c)", lambda: K.down_vec(D.flatten(c), shape), flat)
        E("flatten:scenario", "scenario.flatten()", lambda: K.down_vec(s.flatten(all=True) if K.kw else s.flatten(), shape), flat + fvals)
        E("flatten:scenario", "scenario.flatten(all=False)",
          lambda: K.down_vec(s.flatten(all=False) if K.kw else s.flatten(False) if K.idx == "pos" else s.flatten(0), shape), flat)
        E("scenario:values", "scenario.values", lambda: K.downs("vals", s.values), fvals)
        # product structure
        E("weights:product", "product_measure.weights", lambda: K.downs("wts", c.weights), wts)
        E("positions:pack-order", "product_measure.positions", lambda: K.down_points(c.positions), pos)
        E("weights:product", "scenario.weights", lambda: K.downs("wts", s.weights), wts)
        E("positions:pack-order", "scenario.positions", lambda: K.down_points(s.positions), pos)
        E("structure:npts", "product_measure.npts", lambda: int(c.npts), o["npts"])
        E("mass:factor", "product_measure.mass", lambda: K.downs("mass", c.mass), fl(o["mass"]))
        E("mass:total", "sum(product_measure.weights)", lambda: K.down("total", sum(c.weights)), total)
        E("mass:total=product-of-masses", "prod(product_measure.mass)", lambda: K.down("total", math.prod(c.mass)), total)
        # round trips
        want = (shape, fws, fxs, flat)
        wantv = (shape, fws, fxs, flat + fvals)
        kwcall = lambda fn, names, *args: fn(**dict(zip(names, args))) if K.kw else fn(*args)
        E("roundtrip:load", "load(flatten(), pts)",
          lambda: pmrec(kwcall(D.product_measure().load, ("params", "pts"), c.flatten(), K.pts(shape))), want)
        E("roundtrip:load", "load(vector, pts)",
          lambda: pmrec(kwcall(D.product_measure().load, ("params", "pts"), K.vector(o["flat"], shape, "load.params"), K.pts(shape))), want)
        E("roundtrip:unflatten", "unflatten(vector, npts)",
          lambda: pmrec(kwcall(D.unflatten, ("params", "npts"), K.vector(o["flat"], shape, "unflatten.params"), K.pts(shape, "npts"))), want)
        E("roundtrip:scenario-load", "scenario().load(vector + values, pts)",
          lambda: pmrec(kwcall(D.scenario().load, ("params", "pts"), K.vector(o["flat"] + vals, shape, "scenario.load.params"), K.pts(shape))), wantv)
        E("roundtrip:scenario-load", "scenario().load(s.flatten(), s.pts)", lambda: pmrec(D.scenario().load(s.flatten(), s.pts)), wantv)
        E("roundtrip:scenario-ctor", "scenario(c, values)", lambda: pmrec(K.build_scen(D, ws, xs, vals, o["flat"], shape, sctor="ctor-kw" if K.kw else "ctor")), wantv)
        E("roundtrip:update-identity", "update(vector)",
          lambda: pmrec(kwcall(K.build_pm(D, ws, xs, o["flat"], shape).update, ("params",), K.vector(o["flat"], shape, "update.params"))), want)
        E("roundtrip:update-identity", "scenario.update(vector + values)",
          lambda: pmrec(kwcall(K.build_scen(D, ws, xs, vals, o["flat"], shape).update, ("params",),
                               K.vector(o["flat"] + vals, shape, "scenario.update.params", allow=("list",)))), wantv)
        E("roundtrip:compose-decompose", "compose(*decompose(c))", lambda: pmrec(D.compose(*D.decompose(c))), want)
        E("roundtrip:compose", "compose(x, w)", lambda: pmrec(K.build_pm(D, ws, xs, o["flat"], shape, ctor="compose")), want)
        def imposed():
            npts = K.pts(shape, "impose_measure.npts")
            way = K.variant % 4                                           # no collapses: left out | {} | a tuple of dicts | keywords
            dec = C.impose_measure(npts) if way == 0 else C.impose_measure(npts, {}, {}) if way == 1 else \
                C.impose_measure(npts, ({},), ({}, {})) if way == 2 else C.impose_measure(npts, tracking={}, noweight=())
            return K.down_vec(dec(lambda x: x)(K.vector(o["flat"], shape, "impose_measure.x")), shape)
        E("roundtrip:impose_measure", "impose_measure(pts)(identity)(vector)", imposed, flat)
        E("decompose", "decompose(c)", lambda: (lambda xw: (K.downs2("xs", xw[0]), K.downs2("ws", xw[1])))(D.decompose(c)), (fxs, fws))
        # pack / unpack and the nested <-> flat helpers
        E("pack:order", "_pack(x)", lambda: K.down_points(M._pack(K.nest("xs", xs, "_pack.samples"))), pos)
        E("unpack", "_unpack(positions, pts)", lambda: K.downs2("xs", M._unpack(K.points(o["pos"], "_unpack.samples"), K.pts(shape, "_unpack.npts"))), fxs)
        E("roundtrip:pack-unpack", "_unpack(_pack(x), pts)", lambda: K.downs2("xs", M._unpack(M._pack(K.nest("xs", xs, "_pack.samples")), K.pts(shape))), fxs)
        E("roundtrip:pack-unpack", "_pack(_unpack(p, pts))", lambda: K.down_points(M._pack(M._unpack(K.points(o["pos"], "_unpack.samples"), K.pts(shape)))), pos)
        E("nested_split", "_nested_split(vector, pts)",
          lambda: (lambda wx: (K.downs2("ws", wx[0]), K.downs2("xs", wx[1])))(M._nested_split(K.vector(o["flat"], shape, "_nested_split.params"), K.pts(shape, "_nested_split.npts"))),
          (fws, fxs))
        E("nested_split", "_nested(_flat(x), pts)", lambda: K.downs2("xs", M._nested(M._flat(K.nest("xs", xs, "_flat.params", allow=("list", "tuple"))), K.pts(shape, "_nested.npts"))), fxs)
        # statistics as explicit sums over the weighted product points
        exact = lambda g, e: self.close(K, g, e, exact=True)
        near = lambda g, e: self.close(K, g, e)
        for f, pf, rec in zip(self.hdr["funcs"], self.pyfuncs, o["fn"]):
            e, v = rat(rec["e"]), rat(rec["v"])
            fn = K.func(pf, "x")
            name = H.fname(f)
            if e is not None:
                self.eq(K, "expect:explicit-sum", "expect(%s)" % name, lambda: float(c.expect(fn)), e, dict(ctx, function=f), exact)
                self.eq(K, "expect_var:explicit-sum", "expect_var(%s)" % name, lambda: float(c.expect_var(fn)), v, dict(ctx, function=f), near)
            self.eq(K, "pof:explicit-sum", "pof(%s)" % name, lambda: K.down("pof", c.pof(K.func(pf, "x", boolean=True))), float(rec["pof"]), dict(ctx, function=f))
        for tol, mask in zip(self.hdr["tols"], o["supp"]):
            ct = K.mk("tol", tol)

            def call(fn, ct=ct, tol=tol):
                if tol == 0 and K.tolsp == "default":
                    return fn()
                return fn(tol=ct) if K.tolsp == "kw" else fn(ct)
            self.eq(K, "support:explicit", "support(%s)" % tol, lambda: K.down_points(call(c.support)), [p for p, b in zip(pos, mask) if b], dict(ctx, tol=tol))
            self.eq(K, "support_index:explicit", "support_index(%s)" % tol, lambda: [int(i) for i in call(c.support_index)],
                    [i for i, b in enumerate(mask) if b], dict(ctx, tol=tol))
        # the factor measures
        for m, fac in enumerate(o["fac"]):
            mctx = dict(ctx, factor=m)
            mo = lambda m=m: c[K.index(m, d)]
            self.eq(K, "measure:mass", "measure.mass", lambda: K.down("mass", mo().mass), float(fac["mass"]), mctx)
            self.eq(K, "measure:range", "measure.range", lambda: K.down("rng", mo().range), float(fac["rng"]), mctx)
            cm, var = rat(fac["cm"]), rat(fac["var"])
            if cm is not None:
                self.eq(K, "measure:center_mass", "measure.center_mass", lambda: K.down("cm", mo().center_mass), cm, mctx, exact)
                self.eq(K, "measure:var", "measure.var", lambda: K.down("var", mo().var), var, mctx, near)
                self.eq(K, "measure:center_mass", "product_measure.center_mass[m]", lambda: K.down("cm", c.center_mass[K.index(m, d)]), cm, mctx, exact)
        # the scenario's values
        if o["vfn"]:
            for g, pg, rec in zip(self.hdr["vfuncs"], self.pyvfuncs, o["vfn"]):
                self.eq(K, "scenario:pof_value", "pof_value(y-%s)" % g["c"], lambda: K.down("pof", s.pof_value(K.func(pg, "y", boolean=True))),
                        float(rec["pof"]), dict(ctx, function=g))
            vm = rat(o["vmean"])
            if vm is not None:
                self.eq(K, "scenario:mean_value", "mean_value()", lambda: K.down("vmean", s.mean_value()), vm, ctx, exact)
        self.arguments(K, ctx, "state")
        if len(self.samples) < 1 and d == 2 and K.unit != (0, 0, 0):
            self.samples.append({"spelling": K.describe(), "state (model units)": {"shape": shape, "flat": o["flat"], "vals": vals},
                                 "flatten() as mystic returned it": short([float(v) for v in c.flatten()], 400)})

    # ---------------------------------------------------------------- one transition
    def transition(self, o, t, r):
        """one transition of the machine, or one off-lattice call (t has den: its numbers are numerators over den)"""
        H = self.H
        D = H.D
        fl, fl2 = H.fl, H.fl2
        a = t["act"]
        op = a["op"]
        den = t.get("den", 0)
        call = den > 0
        den = float(den or 1)
        q = lambda v: v / den                                             # exact: den is 1 or 2
        qs = lambda seq: [v / den for v in seq]
        if o is None:
            ws, xs, vals, shape, flat0 = [], [], [], [], []
        else:
            ws, xs, vals, shape, flat0 = o["ws"], o["xs"], o["vals"], o["shape"], o["flat"]
        d = len(t["shape"])
        K = self.pick(r, d)
        self.tally(K, "transition")
        ctx = {"state": {"shape": shape, "ws": ws, "xs": xs, "vals": vals}, "action": a,
               "expected": {"shape": t["shape"], "flat": t["flat"], "vals": t["vals"]}, "spelling": K.describe()}
        if call:
            ctx["numbers of the action / expected vector are numerators over"] = int(den)
        exp_flat, exp_vals = qs(t["flat"]), qs(t["vals"])
        self.cases += 1
        self.traces += 1
        self.bump(("calls-off-lattice:" if call else "transitions:") + op)
        if call and K.num in ("int", "npint"):
            self.bump("calls-off-lattice:non-integral number next to %s data" % K.num)
        self.nontrivial.add(digest(("t", shape, ws, xs, vals, op, a["a"], a["b"], a["c"], a["vec"], a["sh"], int(den), K.describe())))
        # scenario.update concatenates lists: the values of a scenario that is updated are a list
        sct = K.sctor if (op != "upd" or K.sctor != "load") else "ctor"
        try:
            c = K.build_pm(D, ws, xs, flat0, shape, ctor=K.ctor if shape else "raw")
            s = K.build_scen(D, ws, xs, vals, flat0, shape, sctor=sct) if shape else D.scenario()
        except Exception as ex:
            self.violation("construct:raises-%s" % type(ex).__name__, dict(ctx, error=repr(ex)),
                           "building the state raised %r in the spelling %s on %s" % (ex, K.brief(), H.brief(ctx)))
            return
        K.modified()                                                      # construction arguments are checked in state()

        def post(key, what, run_c, run_s):
            for obj, run, want, label in ((c, run_c, exp_flat, "product_measure"), (s, run_s, exp_flat + exp_vals, "scenario")):
                if run is None:
                    continue
                try:
                    run(obj)
                    got = ([int(n) for n in obj.pts], K.down_vec(obj.flatten(), t["shape"]))
                except Exception as ex:
                    self.violation("%s:raises-%s" % (key, type(ex).__name__), dict(ctx, what=what, error=repr(ex)),
                                   "%s on a %s raised %r in the spelling %s: %s" % (what, label, ex, K.brief(), H.brief(ctx)))
                    continue
                if got != (t["shape"], want):
                    k = key
                    if got[0] == t["shape"] and got[1][:len(exp_flat)] == exp_flat:
                        k = key + ":values"
                    self.violation(k, dict(ctx, what=what, got={"pts": got[0], "flatten": got[1]}, on=label),
                                   "%s on a %s: spec pts %s vector %s, mystic pts %s vector %s (model units) in the spelling %s; %s"
                                   % (what, label, t["shape"], short(want), got[0], short(got[1]), K.brief(), H.brief(ctx)))
                self.arguments(K, ctx, what)

        if op in ("load", "append"):
            sh = a["sh"]
            key = "load" if op == "load" else "load:append"

            def run(obj):
                v, p = K.vector(qs(a["vec"]), sh, "load.params"), K.pts(sh, "load.pts")
                obj.load(params=v, pts=p) if K.kw else obj.load(v, p)
            post(key, "load(vector, pts)", run, run)
        elif op == "upd":
            def run_c(obj):
                v = K.vector(qs(a["vec"]), shape, "update.params")
                obj.update(params=v) if K.kw else obj.update(v)

            def run_s(obj):
                v = K.vector(qs(a["vec"]), shape, "scenario.update.params", allow=("list",))
                obj.update(params=v) if K.kw else obj.update(v)
            post("update:footprint", "update(vector)", run_c, run_s)
        elif op == "setw":
            m, j, n = a["a"] - 1, a["b"] - 1, shape[a["a"] - 1]
            new = list(ws[m]); new[j] = q(a["c"])

            def by_point(obj):
                obj[K.index(m, len(shape))][K.index(j, n)].weight = K.mk("w", q(a["c"]))

            def by_measure(obj):
                obj[K.index(m, len(shape))].weights = K.row("w", new, "weights=")
            post("setweight", "weight assignment", by_point if K.setvia == "point" else by_measure,
                 by_measure if K.setvia == "point" else by_point)
        elif op == "setx":
            m, j, n = a["a"] - 1, a["b"] - 1, shape[a["a"] - 1]
            new = list(xs[m]); new[j] = q(a["c"])
            packed = H._DATA_INDEX.get((tuple(t["flat"]), tuple(t["vals"]), tuple(t["shape"]))) if not call else None

            def by_point(obj):
                obj[K.index(m, len(shape))][K.index(j, n)].position = K.mk("x", q(a["c"]))

            def by_measure(obj):
                obj[K.index(m, len(shape))].positions = K.row("x", new, "positions=")

            def by_product(obj):
                obj.positions = K.points(packed, "product.positions=")
            ways = [by_point, by_measure] + ([by_product] if packed is not None else [])
            k = SETVIA.index(K.setvia) % len(ways)
            post("setposition", "position assignment", ways[k], ways[(k + 1) % len(ways)])
        elif op in ("cm", "rng", "var"):
            m, target = a["a"] - 1, rat(a["vec"])
            attr = {"cm": "center_mass", "rng": "range", "var": "var"}[op]
            fac = o["fac"][m]
            degenerate = (op == "rng" and fac["rng"] == 0) or (op == "var" and fac["var"][0] == 0)
            all_mass = all(f["mass"] != 0 for f in o["fac"])
            for obj, label in ((c, "product_measure"), (s, "scenario")):
                key = "set:" + attr + (":zero-%s-target-zero" % attr if degenerate else "")
                if op == "cm" and target == 0:
                    self.bump("transitions:cm-target-zero")
                    key = "set:center_mass:target-zero"
                mi = K.index(m, len(shape))
                value = K.mk(op, target)
                try:
                    if op == "cm" and K.setvia == "product" and all_mass and label == "product_measure":
                        cms = list(obj.center_mass)                       # the product-level setter: every factor, the others keep theirs
                        cms[m] = value
                        obj.center_mass = K.container(cms, "center_mass=")
                        self.bump("transitions:cm-through-product")
                    else:
                        setattr(obj[mi], attr, value)
                    got = K.down(op, getattr(obj[mi], attr))
                    rest = ([int(n) for n in obj.pts], K.downs2("ws", obj.wts), [K.downs("xs", p) for i, p in enumerate(obj.pos) if i != m])
                    newpos = K.downs("xs", obj[mi].positions)
                    gvals = K.downs("vals", obj.values) if label == "scenario" else None
                except Exception as ex:
                    self.violation("%s:raises-%s" % (key, type(ex).__name__), dict(ctx, error=repr(ex)),
                                   "%s = %r raised %r in the spelling %s: %s" % (attr, value, ex, K.brief(), H.brief(ctx)))
                    continue
                if not self.close(K, got, target):
                    self.violation(key, dict(ctx, target=target, got=got, positions=newpos),
                                   "measure.%s = %r achieved %r (model units; positions %s) in the spelling %s: %s"
                                   % (attr, target, got, newpos, K.brief(), H.brief(ctx)))
                exp_rest = (shape, fl2(ws), [fl(p) for i, p in enumerate(xs) if i != m])
                if rest != exp_rest or (gvals is not None and gvals != fl(vals)):
                    self.violation(key + ":footprint", dict(ctx, got=rest),
                                   "measure.%s = %r changed weights / another factor / values in the spelling %s: %s" % (attr, target, K.brief(), H.brief(ctx)))
                self.arguments(K, ctx, attr + " setter")
        else:
            raise RuntimeError("unknown action %r" % (a,))

    def summary(self):
        from harness.core import jsonable
        return {"cases": self.cases, "nontrivial": self.nontrivial, "traces": self.traces, "count": self.count,
                "viol": {k: [v[0], jsonable(v[1]), v[2]] for k, v in self.viol.items()}, "samples": self.samples}


def split_printed(printed):
    """(units header, states) of one MC_MeasureUnits run"""
    hdr = [p for p in printed if isinstance(p, dict) and "units" in p]
    states = [p for p in printed if isinstance(p, dict) and "succ" in p]
    return (hdr[0] if hdr else None), states


def replay_spelled(hdr, states, base, stride=(1, 1)):
    """every stride[0]-th state, every stride[1]-th transition and every off-lattice call once more in a rotating spelling;
    returns a picklable summary"""
    rp = SpellReplay(hdr)
    sstride, tstride = stride if isinstance(stride, (tuple, list)) else (stride, 1)
    for i, st in enumerate(states):
        o = st.get("obs")
        r = base + i
        if o is not None and i % sstride == 0:
            rp.state(o, r)
        for k, t in enumerate(st["succ"]):
            if (i + k) % tstride == 0:
                rp.transition(o, t, r * 64 + k)
        for k, t in enumerate(st.get("calls", ())):
            rp.transition(o, t, r * 64 + 32 + k)
    return rp.summary()


# ------------------------------------------------------------------------------ --replay of a spell:* artefact
def replay_spell_artifact(a):
    """TLC re-derives the expected values for the artefact's state; the state resp. the artefact's action is replayed in
    the spelling recorded in the artefact"""
    H = host()
    from harness.tlc import run_tlc
    art = json.load(open(a.replay))
    d = art["detail"]
    st, act, fixed = d["state"], d.get("action"), d["spelling"]
    want = (st["shape"], st["ws"], st["xs"], st["vals"])
    shape = st["shape"] if st["shape"] else act["sh"]
    print("replaying %s in the spelling %s: weights %s positions %s values %s%s" % (art["key"], fixed, st["ws"], st["xs"], st["vals"],
                                                                                   " action %s" % act if act else ""))
    small = len(shape) <= 3 and all(1 <= n <= 3 for n in shape)
    runs = [(cfg, {"C19_PART": H.shape_rank(shape), "C19_NPART": 39}) for cfg in
            ("MC_MeasureUnits_quick.cfg", "MC_MeasureUnits_thorough.cfg", "MC_MeasureUnits_deep.cfg")] if small else []
    runs.append((H.LONG, {"C19_PART": 0, "C19_NPART": 1, "C19_LONG": "all"}))
    done, rp = 0, None
    for cfg, env in runs:
        r = run_tlc("math/MC_MeasureUnits", cfg=cfg, workers=1, timeout=3000, heap="3g", env=env)
        hdr, states = split_printed(r.printed)
        H.replay_printed(r.printed)                                       # sets the catalogues and the index of emitted states
        for x in states:
            o = x.get("obs")
            have = (o["shape"], o["ws"], o["xs"], o["vals"]) if o else ([], [], [], [])
            if have != want:
                continue
            rp = SpellReplay(hdr)
            rp.fixed = fixed
            if act is None:
                rp.state(o, 0)
                done += 1
            for t in list(x["succ"]) + list(x.get("calls", ())):
                if act is not None and t["act"] == act:
                    rp.transition(o, t, 0)
                    done += 1
            break
        if done:
            break
    if not done:
        print("the artefact's state / action is not produced by the quick / thorough / deep / long models")
        return 2
    for key, (n, detail, what) in sorted(rp.viol.items()):
        print("VIOLATION property=C19 replay=%s" % a.replay)
        print("  %s x%d: %s" % (key, n, what[:600]))
    print("replayed %d state/transition(s): %d violations" % (done, sum(v[0] for v in rp.viol.values())))
    return 1 if rp.viol else 0


# ------------------------------------------------------------------------------ self test
def spell_mutants():
    """in-memory mutations of mystic (this process only) that the check as it was -- one spelling, integers 0..2 / -1..10,
    <= 3 factors x <= 3 points -- does not notice: (name, apply); restore() undoes all of them"""
    H = host()
    D, M = H.D, H.M
    PM, SC, ME = D.product_measure, D.scenario, D.measure
    saved = {"M.impose_mean": M.impose_mean, "D.impose_mean": D.impose_mean, "ME.positions": ME.positions, "_unpack": M._unpack,
             "SC.load": SC.load, "unflatten": D.unflatten, "mean": M.mean, "D.impose_variance": D.impose_variance,
             "M.impose_variance": M.impose_variance, "PM.center_mass": PM.center_mass, "PM.pof": PM.pof,
             "support_index": M.support_index, "support": M.support, "SC.init": SC.__init__, "PM.update": PM.update}

    def restore():
        M.impose_mean, D.impose_mean, ME.positions, M._unpack = saved["M.impose_mean"], saved["D.impose_mean"], saved["ME.positions"], saved["_unpack"]
        SC.load, D.unflatten, M.mean = saved["SC.load"], saved["unflatten"], saved["mean"]
        D.impose_variance, M.impose_variance = saved["D.impose_variance"], saved["M.impose_variance"]
        PM.center_mass, PM.pof, M.support_index, M.support = saved["PM.center_mass"], saved["PM.pof"], saved["support_index"], saved["support"]
        SC.__init__, PM.update = saved["SC.init"], saved["PM.update"]

    def m_impose_mean_keeps_dtype():      # the shifted samples are written into an array of the samples' own (integer) dtype
        def impose_mean(m, samples, weights=None):
            samples = numpy.asarray(list(samples))
            shift = m - M.mean(samples, weights)
            out = numpy.empty_like(samples)
            out[:] = samples + shift
            return list(out)
        M.impose_mean = D.impose_mean = impose_mean

    def m_position_zero_is_missing():     # positions[i] or <old position>: a position 0 counts as 'not given'
        def setp(self, positions):
            for i in range(len(positions)):
                self[i].position = positions[i] or self[i].position
        ME.positions = property(saved["ME.positions"].fget, setp)

    def m_unpack_three_factors():         # the stride of every factor after the third is that of the third
        def _unpack(samples, npts):
            out = saved["_unpack"](samples, npts)
            if len(npts) > 3:
                stride = npts[0] * npts[1]
                out[3:] = [[p[i] for p in samples][:stride * npts[2] * npts[i]:stride * npts[2]][:npts[i]] for i in range(3, len(npts))]
                out[3:] = [[p[i] for p in samples][:stride * npts[i]:stride] for i in range(3, len(npts))]
            return out
        M._unpack = _unpack

    def m_load_truncates_callers_list():  # scenario.load removes the values from the list it was handed
        def load(self, params, pts):
            out = saved["SC.load"](self, params, pts)
            if isinstance(params, list):
                del params[2 * sum(pts):]
            return out
        SC.load = load

    def m_unflatten_not_params():         # 'if not params': fine for lists and tuples, ambiguous for an array
        def unflatten(params, npts):
            if not params:
                return PM()
            return saved["unflatten"](params, npts)
        D.unflatten = unflatten

    def m_mean_tiny_total_is_zero():      # 'if wts' -> 'if abs(wts) > 1e-100'
        def mean(samples, weights=None, tol=0):
            if weights is not None and abs(float(sum(weights))) <= 1e-100:
                return sum(i * j for i, j in zip(samples, weights)) * numpy.inf
            return saved["mean"](samples, weights, tol)
        M.mean = mean

    def m_variance_absolute_threshold():  # 'if not sv' -> 'if sv < 1e-12'
        def impose_variance(v, samples, weights=None):
            sv = M.variance(list(samples), weights)
            if sv and sv < 1e-12:
                return [numpy.nan] * len(samples) if v else [float(i) for i in samples]
            return saved["M.impose_variance"](v, samples, weights)
        M.impose_variance = D.impose_variance = impose_variance

    def m_product_center_mass_first():    # product_measure.center_mass = [...] gives every factor the first target
        def setm(self, center_masses):
            for i in self:
                i.center_mass = center_masses[0]
        PM.center_mass = property(saved["PM.center_mass"].fget, setm)

    def m_pof_numpy_sign():               # numpy.sign(f(x)) <= 0: raises for the documented boolean f
        def pof(self, f):
            u = 0.0
            for x, w in zip(self.positions, self.weights):
                if numpy.sign(f(x)) <= 0:
                    u += w
            return u
        PM.pof = pof

    def m_support_absolute_epsilon():     # w > tol  ->  w - tol > 1e-15
        M.support_index = lambda weights, tol=0: [i for (i, w) in enumerate(weights) if w - tol > 1e-15]
        M.support = lambda samples, weights, tol=0: [samples[i] for (i, w) in enumerate(weights) if w - tol > 1e-15]

    def m_scenario_values_none():         # scenario(pm) keeps values=None instead of an empty list
        def init(self, pm=None, values=None):
            saved["SC.init"](self, pm, values if values is not None else [])
            if values is None:
                self._scenario__Y = None
        SC.__init__ = init

    def m_update_rounds_8_decimals():     # update stores the parameters rounded to 8 decimals
        def update(self, params):
            return saved["PM.update"](self, [round(float(p), 8) for p in params])
        PM.update = update

    cat = [("impose_mean writes the shifted points into an array of the samples' dtype (integers truncate)", m_impose_mean_keeps_dtype),
           ("measure.positions = [...] takes a position 0 for 'not given'", m_position_zero_is_missing),
           ("_unpack strides are right for <= 3 factors only", m_unpack_three_factors),
           ("scenario.load deletes the values from the caller's list", m_load_truncates_callers_list),
           ("unflatten tests 'if not params' (ambiguous for an array)", m_unflatten_not_params),
           ("mean treats a total weight <= 1e-100 as zero", m_mean_tiny_total_is_zero),
           ("impose_variance treats a variance < 1e-12 as zero", m_variance_absolute_threshold),
           ("product_measure.center_mass = [...] gives every factor the first target", m_product_center_mass_first),
           ("pof uses numpy.sign(f(x)) (raises for the documented boolean f)", m_pof_numpy_sign),
           ("support / support_index use w - tol > 1e-15", m_support_absolute_epsilon),
           ("scenario(pm) keeps values=None", m_scenario_values_none),
           ("product_measure.update rounds the parameters to 8 decimals", m_update_rounds_8_decimals)]
    return cat, restore


def corrupt_dims(hdr):                   # one degree of TLC's table falsified: pof no longer scales with the product weight
    hdr = json.loads(json.dumps(hdr))
    hdr["dims"]["pof"] = [0, 0, 0, 0]
    return hdr


def corrupt_long_state(states):          # one expected vector of a LONG state falsified
    states = json.loads(json.dumps(states))
    for st in states:
        o = st.get("obs")
        if o and (len(o["shape"]) > 3 or max(o["shape"]) > 3):
            o["flat"][-1] += 1
            return states
    return states


def selftest_work(job):
    H = host()
    r = H.tlc_part(job)
    if r.violated:
        return job, r.violated, None
    printed = r.printed
    r.clear()
    old = not job[0].startswith("MC_MeasureUnits")
    hdr, states = (None, None) if old else split_printed(printed)
    cat, restore = spell_mutants()
    out = []

    def run(printed, hdr, states):
        # as written: the old instance (the check as it was) and the LONG instance; second spelling: every new instance
        asis = {}
        if old or job[0] == H.LONG:
            res = H.replay_printed(printed)
            asis = {k: v[0] for k, v in res["viol"].items()}
        else:
            H.replay_printed([p for p in printed if isinstance(p, dict) and "funcs" in p])     # catalogues only
            H._DATA_INDEX.update({(tuple(st["obs"]["flat"]), tuple(st["obs"]["vals"]), tuple(st["obs"]["shape"])): st["obs"]["pos"]
                                  for st in states if "obs" in st})
        sp = replay_spelled(hdr, states, H.job_base(job)) if hdr is not None else {"viol": {}}
        return asis, {k: v[0] for k, v in sp["viol"].items()}
    for name, apply in cat:
        apply()
        try:
            out.append(run(printed, hdr, states))
        except Exception as ex:
            out.append(({"harness-failure:%s" % type(ex).__name__: 1}, {}))
        finally:
            restore()
    if old:
        out += [({}, {}), ({}, {})]
    else:
        out.append(run(printed, corrupt_dims(hdr), states))
        if job[0] == H.LONG:
            st2 = corrupt_long_state(states)
            out.append(run([hdr] + st2, hdr, st2))
        else:
            out.append(({}, {}))
    out.append(run(printed, hdr, states))
    return job, None, out


def selftest_spell(a):
    """every mutant must be caught by the new part (second spelling / units / LONG instance / zero target / off-lattice calls);
    printed next to it: whether the check as it was (MC_Measures_quick.cfg, replayed as written) notices it"""
    import multiprocessing as mp
    H = host()
    parts = (1, 3, 6)
    jobs = [("MC_MeasureUnits_quick.cfg", p, 8, 3, None, 1) for p in parts] + \
           [(H.LONG, 0, 1, 9, "quick", 1)] + [("MC_Measures_quick.cfg", p, 8, 3) for p in parts]
    ctx = mp.get_context("fork")
    with ctx.Pool(min(len(jobs), max(1, a.jobs))) as pool:
        results = pool.map(selftest_work, jobs, chunksize=1)
    for job, violated, out in results:
        if violated:
            print("SELFTEST spell aborted: TLC reports %s in %s" % (violated, job[0]))
            return 99
    names = [n for n, _ in spell_mutants()[0]] + ["one degree of TLC's table of units falsified (pof)", "one expected vector of a LONG state from TLC falsified",
                                                   "unmutated tree"]
    missed = 0
    for idx, name in enumerate(names):
        new, asis_new, old = {}, {}, {}
        for job, _, out in results:
            asis, sp = out[idx]
            if job[0].startswith("MC_MeasureUnits"):
                for k, v in sp.items():
                    new[k] = new.get(k, 0) + v
                for k, v in asis.items():
                    asis_new[k] = asis_new.get(k, 0) + v
            else:
                for k, v in asis.items():
                    old[k] = old.get(k, 0) + v
        n = sum(new.values()) + sum(asis_new.values())
        keys = ", ".join(sorted(dict(new, **asis_new), key=lambda k: -dict(new, **asis_new)[k])[:4])
        if name == "unmutated tree":
            print("SELFTEST spell unmutated tree: %d violations %s" % (n + sum(old.values()), keys))
            continue
        print("SELFTEST spell %s: %s (%d violations in a second spelling, %d as written on the new states; %s) [the check as it was: %s]"
              % (name, "caught" if n else "MISSED", sum(new.values()), sum(asis_new.values()), keys,
                 "n/a" if "TLC" in name else ("missed" if not old else "caught, %d" % sum(old.values()))))
        missed += 0 if n else 1
    return missed
