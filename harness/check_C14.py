"""C14 -- compiled condition and penalty functions measure exactly the stated violation.

spec -> code.  TLC explores specs/sym/LinRel.tla for every constraint text of the run's catalogue
(1, 2, 3 lines; lines  m*x_i op rhs  with m = 1 (isolated) or m # 1; all six comparators) and every
evaluation point, checks the design invariants (Orientation: the condition is satisfied iff the
relation holds; PenaltyZeroSet: penalty = 0 iff every line holds, >= 0 always; CrossZero:
penalty(constraint(x)) = 0; ScaleLemma) and emits per (text, point)
    c[k] = [q, v, e, r]   line k is in the equality list (q), its condition value is v + e*TAU,
                          r is the right-hand value (argument of the tolerance term)
    sat[k]                line k is satisfied
    p[fam,k]              [lim, q16]: the penalty for family fam and multiplier k in the reading
                          TAU -> 0+ and, in units of 1/16, for TAU = 1/4 exactly
    ind                   the text is in C13's class, so the constraint generated from it exists.
The harness renders the text (harness/linrel_common.py), calls the REAL generate_conditions /
generate_penalty / generate_constraint and compares: which list a line lands in, the condition values
(exactly; strict lines: exactly v + 1/4 with locals tol=0.25, rel=0, and within the documented tolerance
term tolerance(r) = 1e-15*(1+|r|) with the right sign under the default locals), the penalty (exactly
q16/16 in the TAU = 1/4 mode; >= lim and within the tolerance terms above lim in the default mode;
zero iff every line is satisfied, positive otherwise), and penalty(constraint(x)) == 0.
"""
import zlib
import sys, random, io, contextlib
from harness.core import Check, tier_seed, assert_repo, main_guard
from harness import linrel_common as L

RULE = ("TLC enumerates every (constraint text, evaluation point) of the bounded class [1-3 lines m*x_i op rhs, 6 comparators, "
        "m in a small set incl. negative, rhs affine/nonlinear catalogue] with the exact condition values and penalties "
        "(4 penalty families x 3 multipliers, two tolerance readings); each is replayed on the real generate_conditions/"
        "generate_penalty under a rotating variable-name scheme, tolerance mode (default 1e-15 / dyadic 1/4) and, for "
        "degree-one texts, scale 2^40/2^60; a case = (run, text, point, scheme, mode); non-trivial = at least one line is "
        "violated or an inequality is exactly on its boundary; distinct = by (run, text, point)")

RUNS = {
    "quick": [("pen1", "sym/MC_LinRel", "MC_LinRel_pen1_quick.cfg", 4),
              ("pen2", "sym/MC_LinRelSys", "MC_LinRelSys_pen2_quick.cfg", 6),
              ("pen3", "sym/MC_LinRelTri", "MC_LinRelTri_pen3_quick.cfg", 2)],
    "thorough": [("pen1", "sym/MC_LinRel", "MC_LinRel_pen1_thorough.cfg", 16),
                 ("pen2", "sym/MC_LinRelSys", "MC_LinRelSys_pen2_thorough.cfg", 16),
                 ("pen3", "sym/MC_LinRelTri", "MC_LinRelTri_pen3_thorough.cfg", 8)],
}

QUARTER = {"tol": 0.25, "rel": 0}


def new_check(a):
    return Check("C14", "exploration", a.tier, a.seed, rule=RULE)


def gather(a):
    return L.run_many(RUNS[a.tier], jobs=a.jobs)


def ptypes(mp, fam):
    return {"quad": (mp.quadratic_inequality, mp.quadratic_equality),
            "lin": (mp.linear_inequality, mp.linear_equality),
            "unif": (mp.uniform_inequality, mp.uniform_equality),
            "lagr": (mp.lagrange_inequality, mp.lagrange_equality)}[fam]


# multiplier of max(0,f)^deg in the per-line term of a (strict, hence inequality) line: (coef/k, deg)
INEQ_TERM = {"quad": (2, 2), "lin": (2, 1), "unif": (0, 0), "lagr": (1, 2)}
FAMDEG = {"quad": 2, "lin": 1, "unif": 0, "lagr": 2}


class Compiler(object):
    """conditions / penalties / constraint per text, cached within one run of the check"""
    def __init__(self, ms, mp):
        self.ms, self.mp = ms, mp
        self.c = {}

    def conditions(self, text, sch, loc):
        key = ("c", text, repr(sch.variables), sch.dim, tuple(sorted(loc.items())))
        v = self.c.get(key)
        if v is None:
            v = self.c[key] = self.ms.generate_conditions(text, variables=sch.variables, nvars=sch.dim, locals=dict(loc))
        return v

    def penalty(self, text, sch, loc, fam, k, default_ptype):
        key = ("p", text, repr(sch.variables), sch.dim, tuple(sorted(loc.items())), fam, k, default_ptype)
        v = self.c.get(key)
        if v is None:
            ineqf, eqf = self.conditions(text, sch, loc)
            if default_ptype:
                v = self.ms.generate_penalty((ineqf, eqf), k=k)
            else:
                pi, pe = ptypes(self.mp, fam)
                # the documented ways of saying which type goes with which condition, by rotation over the texts:
                # nested lists mirroring (ineqf, eqf); ONE type for everything (texts whose lines are all of one
                # kind); one flat list of conditions with one flat list of types
                form = zlib.crc32(repr(key).encode()) % 3
                if form == 1 and not (len(ineqf) and len(eqf)) and (len(ineqf) or len(eqf)):
                    v = self.ms.generate_penalty((ineqf, eqf), ptype=(pi if len(ineqf) else pe), k=k)
                elif form == 2:
                    v = self.ms.generate_penalty(list(ineqf) + list(eqf), ptype=[pi] * len(ineqf) + [pe] * len(eqf), k=k)
                else:
                    v = self.ms.generate_penalty((ineqf, eqf), ptype=([pi] * len(ineqf), [pe] * len(eqf)), k=k)
            self.c[key] = v
        return v

    def constraint(self, text, sch, loc):
        key = ("s", text, repr(sch.variables), sch.dim, tuple(sorted(loc.items())))
        v = self.c.get(key)
        if v is None:
            v = self.c[key] = self.ms.generate_constraint(
                self.ms.generate_solvers(text, variables=sch.variables, nvars=sch.dim, locals=dict(loc)))
        return v


def tau(r):
    """the documented tolerance term of mystic.math.tolerance with the default locals"""
    return 1e-15 + abs(r) * 1e-15


def replay(ck, chunk):
    import mystic.symbolic as ms
    import mystic.penalty as mp
    name, hdr, a, corrupt, (start, cases) = chunk
    n = hdr["n"]
    rels, ks, fams = hdr["rels"], hdr["ks"], hdr["fams"]
    thorough = a.tier == "thorough"
    schemes = L.schemes_for(n, thorough)
    huge = L.huge_schemes(n)
    comp = Compiler(ms, mp)
    rendered = {}
    rot = random.Random(a.seed).randrange(1000)
    sampled = 0
    nk = len(ks)
    for idx, c in enumerate(cases, start):
        s, x = c["s"], c["x"]
        recs = [rels[k - 1] for k in s]
        lines = [list(t) for t in c["c"]]
        sat = list(c["sat"])
        pens = [list(t) for t in c["p"]]
        if corrupt and idx % 89 == 0:
            lines[0][1] += 1
            pens = [[t[0] + 1, t[1] + 16] for t in pens]
        deg1 = all(rc["kind"] in ("aff", "abs") for rc in recs)
        j = idx + rot
        mode = "quarter" if j % 2 == 0 else "default"
        sch = schemes[j % len(schemes)]
        if mode == "default" and deg1 and j % 3 == 0:
            sch = huge[(j // 3) % len(huge)]
        S = sch.scale
        rk = (tuple(s), sch.name)
        rd = rendered.get(rk)
        if rd is None:
            rd = rendered[rk] = L.render_sys(recs, n, sch)
            for rhs_text, ln in zip(rd[2], lines):
                L.check_rendering(rhs_text, sch, rd[1], x, ln[3])
        text, loc0, _ = rd
        loc = dict(loc0)
        if mode == "quarter":
            loc.update(QUARTER)
        nontriv = (not all(sat)) or any(q == 0 and v == 0 for q, v, e, r in lines)
        ck.case(nontrivial=nontriv, key=(name, tuple(s), tuple(x)))
        ops = "+".join(rc["op"] for rc in recs)
        tag = ops if len(recs) == 1 else "lines=%d" % len(recs)
        xin = sch.point(x, ["float", "int", "array"][j % 3])
        detail = {"run": name, "text": text, "variables": sch.variables, "nvars": sch.dim, "locals": loc, "scheme": sch.name,
                  "mode": mode, "scale": S, "spec_point": x, "input": list(xin),
                  "expected": {"lines[q,v,e,rhs]": lines, "sat": sat}}

        def viol(what, msg, extra=None):
            ck.violation("%s:%s:%s" % (name, tag, what), dict(detail, problem=msg, **(extra or {})),
                         "%r (scheme %s, %s locals) at %r: %s" % (text, sch.name, mode, list(xin), msg))
        try:
            ineqf, eqf = comp.conditions(text, sch, loc)
            exp_in = [ln for ln in lines if ln[0] == 0]
            exp_eq = [ln for ln in lines if ln[0] == 1]
            if len(ineqf) != len(exp_in) or len(eqf) != len(exp_eq):
                viol("condition-lists", "generate_conditions returned %d inequality and %d equality conditions, the text has %d and %d" % (
                    len(ineqf), len(eqf), len(exp_in), len(exp_eq)))
                continue
            vals = [f(list(xin) if not hasattr(xin, "shape") else xin) for f in ineqf] + \
                   [f(list(xin) if not hasattr(xin, "shape") else xin) for f in eqf]
            order = [k for k, ln in enumerate(lines) if ln[0] == 0] + [k for k, ln in enumerate(lines) if ln[0] == 1]
            neq_unit = True
            for val, k in zip(vals, order):
                q, v, e, r = lines[k]
                op = recs[k]["op"]
                val = float(val)
                holds_by_value = (val == 0) if q else (val <= 0)
                if holds_by_value != sat[k]:
                    viol("orientation(%s)" % op, "line %d (%s): condition value %r says %s, the relation is %s" % (
                        k + 1, op, val, "satisfied" if holds_by_value else "violated", "satisfied" if sat[k] else "violated"),
                        {"condition_value": val})
                    continue
                if op == "!=":
                    neq_unit = neq_unit and val in (0.0, 1.0)
                    continue
                if e == 0:
                    if val != v * S:
                        viol("value(%s)" % op, "line %d (%s): condition value %r, lhs-rhs oriented is %r" % (k + 1, op, val, v * S),
                             {"condition_value": val})
                elif mode == "quarter":
                    if val != v + 0.25:
                        viol("value(%s)" % op, "line %d (%s): condition value %r, with tol=1/4 it is %r" % (k + 1, op, val, v + 0.25),
                             {"condition_value": val})
                else:
                    t = tau(r * S)
                    if abs(val - v * S) > 2 * t + 2.3e-16 * abs(v * S):
                        viol("value(%s)" % op, "line %d (%s): condition value %r is not within the tolerance term %g of %r" % (
                            k + 1, op, val, t, v * S), {"condition_value": val})
            # ---- penalties: every k for the default quadratic pair, one rotating k for the other families
            todo = [("quad", ki, True) for ki in range(nk)] + [(fams[1 + (j + m) % (len(fams) - 1)], (j + m) % nk, False) for m in range(2)]
            todo.append(("quad", j % nk, False))
            feasible = all(sat)
            for fam, ki, dflt in todo:
                k = ks[ki]
                lim, q16 = pens[fams.index(fam) * nk + ki]
                pf = comp.penalty(text, sch, loc, fam, k, dflt)
                got = float(pf(list(xin) if not hasattr(xin, "shape") else xin))
                pd = {"penalty": got, "family": fam, "k": k, "spec_lim": lim, "spec_q16": q16}
                if feasible and got != 0:
                    viol("penalty-nonzero-on-feasible:%s" % fam, "%s penalty (k=%s) is %r at a point satisfying every line" % (fam, k, got), pd)
                    continue
                if not feasible and not got > 0:
                    viol("penalty-not-positive:%s" % fam, "%s penalty (k=%s) is %r at a point violating a line" % (fam, k, got), pd)
                    continue
                if not neq_unit:
                    continue
                if mode == "quarter":
                    if got != q16 / 16.0:
                        viol("penalty-sum:%s" % fam, "%s penalty (k=%s) is %r, the sum of the documented per-line terms is %r" % (
                            fam, k, got, q16 / 16.0), pd)
                else:
                    base = lim * float(S) ** FAMDEG[fam] if fam != "unif" else float(lim)
                    # '!=' lines contribute k*1 whatever the scale: TLC's lim counts them once per unit; rescale apart
                    if S != 1 and fam != "unif":
                        nneq = sum(1 for kk, ln in enumerate(lines) if recs[kk]["op"] == "!=" and not sat[kk])
                        base = (lim - k * nneq) * float(S) ** FAMDEG[fam] + k * nneq
                    coef, deg = INEQ_TERM[fam]
                    slack = 0.0
                    for kk, (q, v, e, r) in enumerate(lines):
                        if e == 1 and not sat[kk]:
                            t2 = 2 * tau(r * S) + 2.3e-16 * abs(v * S)
                            slack += coef * k * ((v * S + t2) ** deg - (v * S) ** deg)
                    if not (got >= base * (1 - 1e-15) and got <= (base + slack) * (1 + 1e-12)):
                        viol("penalty-sum:%s" % fam, "%s penalty (k=%s) is %r, the sum of the documented per-line terms is %r (+ at most %g of tolerance terms)" % (
                            fam, k, got, base, slack), pd)
            # ---- the conditions joined by a coupler (join=and_): zero exactly where every line holds, positive elsewhere
            if j % 4 == 1 and neq_unit:
                from mystic.coupler import and_ as _pand
                pj = comp.c.get(("join", text, sch.name, mode))
                if pj is None:
                    pj = comp.c[("join", text, sch.name, mode)] = ms.generate_penalty((ineqf, eqf), join=_pand, k=ks[j % nk])
                gotj = float(pj(list(xin) if not hasattr(xin, "shape") else xin))
                if (gotj == 0) != feasible or gotj < 0:
                    viol("joined-penalty(and_):%s" % ("nonzero-on-feasible" if feasible else "not-positive"),
                         "generate_penalty(conditions, join=and_) is %r at a point that %s" % (
                             gotj, "satisfies every line" if feasible else "violates a line"), {"penalty": gotj})
            # ---- cross property: penalty(constraint(x)) == 0
            if c["ind"]:
                cons = comp.constraint(text, sch, loc)
                y = cons(sch.point(x, ["float", "int", "array"][j % 3]))
                for fam, ki, dflt in todo[:1] + todo[3:]:
                    pf = comp.penalty(text, sch, loc, fam, ks[ki], dflt)
                    got = float(pf(y))
                    if got != 0:
                        viol("penalty-after-constraint:%s" % fam, "penalty(constraint(x)) = %r for %s (k=%s), constraint(x) = %r" % (
                            got, fam, ks[ki], list(y)), {"constrained": list(y)})
                ck.trace()
            if sampled < 3 and nontriv and len(recs) > 1 and not all(sat) and sch is not schemes[0]:
                sampled += 1
                ck.sample({"run": name, "text": text, "variables": sch.variables, "nvars": sch.dim, "locals": loc, "point": list(xin),
                           "condition_values": [float(v) for v in vals], "spec_lines[q,v,e,rhs]": lines, "spec_sat": sat,
                           "spec_penalties[lim,q16] (families %s x k %s)" % (fams, ks): pens})
        except Exception as ex:
            detail["error"] = repr(ex)
            if any(nm in "abs" for nm in sch.names) and "abs(" in text:
                vkey = "name-collision:variable-name-inside-abs:raises:%s" % type(ex).__name__
            else:
                vkey = "%s:raises:%s:scheme=%s" % (name, type(ex).__name__, sch.name.split("*")[0])
            ck.violation(vkey, detail, "%r (variables=%r) at %r raised %r" % (text, sch.variables, x, ex))


def explore(ck, a, runs, corrupt=False, only=None, stride=1):
    import warnings
    warnings.simplefilter("ignore")
    ck.exhaustive = stride == 1
    for name, hdr, cases, res in runs:
        bad = L.first_violation(res)
        if bad is not None:
            ck.violation("spec:" + bad.violated, {"tlc": bad.out[-4000:]}, "TLC: design invariant %s violated in LinRel (%s)" % (bad.violated, name))
        ck.mc(L.merged(res), "LinRel/" + name)
        if only and name not in only:
            continue
        if stride > 1:
            cases = cases[::stride]
        chunks = [(name, hdr, a, corrupt, sl) for sl in L.chunked(cases, 4 * a.jobs if len(cases) > 2000 else 1)]
        L.parallel_replay(ck, replay, chunks, a.jobs)
    ck.assumptions = [
        "evaluation points are integer vectors (times 2^40 / 2^60 in the huge-magnitude schemes) and coefficients small integers, "
        "so lhs-rhs and the penalties are computed exactly in IEEE arithmetic and compared with TLC's integers",
        "strict comparators: exact comparison with locals tol=0.25, rel=0; with the default locals the value must have the right "
        "sign and lie within 2*tolerance(rhs) (+ one rounding) of lhs-rhs, tolerance(rhs) = 1e-15 + |rhs|*1e-15 as documented",
        "penalty families quadratic (also as the default ptype), linear, uniform (finite k) and lagrange at iteration 0, h unused; "
        "barrier_inequality is not zero on the feasible set by its own documentation and is left to C15",
        "'!=' lines: only 'value = 0 iff the line holds' is demanded of the condition; the exact penalty sum is compared when the "
        "violated value is the truth value 1 (as implemented)",
        "huge magnitudes rest on ScaleLemma of LinRel.tla (TLC: S in {2, 1000}; harness: S = 2^40, 2^60), degree-one texts only",
        "rendering of relation records as text (harness/linrel_common.py) is a documented bijection guarded against TLC's right-hand values"]


# ------------------------------------------------------------------------------------------------
def selftest(a, runs):
    import re
    import mystic.symbolic as ms
    import mystic.penalty as mp
    import mystic.math as mm
    from mystic.tools import flatten
    orig_pp, orig_gp, orig_tol = ms.penalty_parser, ms.generate_penalty, mm.tolerance
    orig_pen = {k: getattr(mp, k) for k in ("quadratic_inequality", "uniform_inequality", "linear_equality")}
    only = ["pen1", "pen2"]
    ck0 = new_check(a)
    ck0.outdir = "/dev/shm/verif_selftest_C14"
    with contextlib.redirect_stdout(io.StringIO()):
        explore(ck0, a, runs, only=only, stride=3)
    baseline = set(ck0.viol_keys)

    def wrap_pp(fi, fe=None, swap=False):
        fe = fe or fi
        def penalty_parser(constraints, variables='x', nvars=None):
            ineq, eq = orig_pp(constraints, variables=variables, nvars=nvars)
            ineq, eq = tuple(fi(e) for e in ineq), tuple(fe(e) for e in eq)
            return (eq, ineq) if swap else (ineq, eq)
        return penalty_parser

    def m_no_negation():
        ms.penalty_parser = wrap_pp(lambda e: e[2:-1] if e.startswith("-(") else e, lambda e: e)

    def m_swap_lists():
        ms.penalty_parser = wrap_pp(lambda e: e, swap=True)

    def m_eps_sign():
        ms.penalty_parser = wrap_pp(lambda e: re.sub(r"([+-]) _tol\(", lambda m: ("- " if m.group(1) == "+" else "+ ") + "_tol(", e))

    def m_tol_zero():
        mm.tolerance = lambda x, tol=1e-15, rel=1e-15: 0.0

    def m_drop_line():
        def generate_penalty(conditions, ptype=None, join=None, **kwds):
            fc = list(flatten(conditions))
            if len(fc) < 2:
                return orig_gp(conditions, ptype, join, **kwds)
            fp = None if ptype is None else list(flatten(ptype))[:-1]
            return orig_gp(fc[:-1], fp, join, **kwds)
        ms.generate_penalty = generate_penalty

    def simple_penalty(name, term):
        def ptype(condition=lambda x: 0., args=None, kwds=None, k=100, h=5):
            def dec(f):
                def func(x, *argz, **kwdz):
                    return term(condition(x), k) + f(x, *argz, **kwdz)
                func.func = condition
                func.ptype = name
                return func
            return dec
        ptype.__name__ = name
        return ptype

    def m_quad_factor():
        mp.quadratic_inequality = simple_penalty("quadratic_inequality", lambda pf, k: float(k) * max(0., pf) ** 2)

    def m_uniform_boundary():
        mp.uniform_inequality = simple_penalty("uniform_inequality", lambda pf, k: float(k) if pf >= 0 else 0.0)

    def m_linear_signed():
        mp.linear_equality = simple_penalty("linear_equality", lambda pf, k: float(k) * pf)

    def m_x10():
        def penalty_parser(constraints, variables='x', nvars=None):
            if isinstance(variables, str):
                constraints = re.sub(r"\b%s1(\d)\b" % variables, variables + "1", constraints)
            return orig_pp(constraints, variables=variables, nvars=nvars)
        ms.penalty_parser = penalty_parser

    mutants = [("penalty_parser: orientation of '>' / '>=' not negated", m_no_negation, False),
               ("penalty_parser: equality and inequality lists swapped", m_swap_lists, False),
               ("penalty_parser: epsilon sign flipped", m_eps_sign, False),
               ("math.tolerance returns 0 (strict boundary counted as satisfied)", m_tol_zero, False),
               ("generate_penalty drops the last line from the sum", m_drop_line, False),
               ("quadratic_inequality: factor 2 dropped", m_quad_factor, False),
               ("uniform_inequality penalises the boundary", m_uniform_boundary, False),
               ("linear_equality without abs()", m_linear_signed, False),
               ("index replacement reads x10/x11 as x1", m_x10, False),
               ("corrupted expectation from TLC", lambda: None, True)]
    missed = 0
    for nm, mut, corrupt in mutants:
        mut()
        ck = new_check(a)
        ck.outdir = "/dev/shm/verif_selftest_C14"
        with contextlib.redirect_stdout(io.StringIO()):
            try:
                explore(ck, a, runs, corrupt=corrupt, only=only, stride=3)
            except Exception as ex:
                ck.violations += 1
                ck.viol_keys["mutant-raised:" + type(ex).__name__] = 1
        ms.penalty_parser, ms.generate_penalty, mm.tolerance = orig_pp, orig_gp, orig_tol
        for k, v in orig_pen.items():
            setattr(mp, k, v)
        new = [k for k in sorted(ck.viol_keys) if k not in baseline]
        print("SELFTEST %s: %s (%d violations, e.g. %s)" % (nm, "caught" if new else "MISSED", ck.violations, new[:2]))
        missed += 0 if new else 1
    import shutil
    shutil.rmtree("/dev/shm/verif_selftest_C14", ignore_errors=True)
    return 1 if missed else 0


def replay_artefact(path):
    """bin/check C14 --replay out/C14/replay_*.json : evaluate the recorded text again on the current tree"""
    import json, warnings
    warnings.simplefilter("ignore")
    import mystic.symbolic as ms
    d = json.load(open(path))["detail"]
    ineqf, eqf = ms.generate_conditions(d["text"], variables=d["variables"], nvars=d["nvars"], locals=dict(d["locals"]))
    x = list(d["input"])
    lines, sat = d["expected"]["lines[q,v,e,rhs]"], d["expected"]["sat"]
    order = [k for k, ln in enumerate(lines) if ln[0] == 0] + [k for k, ln in enumerate(lines) if ln[0] == 1]
    vals = [float(f(list(x))) for f in ineqf] + [float(f(list(x))) for f in eqf]
    ok = len(vals) == len(lines)
    for val, k in zip(vals, order):
        ok = ok and (((val == 0) if lines[k][0] else (val <= 0)) == sat[k])
    pen = float(ms.generate_penalty((ineqf, eqf), k=1)(list(x)))
    ok = ok and ((pen == 0) == all(sat)) and pen >= 0
    print("%r (variables=%r, locals=%r) at %r: conditions %r (inequalities first), default penalty k=1: %r" % (
        d["text"], d["variables"], d["locals"], x, vals, pen))
    print("spec: lines [q,v,e,rhs] %r satisfied %r" % (lines, sat))
    print("replay: %s" % ("orientation and zero set hold on this case now" if ok else "VIOLATION reproduced"))
    return 0 if ok else 1


def main():
    a = tier_seed()
    assert_repo()
    if a.replay:
        try:
            return replay_artefact(a.replay)
        except (KeyError, OSError, ValueError):
            raise                                   # unreadable artefact: machinery failure
        except Exception as ex:                     # mystic raised on the recorded case
            print("replay: VIOLATION reproduced (%r)" % ex)
            return 1
    ck = new_check(a)
    runs = gather(a)
    if a.selftest:
        return selftest(a, runs)
    explore(ck, a, runs)
    return ck.finish()


if __name__ == "__main__":
    main_guard(main)
