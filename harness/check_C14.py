"""C14 -- compiled condition and penalty functions measure exactly the stated violation.

spec -> code.  TLC explores specs/sym/LinRel.tla for every constraint text of the run's catalogue
(1, 2, 3 lines; lines  m*x_i op rhs  with m = 1 (isolated) or m # 1; all six comparators) and every
evaluation point, checks the design invariants (Orientation: the condition is satisfied iff the
relation holds; PenaltyZeroSet: penalty = 0 iff every line holds, >= 0 always; CrossZero:
penalty(constraint(x)) = 0; ScaleLemma) and emits per (text, point)
    c[k] = [q, v, e, r]   line k is in the equality list (q), its condition value is v + e*TAU,
                          r is the right-hand value (argument of the tolerance term)
    sat[k]                line k is satisfied
    p[fam,k]              [lim, q16]: the penalty for family fam and multiplier k in the reading
                          TAU -> 0+ and, in units of 1/16, for TAU = 1/4 exactly
    ind                   the text is in C13's class, so the constraint generated from it exists.
The harness renders the text (harness/linrel_common.py), calls the REAL generate_conditions /
generate_penalty / generate_constraint and compares: which list a line lands in, the condition values
(exactly; strict lines: exactly v + 1/4 with locals tol=0.25, rel=0, and within the documented tolerance
term tolerance(r) = 1e-15*(1+|r|) with the right sign under the default locals), the penalty (exactly
q16/16 in the TAU = 1/4 mode; >= lim and within the tolerance terms above lim in the default mode;
zero iff every line is satisfied, positive otherwise), and penalty(constraint(x)) == 0.

Spellings and boundary values (rotation deterministic in case index + seed, counted in the evidence, `spellings_replayed`):
  texts      as in C13 (number formats, white-space layouts incl. the docstring layout, one string / tuple / list of
             strings, '=' / '=='); run "penlong": multi-digit constants and coefficients (10, 12, 100; m = 10, -12)
  tolerance  default 1e-15; tol=1/4, rel=0; tol=0 (falsy), rel=1/4 (third reading r16 of the spec, where defined)
  k          0 (falsy: the penalty vanishes, KZero), 1, 3, 100 as int / float / numpy.int64 / numpy.float64, in the
             k-units 1, 1/2, 2^-20, 2^30 (k is a factor of the sum by definition); h omitted / 7 / 0 (n = 0: no effect)
  arguments  nvars given / omitted, locals dict / None / omitted, a single condition as the bare function, ptype forms
  points     list of float / int / numpy.float64 / numpy.int64, tuple, -0.0, float64 / int64 ndarray (read-only use)
  units      1; 2^40, 2^60; 2^-30; 2^-400 (texts with =, <=, >= only)
"""
import zlib
import sys, random, io, contextlib
from harness.core import Check, tier_seed, assert_repo, main_guard
from harness import linrel_common as L

RULE = ("TLC enumerates every (constraint text, evaluation point) of the bounded class [1-3 lines m*x_i op rhs, 6 comparators, "
        "m in a small set incl. negative, rhs affine/nonlinear catalogue] with the exact condition values and penalties "
        "(4 penalty families x 3 multipliers, two tolerance readings); each is replayed on the real generate_conditions/"
        "generate_penalty under a rotating SPELLING: variable-name scheme, number format, white-space layout, container of the point "
        "(lists of float / int / numpy scalars, tuple, -0.0, float64 / int64 ndarray), arguments given or omitted, tolerance mode "
        "(default 1e-15 / tol=1/4 rel=0 / tol=0 rel=1/4), multiplier k in {0, 1, 3, 100} as int / float / numpy scalar in the k-units "
        "1, 1/2, 2^-20, 2^30, h given or omitted and, for degree-one texts, the units 2^40, 2^60, 2^-30, 2^-400; a separate run with "
        "multi-digit constants and coefficients; a case = (run, text, point, scheme, mode); non-trivial = at least one line is "
        "violated or an inequality is exactly on its boundary; distinct = by (run, text, point)")

RUNS = {
    "quick": [("pen1", "sym/MC_LinRel", "MC_LinRel_pen1_quick.cfg", 4),
              ("penlong", "sym/MC_LinRel", "MC_LinRel_penlong_quick.cfg", 2),
              ("pen2", "sym/MC_LinRelSys", "MC_LinRelSys_pen2_quick.cfg", 6),
              ("pen3", "sym/MC_LinRelTri", "MC_LinRelTri_pen3_quick.cfg", 2)],
    "thorough": [("pen1", "sym/MC_LinRel", "MC_LinRel_pen1_thorough.cfg", 16),
                 ("penlong", "sym/MC_LinRel", "MC_LinRel_penlong_thorough.cfg", 8),
                 ("pen2", "sym/MC_LinRelSys", "MC_LinRelSys_pen2_thorough.cfg", 16),
                 ("pen3", "sym/MC_LinRelTri", "MC_LinRelTri_pen3_thorough.cfg", 8)],
}

QUARTER = {"tol": 0.25, "rel": 0}
# the other legal way of giving the tolerance: tol = 0 (falsy in Python), rel = 1/4 -- reading r16 of LinRel.tla, defined
# where every strict line has 0 < |rhs| < 4 (TLC: rok)
TOLZERO = ({"tol": 0, "rel": 0.25}, {"tol": 0.0, "rel": 0.25})

# container spellings of the evaluation point (conditions and penalties only READ it: every container is legal)
KINDS = ["float", "int", "array", "npfloat", "npint", "intarray", "tuple", "negzero"]
# containers a generated CONSTRAINT can write into (cross property); an int64 array only where no tolerance term is written
WRITABLE = ("float", "int", "array", "npfloat", "npint", "negzero")
# how the multiplier is written, and its unit: k is a factor of the whole sum by definition (LinRel.tla), so
# k = k_TLC * unit with unit 1/2 (fractional), 2^-20 (tiny), 2^30 (huge) -- powers of two, floats stay exact
KSPELL = ["int", "float", "npint", "npfloat"]
KUNITS = [1, 1, 0.5, 1, 2.0 ** 30, 1, 2.0 ** -20]
# how the ARGUMENTS are spelled: 0 = all given; 1 = nvars omitted; 2 = locals=None when the text needs none;
# 3 = nvars / empty locals / the default variables='x' omitted, a single condition handed over as the bare function
APIS = 4


def api_kwds(sch, loc, api):
    kw = {"variables": sch.variables, "nvars": sch.dim, "locals": dict(loc)}
    if api in (1, 3):
        del kw["nvars"]
    if api == 2 and not loc:
        kw["locals"] = None
    if api == 3:
        if not loc:
            del kw["locals"]
        if sch.variables == "x":
            del kw["variables"]
    return kw


def spell_k(k, unit, spell):
    import numpy
    v = k * unit
    if unit != 1 or spell == "float":
        return float(v)
    if spell == "npint":
        return numpy.int64(v)
    if spell == "npfloat":
        return numpy.float64(v)
    return int(v)


def fresh(xin):
    """the evaluation point once more in its own container (nothing evaluated may depend on an earlier call)"""
    return xin if hasattr(xin, "shape") or isinstance(xin, tuple) else list(xin)


def new_check(a):
    return Check("C14", "exploration", a.tier, a.seed, rule=RULE)


def gather(a):
    return L.run_many(RUNS[a.tier], jobs=a.jobs)


def ptypes(mp, fam):
    return {"quad": (mp.quadratic_inequality, mp.quadratic_equality),
            "lin": (mp.linear_inequality, mp.linear_equality),
            "unif": (mp.uniform_inequality, mp.uniform_equality),
            "lagr": (mp.lagrange_inequality, mp.lagrange_equality)}[fam]


# multiplier of max(0,f)^deg in the per-line term of a (strict, hence inequality) line: (coef/k, deg)
INEQ_TERM = {"quad": (2, 2), "lin": (2, 1), "unif": (0, 0), "lagr": (1, 2)}
FAMDEG = {"quad": 2, "lin": 1, "unif": 0, "lagr": 2}


class Compiler(object):
    """conditions / penalties / constraint per text, cached within one run of the check"""
    def __init__(self, ms, mp):
        self.ms, self.mp = ms, mp
        self.c = {}

    def conditions(self, text, sch, loc, api=0):
        key = ("c", text, repr(sch.variables), sch.dim, tuple(sorted(loc.items())), repr(sorted(loc.items())), api)
        v = self.c.get(key)
        if v is None:
            v = self.c[key] = self.ms.generate_conditions(text, **api_kwds(sch, loc, api))
        return v

    def split_penalty(self, text, sch, loc, cut, aslist, kw):
        """the text handed to generate_conditions as a TUPLE (documented) or list of strings: lines [:cut] and [cut:]; the
        nested result goes to generate_penalty as it is (default ptype: picked per condition by its name)"""
        key = ("split", text, repr(sch.variables), sch.dim, repr(sorted(loc.items())), cut, aslist, repr(sorted(kw.items())))
        v = self.c.get(key)
        if v is None:
            lines = L.text_lines(text)
            parts = ("\n".join(lines[:cut]), "\n".join(lines[cut:]))
            conds = self.ms.generate_conditions(list(parts) if aslist else parts, variables=sch.variables, nvars=sch.dim, locals=dict(loc))
            v = self.c[key] = self.ms.generate_penalty(conds, **kw)
        return v

    def penalty(self, text, sch, loc, fam, k, default_ptype, api=0, kw=None):
        kw = dict(kw or {}, k=k)
        key = ("p", text, repr(sch.variables), sch.dim, repr(sorted(loc.items())), fam, repr(sorted((a, repr(b)) for a, b in kw.items())), default_ptype, api)
        v = self.c.get(key)
        if v is None:
            ineqf, eqf = self.conditions(text, sch, loc, api)
            bare = api == 3 and len(ineqf) + len(eqf) == 1           # "a penalty constraint function, or list of ..."
            if default_ptype:
                v = self.ms.generate_penalty((ineqf + eqf)[0] if bare else (ineqf, eqf), **kw)
            else:
                pi, pe = ptypes(self.mp, fam)
                # the documented ways of saying which type goes with which condition, by rotation over the texts:
                # nested lists mirroring (ineqf, eqf); ONE type for everything (texts whose lines are all of one
                # kind); one flat list of conditions with one flat list of types
                form = zlib.crc32(repr(key).encode()) % 3
                if bare:
                    v = self.ms.generate_penalty((ineqf + eqf)[0], ptype=(pi if len(ineqf) else pe), **kw)
                elif form == 1 and not (len(ineqf) and len(eqf)) and (len(ineqf) or len(eqf)):
                    v = self.ms.generate_penalty((ineqf, eqf), ptype=(pi if len(ineqf) else pe), **kw)
                elif form == 2:
                    v = self.ms.generate_penalty(list(ineqf) + list(eqf), ptype=[pi] * len(ineqf) + [pe] * len(eqf), **kw)
                else:
                    v = self.ms.generate_penalty((ineqf, eqf), ptype=([pi] * len(ineqf), [pe] * len(eqf)), **kw)
            self.c[key] = v
        return v

    def constraint(self, text, sch, loc):
        key = ("s", text, repr(sch.variables), sch.dim, repr(sorted(loc.items())))
        v = self.c.get(key)
        if v is None:
            v = self.c[key] = self.ms.generate_constraint(
                self.ms.generate_solvers(text, variables=sch.variables, nvars=sch.dim, locals=dict(loc)))
        return v


def tau(r):
    """the documented tolerance term of mystic.math.tolerance with the default locals"""
    return 1e-15 + abs(r) * 1e-15


def replay(ck, chunk):
    import mystic.symbolic as ms
    import mystic.penalty as mp
    name, hdr, a, corrupt, (start, cases) = chunk
    n = hdr["n"]
    rels, ks, fams = hdr["rels"], hdr["ks"], hdr["fams"]
    thorough = a.tier == "thorough"
    schemes = L.schemes_for(n, thorough)
    huge = L.huge_schemes(n)
    tiny = [t for t in L.tiny_schemes(n) if t.scale ** 2 > 1e-300]      # the quadratic penalties must not underflow
    comp = Compiler(ms, mp)
    rendered = {}
    rot = random.Random(a.seed).randrange(1000)
    sampled = 0
    nk = len(ks)
    for idx, c in enumerate(cases, start):
        s, x = c["s"], c["x"]
        recs = [rels[k - 1] for k in s]
        lines = [list(t) for t in c["c"]]
        sat = list(c["sat"])
        pens = [list(t) for t in c["p"]]
        if corrupt and idx % 89 == 0:
            lines[0][1] += 1
            pens = [[t[0] + 1, t[1] + 16, t[2] + 16] for t in pens]
        deg1 = all(rc["kind"] in ("aff", "abs") for rc in recs)
        j = idx + rot
        # tolerance mode: the defaults (1e-15), tol=1/4 rel=0, or -- where TLC says that reading is defined -- tol=0 rel=1/4
        mode = "default" if j % 2 else ("tolzero" if (j % 4 == 2 and c.get("rok")) else "quarter")
        sch = schemes[j % len(schemes)]
        if mode == "default" and deg1 and j % 3 == 0:
            pool = list(huge) + [t for t in tiny if not getattr(t, "nonstrict_only", False) or L.no_tolerance(recs)]
            sch = pool[(j // 3) % len(pool)]
        S = sch.scale
        rk = (tuple(s), sch.name)
        rd = rendered.get(rk)
        if rd is None:
            rd = rendered[rk] = L.render_sys(recs, n, sch)
            for rhs_text, ln in zip(rd[2], lines):
                L.check_rendering(rhs_text, sch, rd[1], x, ln[3])
        text, loc0, _ = rd
        loc = dict(loc0)
        if mode == "quarter":
            loc.update(QUARTER)
        elif mode == "tolzero":
            loc.update(TOLZERO[(j // 4) % 2])
        nontriv = (not all(sat)) or any(q == 0 and v == 0 for q, v, e, r in lines)
        ck.case(nontrivial=nontriv, key=(name, tuple(s), tuple(x)))
        ops = "+".join(rc["op"] for rc in recs)
        tag = ops if len(recs) == 1 else "lines=%d" % len(recs)
        kind = KINDS[(j // 2) % len(KINDS)]
        api = (j // 3) % APIS
        kspell = KSPELL[(j // 5) % len(KSPELL)]
        kunit = KUNITS[(j // 2) % len(KUNITS)]
        hkw = [{}, {"h": 7}, {}, {"h": 0}][(j // 7) % 4]      # h is the ITERATIVE multiplier: pk = k*pow(h, n) with n = 0 here
        if S != 1 and kind in ("npint", "intarray"):
            kind = L.KIND_TWIN[kind]          # squares of huge int64 values wrap around: numpy's rule, not mystic's
        xin = sch.point(x, kind)
        for tagk in ("mode=" + mode, "kind=" + kind, "api=%d" % api, "k-as=" + kspell, "k-unit=%r" % kunit, "h=%s" % hkw.get("h", "omitted"),
                     "unit=%s" % (sch.name.split("*")[1] if "*" in sch.name else "1"), "numbers=" + sch.numfmt,
                     "layout=" + ("doc" if text.startswith("\n") else "other")):
            ck.extra["spelling:" + tagk] = ck.extra.get("spelling:" + tagk, 0) + 1
        detail = {"run": name, "text": text, "variables": sch.variables, "nvars": sch.dim, "locals": loc, "scheme": sch.name,
                  "mode": mode, "scale": S, "spec_point": x, "input": [float(t) for t in xin], "input_kind": kind, "api": api,
                  "expected": {"lines[q,v,e,rhs]": lines, "sat": sat}}

        def viol(what, msg, extra=None):
            ck.violation("%s:%s:%s" % (name, tag, what), dict(detail, problem=msg, **(extra or {})),
                         "%r (scheme %s, %s locals, %s input) at %r: %s" % (text, sch.name, mode, kind, list(xin), msg))
        try:
            ineqf, eqf = comp.conditions(text, sch, loc, api)
            exp_in = [ln for ln in lines if ln[0] == 0]
            exp_eq = [ln for ln in lines if ln[0] == 1]
            if len(ineqf) != len(exp_in) or len(eqf) != len(exp_eq):
                viol("condition-lists", "generate_conditions returned %d inequality and %d equality conditions, the text has %d and %d" % (
                    len(ineqf), len(eqf), len(exp_in), len(exp_eq)))
                continue
            vals = [f(fresh(xin)) for f in ineqf] + [f(fresh(xin)) for f in eqf]
            order = [k for k, ln in enumerate(lines) if ln[0] == 0] + [k for k, ln in enumerate(lines) if ln[0] == 1]
            neq_unit = True
            for val, k in zip(vals, order):
                q, v, e, r = lines[k]
                op = recs[k]["op"]
                val = float(val)
                holds_by_value = (val == 0) if q else (val <= 0)
                if holds_by_value != sat[k]:
                    viol("orientation(%s)" % op, "line %d (%s): condition value %r says %s, the relation is %s" % (
                        k + 1, op, val, "satisfied" if holds_by_value else "violated", "satisfied" if sat[k] else "violated"),
                        {"condition_value": val})
                    continue
                if op == "!=":
                    neq_unit = neq_unit and val in (0.0, 1.0)
                    continue
                if e == 0:
                    if val != v * S:
                        viol("value(%s)" % op, "line %d (%s): condition value %r, lhs-rhs oriented is %r" % (k + 1, op, val, v * S),
                             {"condition_value": val})
                elif mode == "quarter":
                    if val != v + 0.25:
                        viol("value(%s)" % op, "line %d (%s): condition value %r, with tol=1/4 it is %r" % (k + 1, op, val, v + 0.25),
                             {"condition_value": val})
                elif mode == "tolzero":
                    if val != v + 0.25 * abs(r):
                        viol("value(%s)" % op, "line %d (%s): condition value %r, with tol=0, rel=1/4 it is %r" % (k + 1, op, val, v + 0.25 * abs(r)),
                             {"condition_value": val})
                else:
                    t = tau(r * S)
                    if abs(val - v * S) > 2 * t + 2.3e-16 * abs(v * S):
                        viol("value(%s)" % op, "line %d (%s): condition value %r is not within the tolerance term %g of %r" % (
                            k + 1, op, val, t, v * S), {"condition_value": val})
            # ---- penalties: every k (0 included) for the default quadratic pair, one rotating k for the other families
            todo = [("quad", ki, True) for ki in range(nk)] + [(fams[1 + (j + m) % (len(fams) - 1)], (j + m) % nk, False) for m in range(2)]
            todo.append(("quad", j % nk, False))
            # lagrange penalties divide by k: k = 0 raises ZeroDivisionError (outside their domain)
            todo = [t for t in todo if not (t[0] == "lagr" and ks[t[1]] == 0)]
            feasible = all(sat)
            for fam, ki, dflt in todo:
                k = ks[ki]
                kreal = spell_k(k, kunit, kspell)
                lim, q16, r16 = pens[fams.index(fam) * nk + ki]
                pf = comp.penalty(text, sch, loc, fam, kreal, dflt, api, hkw)
                got = float(pf(fresh(xin)))
                pd = {"penalty": got, "family": fam, "k": repr(kreal), "kwds": hkw, "spec_k": k, "k_unit": kunit, "spec_lim": lim, "spec_q16": q16, "spec_r16": r16}
                if (feasible or k == 0) and got != 0:
                    viol("penalty-nonzero-on-feasible:%s" % fam if k else "penalty-nonzero-for-k=0:%s" % fam,
                         "%s penalty (k=%r) is %r at a point %s" % (fam, kreal, got, "satisfying every line" if feasible else "where k = 0 switches it off"), pd)
                    continue
                if not feasible and k != 0 and not got > 0:
                    viol("penalty-not-positive:%s" % fam, "%s penalty (k=%r) is %r at a point violating a line" % (fam, kreal, got), pd)
                    continue
                if not neq_unit:
                    continue
                if mode in ("quarter", "tolzero"):
                    want = ((q16 if mode == "quarter" else r16) / 16.0) * kunit
                    if got != want:
                        viol("penalty-sum:%s" % fam, "%s penalty (k=%r) is %r, the sum of the documented per-line terms is %r" % (
                            fam, kreal, got, want), pd)
                else:
                    base = lim * float(S) ** FAMDEG[fam] if fam != "unif" else float(lim)
                    # '!=' lines contribute k*1 whatever the scale: TLC's lim counts them once per unit; rescale apart
                    if S != 1 and fam != "unif":
                        nneq = sum(1 for kk, ln in enumerate(lines) if recs[kk]["op"] == "!=" and not sat[kk])
                        base = (lim - k * nneq) * float(S) ** FAMDEG[fam] + k * nneq
                    base *= kunit
                    coef, deg = INEQ_TERM[fam]
                    slack = 0.0
                    for kk, (q, v, e, r) in enumerate(lines):
                        if e == 1 and not sat[kk]:
                            t2 = 2 * tau(r * S) + 2.3e-16 * abs(v * S)
                            slack += coef * k * kunit * ((v * S + t2) ** deg - (v * S) ** deg)
                    if not (got >= base * (1 - 1e-15) and got <= (base + slack) * (1 + 1e-12)):
                        viol("penalty-sum:%s" % fam, "%s penalty (k=%r) is %r, the sum of the documented per-line terms is %r (+ at most %g of tolerance terms)" % (
                            fam, kreal, got, base, slack), pd)
            # ---- the same text as a tuple / list of strings (documented alternative input of generate_conditions)
            if len(recs) >= 2 and j % 3 == 0 and neq_unit:
                cut = 1 + (j // 3) % (len(recs) - 1)
                kreal = spell_k(ks[j % nk], kunit, kspell)
                one = float(comp.penalty(text, sch, loc, "quad", kreal, True, api, hkw)(fresh(xin)))
                try:
                    two = float(comp.split_penalty(text, sch, loc, cut, (j // 6) % 2 == 1, dict(hkw, k=kreal))(fresh(xin)))
                    # (the terms are added in another order: exact in the dyadic modes, one rounding apart otherwise)
                    if two != one and (mode != "default" or abs(two - one) > 1e-14 * abs(one)):
                        viol("tuple-of-strings-differs", "the penalty of the text given as %s of strings (lines[:%d], lines[%d:]) is %r, as one string %r" % (
                            "a list" if (j // 6) % 2 else "a tuple", cut, cut, two, one), {"penalty": two})
                except Exception as ex:
                    viol("tuple-of-strings-raises:%s" % type(ex).__name__, "the text given as a tuple of strings raised %r" % ex)
            # ---- the conditions joined by a coupler (join=and_): zero exactly where every line holds, positive elsewhere
            if j % 4 == 1 and neq_unit:
                from mystic.coupler import and_ as _pand
                kj = ks[1 + j % (nk - 1)] if ks[0] == 0 and nk > 1 else ks[j % nk]           # a positive multiplier
                pj = comp.c.get(("join", text, sch.name, mode, kj))
                if pj is None:
                    pj = comp.c[("join", text, sch.name, mode, kj)] = ms.generate_penalty((ineqf, eqf), join=_pand, k=kj)
                gotj = float(pj(fresh(xin)))
                if (gotj == 0) != feasible or gotj < 0:
                    viol("joined-penalty(and_):%s" % ("nonzero-on-feasible" if feasible else "not-positive"),
                         "generate_penalty(conditions, join=and_) is %r at a point that %s" % (
                             gotj, "satisfies every line" if feasible else "violates a line"), {"penalty": gotj})
            # ---- cross property: penalty(constraint(x)) == 0
            # (with tol = 0 the tolerance of a line vanishes where its right-hand side is 0: a '!=' line cannot move the
            # point there -- the user switched the tolerance off; TLC's `rok` says the same for the strict lines)
            if c["ind"] and not (mode == "tolzero" and any(rc["op"] == "!=" and ln[3] == 0 for rc, ln in zip(recs, lines))):
                cons = comp.constraint(text, sch, loc)
                ckind = kind if kind in WRITABLE else ("intarray" if kind == "intarray" and S == 1 and L.no_tolerance(recs) else "float")
                y = cons(sch.point(x, ckind))
                for fam, ki, dflt in todo[:nk] + todo[-1:]:
                    if ks[ki] == 0:
                        continue
                    pf = comp.penalty(text, sch, loc, fam, spell_k(ks[ki], kunit, kspell), dflt, api, hkw)
                    got = float(pf(y))
                    if got != 0:
                        viol("penalty-after-constraint:%s" % fam, "penalty(constraint(x)) = %r for %s (k=%s), constraint(x) = %r" % (
                            got, fam, ks[ki], list(y)), {"constrained": [float(t) for t in y]})
                ck.trace()
            if sampled < 3 and nontriv and len(recs) > 1 and not all(sat) and sch is not schemes[0]:
                sampled += 1
                ck.sample({"run": name, "text": text, "variables": sch.variables, "nvars": sch.dim, "locals": loc, "point": [float(t) for t in xin],
                           "condition_values": [float(v) for v in vals], "spec_lines[q,v,e,rhs]": lines, "spec_sat": sat,
                           "spec_penalties[lim,q16,r16] (families %s x k %s)" % (fams, ks): pens})
        except Exception as ex:
            detail["error"] = repr(ex)
            if any(nm in "abs" for nm in sch.names) and "abs(" in text:
                vkey = "name-collision:variable-name-inside-abs:raises:%s" % type(ex).__name__
            else:
                vkey = "%s:raises:%s:scheme=%s" % (name, type(ex).__name__, sch.name.split("*")[0])
            ck.violation(vkey, detail, "%r (variables=%r) at %r raised %r" % (text, sch.variables, x, ex))


def explore(ck, a, runs, corrupt=False, only=None, stride=1):
    import warnings
    warnings.simplefilter("ignore")
    ck.exhaustive = stride == 1
    for name, hdr, cases, res in runs:
        bad = L.first_violation(res)
        if bad is not None:
            ck.violation("spec:" + bad.violated, {"tlc": bad.out[-4000:]}, "TLC: design invariant %s violated in LinRel (%s)" % (bad.violated, name))
        ck.mc(L.merged(res), "LinRel/" + name)
        if only and name not in only:
            continue
        if stride > 1:
            cases = cases[::stride]
        chunks = [(name, hdr, a, corrupt, sl) for sl in L.chunked(cases, 4 * a.jobs if len(cases) > 2000 else 1)]
        L.parallel_replay(ck, replay, chunks, a.jobs)
    sp = {k[len("spelling:"):]: v for k, v in ck.extra.items() if k.startswith("spelling:")}
    for k in [k for k in ck.extra if k.startswith("spelling:")]:
        del ck.extra[k]
    ck.extra["spellings_replayed"] = dict(sorted(sp.items()))       # how often each concrete spelling / unit was replayed
    ck.assumptions = [
        "evaluation points are integer vectors (times 2^40 / 2^60 in the huge-magnitude schemes) and coefficients small integers, "
        "so lhs-rhs and the penalties are computed exactly in IEEE arithmetic and compared with TLC's integers",
        "strict comparators: exact comparison with locals tol=0.25, rel=0; with the default locals the value must have the right "
        "sign and lie within 2*tolerance(rhs) (+ one rounding) of lhs-rhs, tolerance(rhs) = 1e-15 + |rhs|*1e-15 as documented",
        "penalty families quadratic (also as the default ptype), linear, uniform (finite k) and lagrange at iteration 0, h unused; "
        "barrier_inequality is not zero on the feasible set by its own documentation and is left to C15",
        "'!=' lines: only 'value = 0 iff the line holds' is demanded of the condition; the exact penalty sum is compared when the "
        "violated value is the truth value 1 (as implemented)",
        "huge and tiny magnitudes rest on ScaleLemma of LinRel.tla (TLC: S in {2, 1000}; harness: units 2^40, 2^60, 2^-30 and, for texts "
        "without a tolerance term, 2^-400), degree-one texts only; numpy.int64 points only at unit 1 (squares of huge int64 wrap around)",
        "k = 0 switches the penalty off (KZero): only 'penalty = 0' is demanded there; lagrange penalties divide by k and raise "
        "ZeroDivisionError for k = 0 (outside their domain, not replayed); k = None raises TypeError although the docstring says "
        "'default=None' (omitting k is the documented default and is what is replayed); fractional / huge k = k_TLC * 2^m: k is a factor of "
        "the whole sum by the definition of the penalty in the spec",
        "tol = 0, rel = 1/4 (reading r16) only where TLC says it is defined: every strict line has 0 < |rhs| < 4, so the tolerance "
        "|rhs|/4 is positive and below the lattice spacing; penalty(constraint(x)) there additionally needs rhs != 0 on '!=' lines",
        "rendering of relation records as text (harness/linrel_common.py) is a documented bijection guarded against TLC's right-hand values"]


# ------------------------------------------------------------------------------------------------
# mutants that only the SPELLINGS / BOUNDARY VALUES added with the hardening can see (k in {1, 3, 100} as python ints,
# tolerances 1e-15 or tol=1/4 rel=0, one-digit constants at unit 1 or 2^40 / 2^60, every argument given, conditions as the
# pair (ineqf, eqf) behave as before under each of them).  At module level so that they can be run against an older check.
_PATCHED = []


def _patch(obj, attr, val):
    _PATCHED.append((obj, attr, getattr(obj, attr)))
    setattr(obj, attr, val)


def unpatch_all():
    while _PATCHED:
        obj, attr, val = _PATCHED.pop()
        setattr(obj, attr, val)


def hardening_mutants():
    import re
    import mystic.symbolic as ms
    import mystic.penalty as mp
    orig_pp, orig_gp, orig_gcond = ms.penalty_parser, ms.generate_penalty, ms.generate_conditions
    orig_qe = mp.quadratic_equality

    def m_k_or_default():
        # `k = kwds.get('k') or <default>`: the legal multiplier 0 is taken for 'not given'
        def generate_penalty(conditions, ptype=None, join=None, **kwds):
            if "k" in kwds and not kwds["k"]:
                del kwds["k"]
            return orig_gp(conditions, ptype, join, **kwds)
        _patch(ms, "generate_penalty", generate_penalty)

    def m_k_int():
        # the multiplier is cast to int (documented as 'k (int)'): 0.5 and 2^-20 become 0
        def generate_penalty(conditions, ptype=None, join=None, **kwds):
            if "k" in kwds:
                kwds["k"] = int(kwds["k"])
            return orig_gp(conditions, ptype, join, **kwds)
        _patch(ms, "generate_penalty", generate_penalty)

    def m_tol_or_default():
        # `tol = locals.get('tol') or 1e-15`: the legal tolerance 0 is taken for 'not given'
        def generate_conditions(constraints, variables='x', nvars=None, locals=None):
            if isinstance(locals, dict) and "tol" in locals and not locals["tol"]:
                locals = dict(locals, tol=1e-15)
            return orig_gcond(constraints, variables, nvars, locals)
        _patch(ms, "generate_conditions", generate_conditions)

    def m_bare_condition_dropped():
        # 'a penalty constraint function, or list of ...': the single function is dropped instead of wrapped
        def generate_penalty(conditions, ptype=None, join=None, **kwds):
            if callable(conditions):
                conditions = []
            return orig_gp(conditions, ptype, join, **kwds)
        _patch(ms, "generate_penalty", generate_penalty)

    def m_first_string_only():
        # a tuple / list of constraint strings: only the first string is compiled
        def generate_conditions(constraints, variables='x', nvars=None, locals=None):
            if not isinstance(constraints, str):
                return (orig_gcond(constraints[0], variables, nvars, locals),)
            return orig_gcond(constraints, variables, nvars, locals)
        _patch(ms, "generate_conditions", generate_conditions)

    def m_tiny_violation_ignored():
        # quadratic_equality treats |f| <= 1e-8 as satisfied (tiny but not zero)
        def quadratic_equality(condition=lambda x: 0., args=None, kwds=None, k=100, h=5):
            return orig_qe(lambda x, *a_, **k_: (lambda v: v if abs(v) > 1e-8 else 0.0)(condition(x, *a_, **k_)), args, kwds, k, h)
        quadratic_equality.__name__ = "quadratic_equality"
        _patch(mp, "quadratic_equality", quadratic_equality)

    def m_ndim_off_by_one():
        # nvars omitted: the number of variables read off the text is one too small
        def penalty_parser(constraints, variables='x', nvars=None):
            if nvars is None and isinstance(variables, str):
                found = [int(v[len(variables):]) for v in ms.get_variables(constraints, variables)]
                if found:
                    nvars = max(found)
            return orig_pp(constraints, variables=variables, nvars=nvars)
        _patch(ms, "penalty_parser", penalty_parser)

    def m_two_digit_coefficient():
        # of a coefficient with several digits only the last digit is read ('10*x1' -> '0*x1', '12*x1' -> '2*x1')
        def penalty_parser(constraints, variables='x', nvars=None):
            return orig_pp(re.sub(r"(?<![\w.])\d+(\d)(\.?\d*)\s*\*", r"\1\2*", constraints), variables=variables, nvars=nvars)
        _patch(ms, "penalty_parser", penalty_parser)

    return [("generate_penalty: `k or default` (k = 0 taken for missing)", m_k_or_default, ["pen1"]),
            ("generate_penalty: multiplier cast to int (k = 0.5, 2^-20)", m_k_int, ["pen1"]),
            ("generate_conditions: `tol or default` (tol = 0 taken for missing)", m_tol_or_default, ["pen1"]),
            ("generate_penalty drops a condition handed over as the bare function", m_bare_condition_dropped, ["pen1"]),
            ("generate_conditions compiles only the first of a tuple of strings", m_first_string_only, ["pen2"]),
            ("quadratic_equality ignores violations below 1e-8 (tiny but not zero)", m_tiny_violation_ignored, ["pen1", "pen2"]),
            ("nvars omitted: number of variables read off the text is one too small", m_ndim_off_by_one, ["pen1"]),
            ("only the last digit of a multi-digit coefficient is read", m_two_digit_coefficient, ["penlong"])]


def selftest(a, runs):
    import re
    import mystic.symbolic as ms
    import mystic.penalty as mp
    import mystic.math as mm
    from mystic.tools import flatten
    orig_pp, orig_gp, orig_tol = ms.penalty_parser, ms.generate_penalty, mm.tolerance
    orig_pen = {k: getattr(mp, k) for k in ("quadratic_inequality", "uniform_inequality", "linear_equality")}
    only = ["pen1", "pen2"]
    ck0 = new_check(a)
    ck0.outdir = "/dev/shm/verif_selftest_C14"
    with contextlib.redirect_stdout(io.StringIO()):
        explore(ck0, a, runs, only=only + ["penlong"], stride=3)
    baseline = set(ck0.viol_keys)

    def wrap_pp(fi, fe=None, swap=False):
        fe = fe or fi
        def penalty_parser(constraints, variables='x', nvars=None):
            ineq, eq = orig_pp(constraints, variables=variables, nvars=nvars)
            ineq, eq = tuple(fi(e) for e in ineq), tuple(fe(e) for e in eq)
            return (eq, ineq) if swap else (ineq, eq)
        return penalty_parser

    def m_no_negation():
        ms.penalty_parser = wrap_pp(lambda e: e[2:-1] if e.startswith("-(") else e, lambda e: e)

    def m_swap_lists():
        ms.penalty_parser = wrap_pp(lambda e: e, swap=True)

    def m_eps_sign():
        ms.penalty_parser = wrap_pp(lambda e: re.sub(r"([+-]) _tol\(", lambda m: ("- " if m.group(1) == "+" else "+ ") + "_tol(", e))

    def m_tol_zero():
        mm.tolerance = lambda x, tol=1e-15, rel=1e-15: 0.0

    def m_drop_line():
        def generate_penalty(conditions, ptype=None, join=None, **kwds):
            fc = list(flatten(conditions))
            if len(fc) < 2:
                return orig_gp(conditions, ptype, join, **kwds)
            fp = None if ptype is None else list(flatten(ptype))[:-1]
            return orig_gp(fc[:-1], fp, join, **kwds)
        ms.generate_penalty = generate_penalty

    def simple_penalty(name, term):
        def ptype(condition=lambda x: 0., args=None, kwds=None, k=100, h=5):
            def dec(f):
                def func(x, *argz, **kwdz):
                    return term(condition(x), k) + f(x, *argz, **kwdz)
                func.func = condition
                func.ptype = name
                return func
            return dec
        ptype.__name__ = name
        return ptype

    def m_quad_factor():
        mp.quadratic_inequality = simple_penalty("quadratic_inequality", lambda pf, k: float(k) * max(0., pf) ** 2)

    def m_uniform_boundary():
        mp.uniform_inequality = simple_penalty("uniform_inequality", lambda pf, k: float(k) if pf >= 0 else 0.0)

    def m_linear_signed():
        mp.linear_equality = simple_penalty("linear_equality", lambda pf, k: float(k) * pf)

    def m_x10():
        def penalty_parser(constraints, variables='x', nvars=None):
            if isinstance(variables, str):
                constraints = re.sub(r"\b%s1(\d)\b" % variables, variables + "1", constraints)
            return orig_pp(constraints, variables=variables, nvars=nvars)
        ms.penalty_parser = penalty_parser

    mutants = [("penalty_parser: orientation of '>' / '>=' not negated", m_no_negation, False),
               ("penalty_parser: equality and inequality lists swapped", m_swap_lists, False),
               ("penalty_parser: epsilon sign flipped", m_eps_sign, False),
               ("math.tolerance returns 0 (strict boundary counted as satisfied)", m_tol_zero, False),
               ("generate_penalty drops the last line from the sum", m_drop_line, False),
               ("quadratic_inequality: factor 2 dropped", m_quad_factor, False),
               ("uniform_inequality penalises the boundary", m_uniform_boundary, False),
               ("linear_equality without abs()", m_linear_signed, False),
               ("index replacement reads x10/x11 as x1", m_x10, False),
               ("corrupted expectation from TLC", lambda: None, True)]
    mutants = [(nm, mut, corrupt, only) for nm, mut, corrupt in mutants]
    mutants += [(nm, mut, False, sel) for nm, mut, sel in hardening_mutants()]
    mutants.append(("corrupted expectation from TLC (multi-digit run)", lambda: None, True, ["penlong"]))
    missed = 0
    for nm, mut, corrupt, only in mutants:
        mut()
        ck = new_check(a)
        ck.outdir = "/dev/shm/verif_selftest_C14"
        with contextlib.redirect_stdout(io.StringIO()):
            try:
                explore(ck, a, runs, corrupt=corrupt, only=only, stride=3)
            except Exception as ex:
                ck.violations += 1
                ck.viol_keys["mutant-raised:" + type(ex).__name__] = 1
        ms.penalty_parser, ms.generate_penalty, mm.tolerance = orig_pp, orig_gp, orig_tol
        for k, v in orig_pen.items():
            setattr(mp, k, v)
        unpatch_all()
        new = [k for k in sorted(ck.viol_keys) if k not in baseline]
        print("SELFTEST %s: %s (%d violations, e.g. %s)" % (nm, "caught" if new else "MISSED", ck.violations, new[:2]))
        missed += 0 if new else 1
    import shutil
    shutil.rmtree("/dev/shm/verif_selftest_C14", ignore_errors=True)
    return 1 if missed else 0


def replay_artefact(path):
    """bin/check C14 --replay out/C14/replay_*.json : evaluate the recorded text again on the current tree"""
    import json, warnings
    warnings.simplefilter("ignore")
    import mystic.symbolic as ms
    d = json.load(open(path))["detail"]
    ineqf, eqf = ms.generate_conditions(d["text"], variables=d["variables"], nvars=d["nvars"], locals=dict(d["locals"]))
    x = L.container(list(d["input"]), d.get("input_kind", "float"))        # the recorded container spelling of the point
    lines, sat = d["expected"]["lines[q,v,e,rhs]"], d["expected"]["sat"]
    order = [k for k, ln in enumerate(lines) if ln[0] == 0] + [k for k, ln in enumerate(lines) if ln[0] == 1]
    vals = [float(f(fresh(x))) for f in ineqf] + [float(f(fresh(x))) for f in eqf]
    ok = len(vals) == len(lines)
    for val, k in zip(vals, order):
        ok = ok and (((val == 0) if lines[k][0] else (val <= 0)) == sat[k])
    pen = float(ms.generate_penalty((ineqf, eqf), k=1)(fresh(x)))
    ok = ok and ((pen == 0) == all(sat)) and pen >= 0
    print("%r (variables=%r, locals=%r) at %r: conditions %r (inequalities first), default penalty k=1: %r" % (
        d["text"], d["variables"], d["locals"], x, vals, pen))
    print("spec: lines [q,v,e,rhs] %r satisfied %r" % (lines, sat))
    print("replay: %s" % ("orientation and zero set hold on this case now" if ok else "VIOLATION reproduced"))
    return 0 if ok else 1


def main():
    a = tier_seed()
    assert_repo()
    if a.replay:
        try:
            return replay_artefact(a.replay)
        except (KeyError, OSError, ValueError):
            raise                                   # unreadable artefact: machinery failure
        except Exception as ex:                     # mystic raised on the recorded case
            print("replay: VIOLATION reproduced (%r)" % ex)
            return 1
    ck = new_check(a)
    runs = gather(a)
    if a.selftest:
        return selftest(a, runs)
    explore(ck, a, runs)
    return ck.finish()


if __name__ == "__main__":
    main_guard(main)
