"""In-memory source mutation of mystic for self-tests (never touches /repo on disk).

patch(obj, name, old, new) re-compiles function/method `name` of module or class `obj` with the text `old` replaced by
`new` (must occur exactly once) and installs it; returns an undo function."""
import inspect, textwrap, sys


def _dedent(src):
    """remove the indentation of the `def` line (docstring lines of mystic start in column 0)"""
    lines = src.splitlines(True)
    ind = lines[0][:len(lines[0]) - len(lines[0].lstrip())]
    return "".join(l[len(ind):] if l.startswith(ind) else l for l in lines)


def patch(owner, name, old, new, count=1):
    fn = owner.__dict__[name]
    raw = fn
    is_prop = isinstance(fn, property)
    if is_prop:
        raw = fn.fget
    if isinstance(raw, (staticmethod, classmethod)):
        raw = raw.__func__
    src = _dedent(inspect.getsource(raw))
    if src.count(old) != count and inspect.isclass(owner):
        # `old`/`new` written with the file's indentation: methods are dedented by one level here
        d = lambda t: "".join(l[4:] if l.startswith("    ") else l for l in t.splitlines(True))
        if src.count(d(old)) == count:
            old, new = d(old), d(new)
    if src.count(old) != count:
        raise RuntimeError("patch %s.%s: %r occurs %d times" % (getattr(owner, "__name__", owner), name, old, src.count(old)))
    src = src.replace(old, new)
    mod = sys.modules[raw.__module__]
    ns = {}
    g = mod.__dict__
    # private name mangling: compile inside a dummy class of the same name when the owner is a class
    if inspect.isclass(owner):
        body = "class %s:\n%s" % (owner.__name__, textwrap.indent(src, "    "))
        exec(compile(body, "<mutant %s>" % name, "exec"), g, ns)
        d = ns[owner.__name__].__dict__
        newfn = d.get(raw.__name__) or d["_%s%s" % (owner.__name__.lstrip("_"), raw.__name__)]
    else:
        exec(compile(src, "<mutant %s>" % name, "exec"), g, ns)
        newfn = ns[raw.__name__]
    if is_prop:
        newobj = property(newfn, fn.fset, fn.fdel)
    else:
        newobj = newfn
    setattr(owner, name, newobj)

    def undo():
        setattr(owner, name, fn)
    return undo
