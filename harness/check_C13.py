"""C13 -- compiled constraint functions enforce exactly the stated relation.

spec -> code.  TLC explores the machine of specs/sym/LinRel.tla (state = current vector, action
Apply(rel): x' in CompileResult(rel, x); action Bound(b): x' = Clip(x, b)) for every system of the
run's catalogue and every input point, checks the design invariants (LastHolds, Footprint,
FeasibleFixed, IndependentAllHold, StepViewFrozen, BoxIn, BoxStep ...) and emits, per (system,
input), what the specification allows to be observed of the output:
    r[k]   the right-hand value of line k          f[k]  the input satisfies line k
    g[k]   the allowed signs of y_i - r[k]         ch    the coordinates that may differ from the input
The harness renders the system as text under several variable-name schemes (harness/linrel_common.py,
a documented bijection), builds generate_constraint(generate_solvers(text)) from the REAL mystic, runs
it on the input and compares: set of changed coordinates (incl. the padding of 12-variable schemes),
sign of y_i - r for every line (so strictness), equality with the input when feasible; the per-line
solver functions are also applied one at a time and after every step each line that held must still
hold.  Bounds: boundsconstrain(lo, hi) (symbolic and impose_bounds paths) against Clip.
Several relations on the SAME left-hand variable (specs/sym/LinRelGrp.tla, runs grp2 / grp3 / grpmix): the
spec gives the JOINT result per left-hand variable (GrpResult) and emits, per group, the allowed tuples of
signs (y_i - r[k]) over the lines of the group; an empty set = the group is contradictory at that point
(outside the premise: counted, not judged, mystic is not even required to return).  The replayed path is
generate_constraint(generate_solvers(text)) on the isolated-form text itself, as for the other runs (NOT
through simplify(), whose merge() rewrites 'A >= c, A <= c' to 'A = c' and rejects 'A > c, A < c').
Nothing about the expected outcome is computed in Python: the harness compares floats with the
integers TLC printed.

Spellings and boundary values (one abstract case, many concrete ones; rotation is deterministic in case index + seed and
counted in the evidence under `spellings_replayed`):
  texts      numbers as 2 / 2.0 / 2. / 2.0e+00 / names of locals; the constant 0; multi-digit constants, coefficients and
             coordinates (run "long": 10, 12, 100, '10*x10'); white space incl. the layout of the docstrings (leading
             newline, indentation, blank lines); one string / tuple / list of strings; '=' and '=='
  variables  base name or list of names, indices 0..2, 1/10/11 of 12, 1/10/100/11 of 112
  arguments  nvars given / omitted, locals dict / None / omitted, variables omitted when 'x'; solvers as tuple / list /
             the bare function; ctype / join forms
  inputs     list of float / int / numpy.float64 / numpy.int64, zeros as -0.0, float64 ndarray; int64 and float32
             ndarrays where the specified outcome is an integer (comparators =, <=, >=)
  units      1; 2^40, 2^60; 2^-30; 2^-1000, 2^-400 (below the tolerance: =, <=, >= only); for texts without arithmetic
             0.1, 1e-10, 1e10, 1e300, 1e-300 (17-digit decimals, exponents with sign)
  boxes      min / max as floats, ints, numpy scalars, float64 / int64 ndarrays, tuples, None or +-inf; symbolic= / clip=
             spelled out or omitted; inputs as above; units 1, 2^40, 1e10, 1e300, 0.5, 1.5, 0.1, 1e-10, 1e-300, 5e-324 and the
             long-text units 2^-30, 1/3 (BoxScaleLemma of the spec)
"""
import sys, random, io, contextlib
from harness.core import Check, tier_seed, assert_repo, main_guard
from harness.tlc import TLCError
from harness import linrel_common as L

RULE = ("TLC enumerates every (system, input point) of the bounded class [relations x_i op rhs, 6 comparators, rhs from "
        "an affine + nonlinear catalogue; 1, 2 and 3 independent lines; 2 and 3 lines on the SAME left-hand variable "
        "(all comparator pairs, same / different right-hand sides, intervals incl. degenerate and empty ones, both "
        "orders) alone and next to an independent line on another variable; boxes lo<=hi incl. unbounded and degenerate "
        "sides] and emits the allowed observations; every one is replayed on the real generated functions under the "
        "plain scheme and one rotating SPELLING (variable-name scheme, number format, white-space layout, input container "
        "[list of float / int / numpy scalars, -0.0, float64 / int64 / float32 ndarray], arguments given or omitted), "
        "degree-one systems additionally in a huge or tiny unit (2^40, 2^60, 2^-30, 2^-400, 2^-1000) and systems without "
        "arithmetic in decimal units (0.1, 1e-10, 1e10, 1e300, 1e-300); a separate run with multi-digit constants / coefficients / "
        "coordinates; boxes in the plain spelling and in one rotating spelling of bounds, input, keywords and unit; a case = (run, system, point, scheme); non-trivial = "
        "the input violates at least one line or lies exactly on a boundary (x_i = rhs) / outside the box; systems that "
        "are contradictory at the point (TLC: no admissible outcome) are counted as trivial and not judged; distinct = "
        "by (run, system, point)")

RUNS = {
    "quick": [("single", "sym/MC_LinRel", "MC_LinRel_single_quick.cfg", 4),
              ("long", "sym/MC_LinRel", "MC_LinRel_long_quick.cfg", 2),
              ("pair", "sym/MC_LinRelSys", "MC_LinRelSys_quick.cfg", 4),
              ("triple", "sym/MC_LinRelTri", "MC_LinRelTri_quick.cfg", 4),
              ("grp2", "sym/MC_LinRelGrp", "MC_LinRelGrp_pair_quick.cfg", 4),
              ("grp3", "sym/MC_LinRelGrpTri", "MC_LinRelGrpTri_same_quick.cfg", 2),
              ("grpmix", "sym/MC_LinRelGrpTri", "MC_LinRelGrpTri_mix_quick.cfg", 2),
              ("box", "sym/MC_LinRel", "MC_LinRel_box_quick.cfg", 1)],
    "thorough": [("single", "sym/MC_LinRel", "MC_LinRel_single_thorough.cfg", 16),
                 ("long", "sym/MC_LinRel", "MC_LinRel_long_thorough.cfg", 8),
                 ("pair", "sym/MC_LinRelSys", "MC_LinRelSys_thorough.cfg", 16),
                 ("triple", "sym/MC_LinRelTri", "MC_LinRelTri_thorough.cfg", 16),
                 ("grp2", "sym/MC_LinRelGrp", "MC_LinRelGrp_pair_thorough.cfg", 16),
                 ("grp3", "sym/MC_LinRelGrpTri", "MC_LinRelGrpTri_same_thorough.cfg", 16),
                 ("grpmix", "sym/MC_LinRelGrpTri", "MC_LinRelGrpTri_mix_thorough.cfg", 16),
                 ("box", "sym/MC_LinRel", "MC_LinRel_box_thorough.cfg", 1)],
}


def sgn(v):
    return -1 if v < 0 else (1 if v > 0 else 0)


def new_check(a):
    return Check("C13", "exploration", a.tier, a.seed, rule=RULE)


def gather(a):
    """all TLC runs of the tier; returns [(name, hdr, cases, results)]"""
    return L.run_many(RUNS[a.tier], jobs=a.jobs)


# how the ARGUMENTS are spelled (api): 0 = every argument given as a keyword (nvars=dim, locals=dict);
# 1 = nvars omitted (it is documented as optional: the generated code indexes the vector it is given);
# 2 = locals=None when the text needs no extra names (the documented default), nvars given;
# 3 = nvars and (when empty) locals omitted, `variables` omitted when it is the default base name 'x';
#     the solvers handed to generate_constraint as a list, a single solver as the bare function (both documented)
APIS = 4


def api_kwds(sch, loc, api):
    kw = {"variables": sch.variables, "nvars": sch.dim, "locals": dict(loc)}
    if api in (1, 3):
        del kw["nvars"]
    if api == 2 and not loc:
        kw["locals"] = None
    if api == 3:
        if not loc:
            del kw["locals"]
        if sch.variables == "x":
            del kw["variables"]
    return kw


class Compiler(object):
    """generate_constraint(generate_solvers(text)) with a per-run cache keyed by the text and the argument spelling"""
    def __init__(self, ms):
        self.ms = ms
        self.cache = {}

    def get(self, text, sch, loc, api=0):
        key = (text, repr(sch.variables), sch.dim, tuple(sorted(loc.items())), api)
        c = self.cache.get(key)
        if c is None:
            solv = self.ms.generate_solvers(text, **api_kwds(sch, loc, api))
            if api == 3:
                cons = self.ms.generate_constraint(solv[0] if len(solv) == 1 else list(solv))
            else:
                cons = self.ms.generate_constraint(solv)
            c = self.cache[key] = (solv, cons)
        return c

    def get_split(self, text, sch, loc, cut, aslist=False):
        """the same system handed to generate_solvers as a TUPLE of strings (documented alternative; a list works the
        same way): lines [:cut] and [cut:]; generate_solvers then returns nested solver groups, which
        generate_constraint must flatten"""
        key = ("split", cut, aslist, text, repr(sch.variables), sch.dim, tuple(sorted(loc.items())))
        c = self.cache.get(key)
        if c is None:
            lines = L.text_lines(text)
            parts = ("\n".join(lines[:cut]), "\n".join(lines[cut:]))
            solv = self.ms.generate_solvers(list(parts) if aslist else parts, variables=sch.variables, nvars=sch.dim, locals=dict(loc))
            c = self.cache[key] = self.ms.generate_constraint(solv)
        return c


# container spellings of the input vector (harness/linrel_common.container); the last two write results back into
# their own dtype and are used only where the specified outcome is an integer: comparators =, <=, >= (no tolerance
# term), unit 1 -- an int64 / float32 array cannot hold rhs +- 1e-15, which is numpy's rule, not mystic's
KINDS = ["float", "int", "array", "npfloat", "npint", "negzero", "intarray", "f32array"]


def kinds_for(recs, sch):
    if sch.scale == 1 and L.no_tolerance(recs):
        return KINDS
    return KINDS[:6] if sch.scale == 1 else ["float", "int", "array", "npfloat", "negzero"]


def replay_relations(ck, chunk):
    import mystic.symbolic as ms
    name, hdr, a, corrupt, (start, cases) = chunk
    n = hdr["n"]
    rels = hdr["rels"]
    hs = {op: set(v) for op, v in hdr["hs"].items()}
    thorough = a.tier == "thorough"
    schemes = L.schemes_for(n, thorough)
    huge = L.huge_schemes(n)
    tiny = L.tiny_schemes(n)
    decimal = L.decimal_schemes(n)
    comp = Compiler(ms)
    rendered = {}
    rng = random.Random(a.seed)
    rot = rng.randrange(1000)
    sampled = 0
    earlier, seen_text = [], set()        # judged (function, input, output) of earlier texts: see `again` below
    for idx, c in enumerate(cases, start):
        s = c["s"]
        recs = [rels[k - 1] for k in s]
        x, r, f, ch = c["x"], c["r"], c["f"], set(c["ch"])
        # groups = [(lines of one left-hand variable (0-based, text order), allowed tuples of signs of y_i - r[k])];
        # the runs with distinct left-hand variables emit per-line sign sets: groups of one line
        grouped = "gl" in c
        if grouped:
            groups = [([k - 1 for k in ls], set(tuple(t) for t in ts)) for ls, ts in zip(c["gl"], c["gs"])]
        else:
            groups = [([k], set((t,) for t in gk)) for k, gk in enumerate(c["g"])]
        ops = "+".join(rc["op"] for rc in recs)
        if any(not ts for _, ts in groups):
            # contradictory at this point (TLC: no admissible outcome): outside the premise, not judged
            ck.case(nontrivial=False, key=(name, tuple(s), tuple(x)))
            ck.trace()
            continue
        if corrupt and idx % 97 == 0:                                                # corrupted expectation
            groups = [(ls, (set(tuple(-t for t in tp) for tp in ts) if any(any(tp) for tp in ts) else {(1,) * len(ls)}))
                      for ls, ts in groups]
        lonely = set(ls[0] for ls, _ in groups if len(ls) == 1)
        deg1 = all(rc["kind"] in ("aff", "abs") for rc in recs)
        boundary = any(x[rc["i"] - 1] == rr for rc, rr in zip(recs, r))
        j = idx + rot
        sch2 = schemes[1 + j % (len(schemes) - 1)]
        kk = kinds_for(recs, sch2)
        # (scheme, container of the input, spelling of the arguments): the plain spelling, then one rotating spelling
        todo = [(schemes[0], "float", 0), (sch2, kk[(j // (len(schemes) - 1)) % len(kk)], (j // 3) % APIS)]
        # magnitudes: the unit of the lattice huge / tiny (degree-one texts: ScaleLemma) or a decimal fraction / power
        # of ten (texts without arithmetic); units below the strictness tolerance only for texts without a tolerance term
        if deg1:
            pool = list(huge) + [t for t in tiny if not getattr(t, "nonstrict_only", False) or (L.no_tolerance(recs) and not grouped)]
            if all(L.arithmetic_free(rc) for rc in recs):
                pool += [t for t in decimal if not getattr(t, "nonstrict_only", False) or (L.no_tolerance(recs) and not grouped)]
            if j % 2 == 0:
                sch3 = pool[(j // 2) % len(pool)]
                kk3 = kinds_for(recs, sch3)
                todo.append((sch3, kk3[(j // 2) % len(kk3)], (j // 5) % APIS))
        for sch, kind, api in todo:
            rk = (tuple(s), sch.name)
            rd = rendered.get(rk)
            if rd is None:
                rd = rendered[rk] = L.render_sys(recs, n, sch)
                for rhs_text, rr in zip(rd[2], r):
                    L.check_rendering(rhs_text, sch, rd[1], x, rr)
            text, loc, _ = rd
            S = sch.scale
            ck.case(nontrivial=(not all(f)) or boundary, key=(name, tuple(s), tuple(x)))
            for tagk in ("kind=" + kind, "api=%d" % api, "unit=%s" % (sch.name.split("*")[1] if "*" in sch.name else "1"),
                         "numbers=" + sch.numfmt, "layout=" + ("doc" if text.startswith("\n") else "other")):
                ck.extra["spelling:" + tagk] = ck.extra.get("spelling:" + tagk, 0) + 1
            detail = {"run": name, "text": text, "variables": sch.variables, "nvars": sch.dim, "locals": loc,
                      "scheme": sch.name, "input_kind": kind, "api": api, "spec_point": x, "scale": S,
                      "lhs_positions": [sch.pos[rc["i"] - 1] for rc in recs], "ops": [rc["op"] for rc in recs],
                      "expected": {"rhs": r, "feasible": f, "may_change": sorted(ch),
                                   "groups": [{"lines": [k + 1 for k in ls], "allowed_sign_tuples": sorted(ts)} for ls, ts in groups]}}
            kindtag = "+".join(sorted(set(rc["kind"] for rc in recs)))
            try:
                solv, cons = comp.get(text, sch, loc, api)
                xin = sch.point(x, kind)
                detail["input"] = [float(t) for t in xin]
                y = cons(xin)
                yv, moved = sch.project(y)
                # the same through the per-line solver functions, one step at a time (composition order of
                # generate_constraint: the last solver of the tuple runs first)
                z = sch.point(x, kind)
                held = [sgn(z[sch.pos[rc["i"] - 1]] - rr * S) in hs[rc["op"]] for rc, rr in zip(recs, r)]
                lost = None
                for fsol in reversed(solv):
                    before = list(z)
                    z = fsol(z)
                    now = [sgn(z[sch.pos[rc["i"] - 1]] - rr * S) in hs[rc["op"]] for rc, rr in zip(recs, r)]
                    # a line that held must still hold; the lines of a group of several lines on one variable are
                    # judged jointly at the end (the steps of that variable may pass through one another's bounds),
                    # so for them only steps that did not touch their variable count
                    broke = [k for k, (h, w) in enumerate(zip(held, now)) if h and not w and
                             (k in lonely or bool(z[sch.pos[recs[k]["i"] - 1]] == before[sch.pos[recs[k]["i"] - 1]]))]
                    if lost is None and broke:
                        lost = [k + 1 for k in broke]
                    held = now
                stepwise_same = all(bool(p == q) for p, q in zip(list(z), list(y))) and len(z) == len(y)
            except Exception as ex:
                detail["error"] = repr(ex)
                if any(nm in "abs" for nm in sch.names) and "abs(" in text:
                    vkey = "name-collision:variable-name-inside-abs:raises:%s" % type(ex).__name__
                else:
                    vkey = "%s:raises:%s:scheme=%s:kind=%s" % (name, type(ex).__name__, sch.name.split("*")[0], kindtag)
                ck.violation(vkey, detail,
                             "%r (variables=%r) at %r raised %r" % (text, sch.variables, x, ex))
                continue
            detail["output"] = list(y)
            problems = []
            if len(y) != sch.dim:
                problems.append(("length", "output has length %d, input %d" % (len(y), sch.dim)))
            if moved:
                problems.append(("padding-changed", "positions %s that are no variable of the text changed" % moved))
            changed = set(k + 1 for k in range(n) if not (yv[k] == x[k] * S))
            if not changed <= ch:
                if all(f):
                    problems.append(("feasible-input-moved", "input satisfies every line but coordinates %s changed" % sorted(changed)))
                else:
                    problems.append(("other-coordinate-changed", "coordinates %s changed, only %s may" % (sorted(changed), sorted(ch))))
            for ls, ts in groups:
                tup = tuple(sgn(yv[recs[k]["i"] - 1] - r[k] * S) for k in ls)
                if tup in ts:
                    continue
                failing = [k for k, sg in zip(ls, tup) if sg not in hs[recs[k]["op"]]]
                if len(ls) == 1:
                    k, rc = ls[0], recs[ls[0]]
                    what = "not-satisfied" if failing else "feasible-input-moved"
                    problems.append(("%s(%s)" % (what, rc["op"]), "line %d (%s): sign(y_i - rhs) = %d, allowed %s" % (
                        k + 1, rc["op"], tup[0], sorted(t[0] for t in ts))))
                else:
                    gops = ",".join(sorted(recs[k]["op"] for k in ls))      # class key independent of the line order
                    same = "same-rhs-value" if len(set(r[k] for k in ls)) == 1 else "different-rhs-values"
                    what = ("not-satisfied(%s)" % ",".join(recs[k]["op"] for k in failing)) if failing else "feasible-input-moved"
                    problems.append(("same-variable[%s]:%s:%s" % (gops, same, what),
                                     "lines %s on one left-hand variable (%s): signs(y_i - rhs) = %s, allowed %s" % (
                                         [k + 1 for k in ls], gops, list(tup), sorted(ts))))
            if len(recs) >= 2 and not grouped and (idx + rot) % 2 == 0:
                # the documented alternative input form: a tuple of strings (here split after line `cut`); the lines are
                # independent, so the composed constraint must give the result already judged above
                cut = 1 + (idx + rot) // 2 % (len(recs) - 1)
                try:
                    yt = comp.get_split(text, sch, loc, cut, aslist=((idx + rot) // 4) % 2 == 1)(sch.point(x, kind))
                    if not (len(yt) == len(y) and all(bool(p == q) for p, q in zip(list(yt), list(y)))):
                        problems.append(("tuple-of-strings-differs", "the system given as a tuple of strings (lines[:%d], lines[%d:]) "
                                         "gives %r, as one string %r" % (cut, cut, list(yt), list(y))))
                except Exception as ex:
                    problems.append(("tuple-of-strings-raises:%s" % type(ex).__name__, "the system given as a tuple of strings raised %r" % ex))
            if len(recs) >= 2 and not grouped and (idx + rot) % 3 == 0:
                # the documented ways of saying how the solvers are coupled: ONE coupler type for all of them (flat and
                # nested solver groups), a list of types, and the and_ combinator (independent relations: same fixed point)
                from mystic.coupler import inner as _inner
                from mystic.constraints import and_ as _and
                form = ((idx + rot) // 3) % 4
                try:
                    if form == 0:
                        alt = ms.generate_constraint(solv, ctype=_inner)
                    elif form == 1:
                        alt = ms.generate_constraint(solv, ctype=[_inner] * len(solv))
                    elif form == 2:
                        lines_ = L.text_lines(text)
                        nested = ms.generate_solvers(("\n".join(lines_[:1]), "\n".join(lines_[1:])), variables=sch.variables,
                                                     nvars=sch.dim, locals=dict(loc))
                        alt = ms.generate_constraint(nested, ctype=_inner)
                    else:
                        alt = ms.generate_constraint(solv, join=_and)
                    ya = alt(sch.point(x, kind))
                    if not (len(ya) == len(y) and all(bool(p == q) for p, q in zip(list(ya), list(y)))):
                        problems.append(("coupling-form-%d-differs" % form, "generate_constraint with %s gives %r, the default gives %r" % (
                            ["ctype=inner", "ctype=[inner]*n", "ctype=inner on nested solver groups", "join=and_"][form], list(ya), list(y))))
                except Exception as ex:
                    problems.append(("coupling-form-%d-raises:%s" % (form, type(ex).__name__), "generate_constraint (form %d) raised %r" % (form, ex)))
            if lost:
                problems.append(("step-breaks-earlier-line", "applying the solvers one by one: lines %s held and were broken by a later step" % lost))
            if not stepwise_same:
                problems.append(("composition", "generate_constraint(...) differs from applying the solver functions in order: %r vs %r" % (list(y), list(z))))
            for tag, msg in problems:
                ck.violation("%s:%s:%s" % (name, ops if len(recs) == 1 else "lines=%d" % len(recs), tag), dict(detail, problem=msg),
                             "%r (scheme %s, %s input %r) -> %r: %s" % (text, sch.name, kind, detail["input"], list(y), msg))
            # A generated function is a VALUE (LinRel.tla: Result is a function of the relation and the point, there is
            # no other state): what it computes must not change because other systems were compiled meanwhile -- with
            # other locals of the same names (tol, rel, named constants).  Re-run an accepted case of an EARLIER text.
            if earlier and (idx + rot) % 5 == 0:
                j = ((idx + rot) // 5) % len(earlier)
                e_text, e_cons, e_sch, e_x, e_kind, e_y, e_loc = earlier[j]
                if e_text != text:
                    ck.extra["again_checks"] = ck.extra.get("again_checks", 0) + 1
                    if e_loc:
                        ck.extra["again_checks_with_locals"] = ck.extra.get("again_checks_with_locals", 0) + 1
                    # ... and, every other time, after compiling the earlier text itself once more with every local of it
                    # shifted and other strictness tolerances: a separate function, which must not touch the first
                    if (idx + rot) % 10 == 0:
                        try:
                            other = dict({k: v + 1 for k, v in e_loc.items()}, tol=0.25, rel=0.5)
                            ms.generate_constraint(ms.generate_solvers(e_text, variables=e_sch.variables, nvars=e_sch.dim,
                                                                       locals=other))
                            ck.extra["again_after_interfering_compile"] = ck.extra.get("again_after_interfering_compile", 0) + 1
                        except Exception:
                            pass
                    try:
                        y2 = list(e_cons(e_sch.point(e_x, e_kind)))
                    except Exception as ex:
                        y2 = repr(ex)
                    if not (isinstance(y2, list) and len(y2) == len(e_y) and all(bool(p == q) for p, q in zip(y2, e_y))):
                        ck.violation("%s:generated-function-changed-by-a-later-compile" % name,
                                     {"earlier_text": e_text, "earlier_locals": e_loc, "spec_point": e_x, "first_output": e_y,
                                      "output_now": y2, "compiled_meanwhile": text, "locals_meanwhile": loc},
                                     "%r (locals %r) at %r gave %r when it was compiled and gives %r after %r (locals %r) was compiled"
                                     % (e_text, e_loc, e_x, e_y, y2, text, loc))
            if not problems and (text, sch.name) not in seen_text and (not all(f)):
                seen_text.add((text, sch.name))
                if len(earlier) < 48:
                    earlier.append((text, cons, sch, x, kind, list(y), dict(loc)))
                else:
                    earlier[(idx + rot) % 48] = (text, cons, sch, x, kind, list(y), dict(loc))
            if not problems and sampled < 2 and (not all(f)) and sch is not schemes[0]:
                sampled += 1
                ck.sample({"run": name, "text": text, "variables": sch.variables, "nvars": sch.dim, "input": detail["input"],
                           "output": [float(t) for t in y], "spec": detail["expected"]})
        ck.trace()


# ---- bounds: spellings and magnitudes -------------------------------------------------------------------------
# units of the box lattice (BoxScaleLemma of LinRel.tla: Clip commutes with every positive scale; the harness needs
# no arithmetic beyond one monotone multiplication per number).  LONG units give bounds whose decimal text needs more
# than 15 significant digits ('-9.313225746154785e-10', '0.6666666666666666'): reported under their own class.
BOX_UNITS = [1, 2.0 ** 40, 0.5, 1e10, 1e300, 0.1, 1.5, 1e-10, 1e-300, 5e-324, 1, 0.5, 2.0 ** -30, 1.0 / 3]
# how min / max are written: python floats (None / +-inf alternating for 'no bound', as documented), python ints,
# numpy scalars, float64 / int64 ndarrays and tuples (+-inf for 'no bound': symbolic_bounds writes None away in place)
BOX_SPELL = ["float", "int", "npscalar", "array", "intarray", "tuple"]
# how the input vector is written (harness/linrel_common.container)
BOX_XKIND = ["float", "int", "array", "npfloat", "npint", "intarray", "negzero"]


def needs_long_text(v):
    return v == v and abs(v) != float("inf") and float("%.15g" % v) != v


def spell_bounds(b, hdr, S, spell, bi):
    """(min, max) of box b in units of S, written in the spelling `spell`; alt = which 'no bound' spelling"""
    import numpy
    NINF, PINF = hdr["ninf"], hdr["pinf"]
    fin = [v * S for v in list(b["lo"]) + list(b["hi"]) if v not in (NINF, PINF)]
    if spell in ("int", "intarray") and not L.int_ok(fin, 2 ** 62):
        spell = {"int": "float", "intarray": "array"}[spell]
    if spell == "intarray" and len(fin) < 2 * len(b["lo"]):
        spell = "array"

    def one(v, j, side):
        if v in (NINF, PINF):
            sign = -1 if v == NINF else 1
            if spell in ("array", "tuple") or (bi + j + side) % 2 == 0:
                return sign * float("inf")
            return None
        w = float(v) * S
        if spell in ("int", "intarray"):
            return int(w)
        if spell == "npscalar":
            return numpy.int64(int(w)) if (L.int_ok([w]) and (j + side) % 2) else numpy.float64(w)
        return w
    lo = [one(v, j, 0) for j, v in enumerate(b["lo"])]
    hi = [one(v, j, 1) for j, v in enumerate(b["hi"])]
    return lo, hi, spell


def wrap_bounds(lo, hi, spell):
    import numpy
    if spell == "array":
        return numpy.array(lo, dtype=float), numpy.array(hi, dtype=float)
    if spell == "intarray":
        return numpy.array(lo, dtype=numpy.int64), numpy.array(hi, dtype=numpy.int64)
    if spell == "tuple":
        return tuple(lo), tuple(hi)
    return list(lo), list(hi)


def replay_boxes(ck, chunk):
    """boundsconstrain(lo, hi): symbolic and impose_bounds paths, plain and embedded in 12 variables, the bounds and the
    input in rotating spellings and units; this worker handles the boxes bi with bi % nparts == part"""
    import mystic.constraints as mc
    name, hdr, a, corrupt, (start, cases), (part, nparts) = chunk
    boxes = hdr["boxes"]
    n = hdr["n"]
    NINF, PINF = hdr["ninf"], hdr["pinf"]
    built = {}
    P12 = [1, 10]

    def klass(b, lo, hi):
        fin = [(l, h) for l, h in zip(b["lo"], b["hi"]) if l != NINF or h != PINF]
        if any(needs_long_text(float(v)) for v in list(lo) + list(hi) if v is not None):
            return "bound-needs-more-than-15-digits"
        if not fin:
            return "unbounded"
        if any(l == h for l, h in zip(b["lo"], b["hi"])):
            return "degenerate-side"
        return "regular"

    def build(bi, path, embed, S, spell, kw):
        key = (bi, path, embed, S, spell, kw)
        if key not in built:
            b = boxes[bi]
            lo, hi, spell_ = spell_bounds(b, hdr, S, spell, bi)
            if embed:
                free = (float("-inf"), float("inf")) if spell_ in ("array", "tuple", "intarray") else (None, None)
                if spell_ == "intarray":
                    spell_ = "array"
                LO, HI = [free[0]] * 12, [free[1]] * 12
                for j, p in enumerate(P12):
                    LO[p], HI[p] = lo[j], hi[j]
                lo, hi = LO, HI
            kwds = {}
            if path != "symbolic":
                kwds["symbolic"] = False
            elif kw:
                kwds["symbolic"] = True                                # the default, spelled out
            if kw and path != "symbolic":
                kwds["clip"] = True                                    # the default, spelled out
            try:
                with contextlib.redirect_stdout(io.StringIO()):        # mystic prints diagnostics
                    fn = mc.boundsconstrain(*wrap_bounds(lo, hi, spell_), **kwds)
                built[key] = (fn, None, lo, hi, spell_, kwds)
            except Exception as ex:
                built[key] = (None, ex, lo, hi, spell_, kwds)
        return built[key]

    sampled = 0
    for ci, c in enumerate(cases, start):
        x = c["x"]
        inb = set(c["inb"])
        for bi, b in enumerate(boxes):
            if bi % nparts != part:
                continue
            exp0 = list(c["y"][bi])
            if corrupt and (ci + bi) % 31 == 0:
                exp0[0] += 1
            v = ci + bi
            # the plain spelling for every (point, box) and the same pair in a rotating unit / spelling of bounds and input
            u = (v + bi) % len(BOX_UNITS)
            variants = [(1, "float", "float", 0),
                        (BOX_UNITS[u], BOX_SPELL[(u + bi) % len(BOX_SPELL)], BOX_XKIND[v % len(BOX_XKIND)], (u + bi) % 2)]
            for S, spell, xkind, kw in variants:
                exp = [e * S for e in exp0]
                xs = [xv * S for xv in x]
                if xkind == "intarray" and not (float(S) == int(S) and S < 2 ** 41):
                    xkind = "array"                 # an int64 vector cannot hold a fractional bound: numpy's rule, not mystic's
                if xkind in ("int", "npint", "intarray") and not L.int_ok(xs, 2 ** 62):
                    xkind = L.KIND_TWIN[xkind]
                for path in ("symbolic", "impose_bounds"):
                    for embed in ((False, True) if v % 4 == 0 and (S == 1 or u % 3 == 0) else (False,)):
                        fn, err, lo, hi, spell_, kwds = build(bi, path, embed, S, spell, kw)
                        ck.case(nontrivial=(bi + 1) not in inb, key=("box", bi, tuple(x)))
                        for tagk in ("box-bounds=" + spell_, "box-input=" + xkind, "box-unit=%r" % S, "box-kwds=%s" % ",".join(sorted(kwds))):
                            ck.extra["spelling:" + tagk] = ck.extra.get("spelling:" + tagk, 0) + 1
                        if embed:
                            xin = [L.FILL + j for j in range(12)]
                            for j, p in enumerate(P12):
                                xin[p] = xs[j]
                        else:
                            xin = list(xs)
                        xin = L.container(xin, xkind)
                        kl = klass(b, lo, hi)
                        intfrac = xkind in ("int", "npint") and not L.int_ok([t for t in lo + hi if t is not None and abs(t) != float("inf")])
                        detail = {"min": lo, "max": hi, "bounds_spelling": spell_, "kwds": kwds, "path": path, "unit": S, "input_kind": xkind,
                                  "input": [float(t) for t in xin], "expected_clip": exp, "box_class": kl}
                        key = "box:%s:%s:" % (path, kl)
                        if intfrac:
                            key += "integer-input:non-integer-bound:"
                        call = "boundsconstrain(%r, %r%s)" % (lo, hi, "".join(", %s=%r" % kv for kv in sorted(kwds.items())))
                        if fn is None:
                            ck.violation(key + "raises:" + type(err).__name__, dict(detail, error=repr(err)), "%s raised %r" % (call, err))
                            continue
                        try:
                            y = fn(xin)
                            yv = [y[p] for p in P12] if embed else list(y)
                            pad = [j for j in range(12) if j not in P12 and not (y[j] == L.FILL + j)] if embed else []
                        except Exception as ex:
                            ck.violation(key + "call-raises:" + type(ex).__name__, dict(detail, error=repr(ex)),
                                         "%s(%r) raised %r" % (call, xin, ex))
                            continue
                        detail["output"] = [float(t) for t in y]
                        inside = all((l == NINF or yy >= l * S) and (h == PINF or yy <= h * S) for yy, l, h in zip(yv, b["lo"], b["hi"]))
                        if len(y) != len(xin):
                            what = "length"
                        elif pad:
                            what = "padding-changed"
                        elif not inside:
                            what = "outside-box"
                        elif (bi + 1) in inb and not all(p == q for p, q in zip(yv, xs)):
                            what = "inside-point-moved"
                        elif not all(p == q for p, q in zip(yv, exp)):
                            what = "not-clipped-to-nearest-bound"
                        else:
                            what = None
                            if sampled < 1 and (bi + 1) not in inb and embed and S != 1:
                                sampled += 1
                                ck.sample({"run": "box", "min": lo, "max": hi, "path": path, "input": [float(t) for t in xin],
                                           "output": [float(t) for t in y], "spec_clip": exp0, "unit": S})
                        if what and what != "length" and not pad and all(abs(p - q) <= 1e-14 * abs(q) for p, q in zip(yv, exp)) and \
                                kl == "bound-needs-more-than-15-digits":
                            detail["observed_as"] = what
                            key, what = "box:%s:%s:" % (path, kl), "result-off-by-the-rounding-of-the-bound"
                        elif what and intfrac and what != "length" and not pad and all(p == int(q) for p, q in zip(yv, exp)):
                            detail["observed_as"] = what
                            key, what = "box:%s:integer-input:non-integer-bound:" % path, "result-truncated"
                        if what:
                            ck.violation(key + what, detail, "%s(%r) = %r, Clip = %r: %s" % (call, xin, list(y), exp, what))
        if part == 0:
            ck.trace()


def explore(ck, a, runs, corrupt=False, only=None, stride=1):
    import warnings
    warnings.simplefilter("ignore")
    import mystic.symbolic as ms
    import mystic.constraints as mc
    ck.exhaustive = stride == 1
    for name, hdr, cases, res in runs:
        bad = L.first_violation(res)
        if bad is not None:
            ck.violation("spec:" + bad.violated, {"tlc": bad.out[-4000:]}, "TLC: design invariant %s violated in LinRel (%s)" % (bad.violated, name))
        ck.mc(L.merged(res), "LinRel/" + name)
        if only and name not in only:
            continue
        if stride > 1 and name != "box":
            cases = cases[::stride]
        if name == "box":
            nparts = max(1, min(a.jobs, 8))
            chunks = [(name, hdr, a, corrupt, (0, cases), (part, nparts)) for part in range(nparts)]
        else:
            chunks = [(name, hdr, a, corrupt, sl) for sl in L.chunked(cases, 4 * a.jobs if len(cases) > 2000 else 1)]
        L.parallel_replay(ck, replay_boxes if name == "box" else replay_relations, chunks, a.jobs)
    sp = {k[len("spelling:"):]: v for k, v in ck.extra.items() if k.startswith("spelling:")}
    for k in [k for k in ck.extra if k.startswith("spelling:")]:
        del ck.extra[k]
    ck.extra["spellings_replayed"] = dict(sorted(sp.items()))       # how often each concrete spelling / unit was replayed
    ck.assumptions = [
        "inputs are integer vectors (times a power of two for the huge-magnitude schemes) and coefficients small integers, so "
        "IEEE arithmetic of the generated code is exact and a float can be compared with the integer TLC printed",
        "huge and tiny magnitudes rest on ScaleLemma of LinRel.tla (the integers of the spec are multiples of an arbitrary unit; "
        "checked by TLC for S in {2, 1000}; used with the units 2^40, 2^60, 2^-30, 2^-400, 2^-1000) and cover degree-one right-hand "
        "sides only; units below the strictness tolerance 1e-15 only for texts whose comparators bring no tolerance in (=, <=, >=); "
        "units that are no power of two (0.1, 1e-10, 1e10, 1e300, 1e-300) only for texts without arithmetic (right-hand side a "
        "constant or +-one variable), where every float the code sees is one the harness computed by the same single product",
        "an int64 / float32 ndarray as input only where the specified outcome is an integer (comparators =, <=, >=, unit 1): such an "
        "array cannot hold rhs +- 1e-15 (numpy's assignment rule, the generated code writes into the vector it is given); tuples "
        "(no item assignment) and `variables` as a tuple / ndarray raise on the unchanged tree and are outside the domain",
        "boxes: Clip commutes with every positive unit (BoxScaleLemma, TLC: S in {2, 1000}); harness: one monotone float product per "
        "number; an int64 ndarray as input only at integer units",
        "feasible inputs closer to the boundary than the documented tolerance(rhs) = 1e-15*(1+|rhs|) are outside the class "
        "(on the integer lattice a feasible input is at distance >= 1 >> tolerance)",
        "rendering of relation records as text (harness/linrel_common.py) is a documented bijection guarded by evaluating the "
        "rendered right-hand side against TLC's value; default locals tol = rel = 1e-15",
        "systems: no left-hand variable occurs in a right-hand side (the premise of C13); runs single/pair/triple: distinct "
        "left-hand variables; runs grp2/grp3/grpmix: two or three lines on the same left-hand variable (LinRelGrp.tla), judged "
        "jointly per variable by the tuple of signs (y_i - rhs_k); join=None, default coupler",
        "same-variable runs: inputs and right-hand values on the even integers so that every sign pattern a real output can "
        "show is shown by an integer candidate of the spec (EvenLattice, GrpComplete checked by TLC); a system that is "
        "contradictory at the input point (TLC: GrpResult empty, e.g. 'x >= 2, x <= 0', 'x = f, x != f', 'x = x1, x != 2' at "
        "x1 = 2) is outside the premise: counted as a trivial case, not executed, never a violation",
        "replayed pipeline: generate_constraint(generate_solvers(text)) on the isolated-form text directly; simplify() is not in "
        "the path (its merge() turns 'A >= c, A <= c' into 'A = c' and returns None for 'A > c, A < c'; pairs of a bound and "
        "'!=' pass through it unchanged, so they reach constraints_parser as replayed here)"]


# ------------------------------------------------------------------------------------------------
# mutants that only the SPELLINGS / BOUNDARY VALUES added with the hardening can see (every input of the earlier
# enumeration -- python floats / ints in lists, one-digit constants at unit 1, every argument given, one-line-per-line
# text -- behaves as before under each of them).  At module level so that they can also be run against an older check.
_PATCHED = []


def _patch(obj, attr, val):
    _PATCHED.append((obj, attr, getattr(obj, attr)))
    setattr(obj, attr, val)


def unpatch_all():
    while _PATCHED:
        obj, attr, val = _PATCHED.pop()
        setattr(obj, attr, val)


def hardening_mutants():
    import re
    import numpy
    import mystic.symbolic as ms
    import mystic.constraints as mc
    from mystic.tools import flatten
    orig_cp, orig_gs, orig_gc, orig_sb = ms.constraints_parser, ms.generate_solvers, ms.generate_constraint, ms.symbolic_bounds

    def m_ndim_off_by_one():
        # nvars omitted: the number of variables read off the text is one too small (max index instead of max index + 1)
        def constraints_parser(constraints, variables='x', nvars=None):
            if nvars is None and isinstance(variables, str):
                found = [int(v[len(variables):]) for v in ms.get_variables(constraints, variables)]
                if found:
                    nvars = max(found)
            return orig_cp(constraints, variables=variables, nvars=nvars)
        _patch(ms, "constraints_parser", constraints_parser)

    def m_bare_solver_ignored():
        # 'a constraint solver, or list of constraint solvers': the single function is not wrapped into a list but dropped
        def generate_constraint(conditions, ctype=None, join=None, **kwds):
            if callable(conditions):
                conditions = []
            return orig_gc(conditions, ctype, join, **kwds)
        _patch(ms, "generate_constraint", generate_constraint)

    def m_indented_lines_dropped():
        # lines that begin with white space (the layout of every docstring example) are taken for continuation lines
        def constraints_parser(constraints, variables='x', nvars=None):
            kept = "\n".join(ln for ln in constraints.split("\n") if ln[:1] not in (" ", "\t"))
            return orig_cp(kept, variables=variables, nvars=nvars)
        _patch(ms, "constraints_parser", constraints_parser)

    def m_bounds_text_6_decimals():
        # symbolic_bounds writes the bounds with '%f' (six decimals, no exponent)
        def symbolic_bounds(min, max, variables=None):
            text = orig_sb(min, max, variables)
            return re.sub(r"(>=|<=) (\S+)", lambda m: "%s %f" % (m.group(1), float(m.group(2))) if abs(float(m.group(2))) < 1e30 else m.group(0), text)
        _patch(ms, "symbolic_bounds", symbolic_bounds)

    def m_neq_isclose():
        # '!=' compares with numpy.isclose (atol 1e-8) instead of equal: values that are tiny but different count as equal
        def generate_solvers(constraints, variables='x', nvars=None, locals=None):
            solv = orig_gs(constraints, variables, nvars, locals)
            for f in flatten(solv):
                f.__globals__["equal"] = lambda p, q: numpy.isclose(p, q)
            return solv
        _patch(ms, "generate_solvers", generate_solvers)

    def m_constants_8_decimals():
        # numeric constants of the text are rounded to 8 decimals
        num = re.compile(r"(?<![\w.])(\d+\.\d*(?:[eE][+-]?\d+)?|\.\d+(?:[eE][+-]?\d+)?)")
        def constraints_parser(constraints, variables='x', nvars=None):
            return orig_cp(num.sub(lambda m: repr(round(float(m.group(1)), 8)), constraints), variables=variables, nvars=nvars)
        _patch(ms, "constraints_parser", constraints_parser)

    def m_bounds_tuple_written():
        # symbolic_bounds normalises min / max in place (a caller's tuple cannot be written)
        def symbolic_bounds(min, max, variables=None):
            for i in range(len(min)):
                min[i] = min[i]
            return orig_sb(min, max, variables)
        _patch(ms, "symbolic_bounds", symbolic_bounds)

    orig_bounded = mc.bounded

    def m_int_working_array():
        # bounded() keeps the dtype of an integer input vector: a fractional bound written into it is truncated
        def bounded(seq, bounds, index=None, clip=True, nearest=True):
            given = numpy.array(seq)
            out = orig_bounded(seq, bounds, index, clip, nearest)
            return out.astype(given.dtype) if given.dtype.kind in "iu" else out
        _patch(mc, "bounded", bounded)

    return [("impose_bounds path: integer working array truncates a fractional bound", m_int_working_array, ["box"]),
            ("nvars omitted: number of variables read off the text is one too small", m_ndim_off_by_one, ["single", "long"]),
            ("generate_constraint drops a solver handed over as the bare function", m_bare_solver_ignored, ["single", "long"]),
            ("lines beginning with white space are not compiled (docstring layout)", m_indented_lines_dropped, ["single", "pair"]),
            ("symbolic_bounds writes the bounds with six decimals", m_bounds_text_6_decimals, ["box"]),
            ("'!=' compares with isclose instead of equal (tiny but different values)", m_neq_isclose, ["single", "grp2"]),
            ("constants of the text rounded to 8 decimals", m_constants_8_decimals, ["single", "grp2"]),
            ("symbolic_bounds writes into the caller's min (tuples)", m_bounds_tuple_written, ["box"])]


def selftest(a, runs):
    """in-memory mutants of mystic.symbolic / constraints / math that the replay must catch"""
    import io, contextlib, re
    import mystic.symbolic as ms
    import mystic.constraints as mc
    import mystic.math as mm
    # violation classes already present on the unmodified tree do not count as "caught"
    ck = new_check(a)
    ck.outdir = "/dev/shm/verif_selftest_C13"
    with contextlib.redirect_stdout(io.StringIO()):
        explore(ck, a, runs, only=["single", "long", "pair", "box"] + ["grp2", "grp3", "grpmix"], stride=3)
    BASELINE_KEYS = set(ck.viol_keys)
    orig_cp, orig_rv, orig_tol, orig_ib, orig_gc = ms.constraints_parser, ms.replace_variables, mm.tolerance, mc.impose_bounds, ms.generate_constraint

    def wrap_cp(fn):
        def constraints_parser(constraints, variables='x', nvars=None):
            return tuple(fn(e) for e in orig_cp(constraints, variables=variables, nvars=nvars))
        return constraints_parser

    def m_minmax():
        ms.constraints_parser = wrap_cp(lambda e: e.replace("max(", "\0").replace("min(", "max(").replace("\0", "min("))

    def m_tolsign():
        ms.constraints_parser = wrap_cp(lambda e: re.sub(r"([+-]) _tol\(", lambda m: ("- " if m.group(1) == "+" else "+ ") + "_tol(", e)
                                        if "any(equal" not in e and "equal(" not in e.split("=", 1)[1][:40] else e)

    def m_tolzero():
        mm.tolerance = lambda x, tol=1e-15, rel=1e-15: 0.0

    def m_x10():
        def constraints_parser(constraints, variables='x', nvars=None):
            if isinstance(variables, str):
                constraints = re.sub(r"\b%s1(\d)\b" % variables, variables + "1", constraints)      # x10, x11 read as x1
            return orig_cp(constraints, variables=variables, nvars=nvars)
        ms.constraints_parser = constraints_parser

    def m_named_order():
        def replace_variables(constraints, variables=None, markers='$'):
            if isinstance(variables, (list, tuple)) and isinstance(markers, str):
                for i, v in enumerate(variables):            # no longest-first ordering
                    constraints = constraints.replace(v, markers + str(i))
                return constraints
            return orig_rv(constraints, variables, markers)
        ms.replace_variables = replace_variables

    def m_always_assign():
        ms.constraints_parser = wrap_cp(lambda e: re.sub(r"= (?:min|max)\((.*), (x\[\d+\])\)\s*$", r"= \1", e))

    def m_neq_noop():
        ms.constraints_parser = wrap_cp(lambda e: e.replace("* 1.1)", "* 0.0)"))

    # --- several relations on the same left-hand variable (LinRelGrp) ---
    def m_eta_le_dropped():
        # the seeded slip: '<=' meeting '!=' on the same variable gets no eta term (lands on the forbidden bound)
        ms.constraints_parser = wrap_cp(lambda e: e.replace("* any(equal(", "* 0 * any(equal(") if "= min(" in e else e)

    def m_eta_ge_sign():
        # '>=' meeting '!=': eta subtracted instead of added (ends below the bound)
        ms.constraints_parser = wrap_cp(lambda e: e.replace(" + (_tol(", " - (_tol(") if "= max(" in e else e)

    def m_neq_dropped_with_bound():
        # the '!=' line is not compiled when the same variable also has a '<', '<=', '>', '>=' line
        def constraints_parser(constraints, variables='x', nvars=None):
            out = orig_cp(constraints, variables=variables, nvars=nvars)
            lhs = lambda e: e.split("=", 1)[0].strip()
            bounded = set(lhs(e) for e in out if "= min(" in e or "= max(" in e)
            return tuple(e for e in out if not (" + equal(" in e and lhs(e) in bounded))
        ms.constraints_parser = constraints_parser

    def m_eta_textual():
        # eta only when the bound and the forbidden value are the same TEXT (not the same value at the point)
        def fix(e):
            for fn, sg in (("= min(", " - (_tol("), ("= max(", " + (_tol(")):
                if fn in e and sg in e:
                    rhs = e.split(fn, 1)[1].split(sg, 1)[0]
                    head = "any(equal(%s,[" % rhs
                    if head in e:
                        neqs = e.split(head, 1)[1].split("]))", 1)[0]
                        return e.replace(head + neqs + "]))", str(rhs in neqs.split(",")))
            return e
        ms.constraints_parser = wrap_cp(fix)

    def m_second_coord():
        def generate_constraint(conditions, ctype=None, join=None, **kwds):
            cf = orig_gc(conditions, ctype, join, **kwds)
            def constraint(x):
                before = list(x)
                y = cf(x)
                if any(not (p == q) for p, q in zip(before, y)):
                    y[-1] = y[-1] + 1                       # a move also touches the last coordinate
                return y
            return constraint
        ms.generate_constraint = generate_constraint

    def m_bounds_far():
        def boundsconstrain(min, max, **kwds):
            lo = [float("-inf") if v is None else v for v in min]
            hi = [float("inf") if v is None else v for v in max]
            def cons(x):
                return [(h if v < l else (l if v > h else v)) if (l > float("-inf") and h < float("inf")) else
                        (l if v < l else (h if v > h else v)) for v, l, h in zip(x, lo, hi)]
            return cons
        mc.boundsconstrain = boundsconstrain

    orig_bc = mc.boundsconstrain
    GRP = ["grp2", "grp3", "grpmix"]
    mutants = [("constraints_parser: max/min swapped", m_minmax, None),
               ("constraints_parser: tolerance sign flipped for < and >", m_tolsign, None),
               ("math.tolerance returns 0 (strict comparators land on the boundary)", m_tolzero, None),
               ("index replacement reads x10/x11 as x1", m_x10, None),
               ("replace_variables without longest-name-first ordering", m_named_order, None),
               ("inequalities always assign the bound (feasible input moved)", m_always_assign, None),
               ("'!=' leaves an equal input where it is", m_neq_noop, None),
               ("a move also changes another coordinate", m_second_coord, None),
               ("'<=' meeting '!=' on the same variable gets no eta (seeded slip C13a)", m_eta_le_dropped, GRP),
               ("'>=' meeting '!=' on the same variable: eta sign flipped", m_eta_ge_sign, GRP),
               ("'!=' line dropped when the variable also has a bound", m_neq_dropped_with_bound, GRP),
               ("eta only when bound and forbidden value are textually identical", m_eta_textual, GRP),
               ("corrupted expectation from TLC (same-variable groups)", lambda: None, "corrupt-grp"),
               ("boundsconstrain clips to the far bound", m_bounds_far, ["box"]),
               ("corrupted expectation from TLC", lambda: None, "corrupt")]
    mutants += hardening_mutants()
    mutants.append(("corrupted expectation from TLC (multi-digit run)", lambda: None, "corrupt-long"))
    missed = 0
    from harness.tlc import run_tlc
    rneg = run_tlc("sym/MC_LinRelSys", cfg="MC_LinRelSys_neg.cfg", workers=1)
    okneg = rneg.violated == "DependentAlsoHold"
    print("SELFTEST spec negative control (lines that feed one another: TLC must refute 'all lines hold'): %s" % ("caught" if okneg else "MISSED"))
    missed += 0 if okneg else 1
    rneg = run_tlc("sym/MC_LinRelGrp", cfg="MC_LinRelGrp_neg.cfg", workers=1)
    okneg = rneg.violated == "DependentAlsoHold"
    print("SELFTEST spec negative control (line-by-line semantics on 'x <= 2, x != 2': TLC must refute 'all lines hold', "
          "so the joint group semantics of LinRelGrp is needed): %s" % ("caught" if okneg else "MISSED"))
    missed += 0 if okneg else 1
    for nm, mut, mode in mutants:
        mut()
        ck = new_check(a)
        ck.outdir = "/dev/shm/verif_selftest_C13"
        buf = io.StringIO()
        with contextlib.redirect_stdout(buf):
            try:
                explore(ck, a, runs, corrupt=(mode in ("corrupt", "corrupt-grp", "corrupt-long")),
                        only=(mode if isinstance(mode, list) else GRP if mode == "corrupt-grp" else ["long"] if mode == "corrupt-long"
                              else ["single", "pair", "box"]), stride=3)
            except Exception as ex:
                print("mutant raised", repr(ex))
                ck.violations += 1
        ms.constraints_parser, ms.replace_variables, mm.tolerance, ms.generate_constraint = orig_cp, orig_rv, orig_tol, orig_gc
        mc.boundsconstrain = orig_bc
        unpatch_all()
        keys = sorted(ck.viol_keys)
        new = [k for k in keys if k not in BASELINE_KEYS]
        caught = bool(new) or (ck.violations and not keys)
        print("SELFTEST %s: %s (%d violations, e.g. %s)" % (nm, "caught" if caught else "MISSED", ck.violations, new[:2]))
        missed += 0 if caught else 1
    import shutil
    shutil.rmtree("/dev/shm/verif_selftest_C13", ignore_errors=True)
    return 1 if missed else 0


def replay_artefact(path):
    """bin/check C13 --replay out/C13/replay_*.json : run the recorded case again on the current tree"""
    import json, warnings
    warnings.simplefilter("ignore")
    import mystic.symbolic as ms
    import mystic.constraints as mc
    d = json.load(open(path))["detail"]
    if "min" in d:
        unjson = lambda v: float(v) if isinstance(v, str) else v            # 'inf' / '-inf' are written as strings
        lo, hi = [unjson(v) for v in d["min"]], [unjson(v) for v in d["max"]]
        kwds = d.get("kwds", {"symbolic": d["path"] == "symbolic"})
        with contextlib.redirect_stdout(io.StringIO()):
            fn = mc.boundsconstrain(*wrap_bounds(lo, hi, d.get("bounds_spelling", "float")), **kwds)
        xin = L.container([unjson(v) for v in d["input"]], d.get("input_kind", "float"))
        y = list(fn(xin))
        exp = d["expected_clip"]
        got = [y[1], y[10]] if len(y) == 12 else y
        ok = all(p == q for p, q in zip(got, exp))
        print("boundsconstrain(%r, %r, **%r)(%r) = %r; Clip = %r" % (lo, hi, kwds, xin, y, exp))
    else:
        kw = {"variables": d["variables"], "nvars": d["nvars"], "locals": dict(d["locals"])}
        api = d.get("api", 0)                       # the spelling of the arguments of the recorded case (see api_kwds)
        if api in (1, 3):
            del kw["nvars"]
        if api == 2 and not d["locals"]:
            kw["locals"] = None
        if api == 3 and not d["locals"]:
            del kw["locals"]
        if api == 3 and d["variables"] == "x":
            del kw["variables"]
        solv = ms.generate_solvers(d["text"], **kw)
        cons = ms.generate_constraint((solv[0] if len(solv) == 1 else list(solv)) if api == 3 else solv)
        x = list(d["input"])
        y = list(cons(L.container(list(x), d.get("input_kind", "float"))))
        e, S = d["expected"], d["scale"]
        spec_pos = d["lhs_positions"]
        may = set(spec_pos[k] for k in range(len(spec_pos)) if not e["feasible"][k])
        ok = all(y[j] == x[j] or j in may for j in range(len(x)))
        if "groups" in e:
            for gr in e["groups"]:
                tup = [sgn(y[spec_pos[k - 1]] - e["rhs"][k - 1] * S) for k in gr["lines"]]
                ok = ok and tup in [list(t) for t in gr["allowed_sign_tuples"]]
            allowed = [(gr["lines"], gr["allowed_sign_tuples"]) for gr in e["groups"]]
        else:                                       # artefacts written before the same-variable groups existed
            for p, r, al in zip(spec_pos, e["rhs"], e["allowed_signs"]):
                ok = ok and sgn(y[p] - r * S) in al
            allowed = e["allowed_signs"]
        print("%r (variables=%r): %r -> %r; rhs %r, allowed signs of y_i - rhs (per group of lines) %r" % (d["text"], d["variables"], x, y, e["rhs"], allowed))
    print("replay: %s" % ("property holds on this case now" if ok else "VIOLATION reproduced"))
    return 0 if ok else 1


def main():
    a = tier_seed()
    assert_repo()
    if a.replay:
        try:
            return replay_artefact(a.replay)
        except (KeyError, OSError, ValueError):
            raise                                   # unreadable artefact: machinery failure
        except Exception as ex:                     # mystic raised on the recorded case
            print("replay: VIOLATION reproduced (%r)" % ex)
            return 1
    ck = new_check(a)
    runs = gather(a)
    if a.selftest:
        return selftest(a, runs)
    explore(ck, a, runs)
    return ck.finish()


if __name__ == "__main__":
    main_guard(main)
