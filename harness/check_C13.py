"""C13 -- compiled constraint functions enforce exactly the stated relation.

spec -> code.  TLC explores the machine of specs/sym/LinRel.tla (state = current vector, action
Apply(rel): x' in CompileResult(rel, x); action Bound(b): x' = Clip(x, b)) for every system of the
run's catalogue and every input point, checks the design invariants (LastHolds, Footprint,
FeasibleFixed, IndependentAllHold, StepViewFrozen, BoxIn, BoxStep ...) and emits, per (system,
input), what the specification allows to be observed of the output:
    r[k]   the right-hand value of line k          f[k]  the input satisfies line k
    g[k]   the allowed signs of y_i - r[k]         ch    the coordinates that may differ from the input
The harness renders the system as text under several variable-name schemes (harness/linrel_common.py,
a documented bijection), builds generate_constraint(generate_solvers(text)) from the REAL mystic, runs
it on the input and compares: set of changed coordinates (incl. the padding of 12-variable schemes),
sign of y_i - r for every line (so strictness), equality with the input when feasible; the per-line
solver functions are also applied one at a time and after every step each line that held must still
hold.  Bounds: boundsconstrain(lo, hi) (symbolic and impose_bounds paths) against Clip.
Several relations on the SAME left-hand variable (specs/sym/LinRelGrp.tla, runs grp2 / grp3 / grpmix): the
spec gives the JOINT result per left-hand variable (GrpResult) and emits, per group, the allowed tuples of
signs (y_i - r[k]) over the lines of the group; an empty set = the group is contradictory at that point
(outside the premise: counted, not judged, mystic is not even required to return).  The replayed path is
generate_constraint(generate_solvers(text)) on the isolated-form text itself, as for the other runs (NOT
through simplify(), whose merge() rewrites 'A >= c, A <= c' to 'A = c' and rejects 'A > c, A < c').
Nothing about the expected outcome is computed in Python: the harness compares floats with the
integers TLC printed.
"""
import sys, random, io, contextlib
from harness.core import Check, tier_seed, assert_repo, main_guard
from harness.tlc import TLCError
from harness import linrel_common as L

RULE = ("TLC enumerates every (system, input point) of the bounded class [relations x_i op rhs, 6 comparators, rhs from "
        "an affine + nonlinear catalogue; 1, 2 and 3 independent lines; 2 and 3 lines on the SAME left-hand variable "
        "(all comparator pairs, same / different right-hand sides, intervals incl. degenerate and empty ones, both "
        "orders) alone and next to an independent line on another variable; boxes lo<=hi incl. unbounded and degenerate "
        "sides] and emits the allowed observations; every one is replayed on the real generated functions under the "
        "plain scheme and one rotating variable-name scheme / input container (list of float, list of int, ndarray), "
        "degree-one systems additionally at scale 2^40 or 2^60; a case = (run, system, point, scheme); non-trivial = "
        "the input violates at least one line or lies exactly on a boundary (x_i = rhs) / outside the box; systems that "
        "are contradictory at the point (TLC: no admissible outcome) are counted as trivial and not judged; distinct = "
        "by (run, system, point)")

RUNS = {
    "quick": [("single", "sym/MC_LinRel", "MC_LinRel_single_quick.cfg", 4),
              ("pair", "sym/MC_LinRelSys", "MC_LinRelSys_quick.cfg", 4),
              ("triple", "sym/MC_LinRelTri", "MC_LinRelTri_quick.cfg", 4),
              ("grp2", "sym/MC_LinRelGrp", "MC_LinRelGrp_pair_quick.cfg", 4),
              ("grp3", "sym/MC_LinRelGrpTri", "MC_LinRelGrpTri_same_quick.cfg", 2),
              ("grpmix", "sym/MC_LinRelGrpTri", "MC_LinRelGrpTri_mix_quick.cfg", 2),
              ("box", "sym/MC_LinRel", "MC_LinRel_box_quick.cfg", 1)],
    "thorough": [("single", "sym/MC_LinRel", "MC_LinRel_single_thorough.cfg", 16),
                 ("pair", "sym/MC_LinRelSys", "MC_LinRelSys_thorough.cfg", 16),
                 ("triple", "sym/MC_LinRelTri", "MC_LinRelTri_thorough.cfg", 16),
                 ("grp2", "sym/MC_LinRelGrp", "MC_LinRelGrp_pair_thorough.cfg", 16),
                 ("grp3", "sym/MC_LinRelGrpTri", "MC_LinRelGrpTri_same_thorough.cfg", 16),
                 ("grpmix", "sym/MC_LinRelGrpTri", "MC_LinRelGrpTri_mix_thorough.cfg", 16),
                 ("box", "sym/MC_LinRel", "MC_LinRel_box_thorough.cfg", 1)],
}


def sgn(v):
    return -1 if v < 0 else (1 if v > 0 else 0)


def new_check(a):
    return Check("C13", "exploration", a.tier, a.seed, rule=RULE)


def gather(a):
    """all TLC runs of the tier; returns [(name, hdr, cases, results)]"""
    return L.run_many(RUNS[a.tier], jobs=a.jobs)


class Compiler(object):
    """generate_constraint(generate_solvers(text)) with a per-run cache keyed by the text"""
    def __init__(self, ms):
        self.ms = ms
        self.cache = {}

    def get(self, text, sch, loc):
        key = (text, repr(sch.variables), sch.dim, tuple(sorted(loc.items())))
        c = self.cache.get(key)
        if c is None:
            solv = self.ms.generate_solvers(text, variables=sch.variables, nvars=sch.dim, locals=dict(loc))
            cons = self.ms.generate_constraint(solv)
            c = self.cache[key] = (solv, cons)
        return c

    def get_split(self, text, sch, loc, cut):
        """the same system handed to generate_solvers as a TUPLE of strings (documented alternative): lines [:cut]
        and [cut:]; generate_solvers then returns nested solver groups, which generate_constraint must flatten"""
        key = ("split", cut, text, repr(sch.variables), sch.dim, tuple(sorted(loc.items())))
        c = self.cache.get(key)
        if c is None:
            lines = text.split("\n")
            parts = ("\n".join(lines[:cut]), "\n".join(lines[cut:]))
            solv = self.ms.generate_solvers(parts, variables=sch.variables, nvars=sch.dim, locals=dict(loc))
            c = self.cache[key] = self.ms.generate_constraint(solv)
        return c


def replay_relations(ck, chunk):
    import mystic.symbolic as ms
    name, hdr, a, corrupt, (start, cases) = chunk
    n = hdr["n"]
    rels = hdr["rels"]
    hs = {op: set(v) for op, v in hdr["hs"].items()}
    thorough = a.tier == "thorough"
    schemes = L.schemes_for(n, thorough)
    huge = L.huge_schemes(n)
    kinds = ["float", "int", "array"]
    comp = Compiler(ms)
    rendered = {}
    rng = random.Random(a.seed)
    rot = rng.randrange(1000)
    sampled = 0
    earlier, seen_text = [], set()        # judged (function, input, output) of earlier texts: see `again` below
    for idx, c in enumerate(cases, start):
        s = c["s"]
        recs = [rels[k - 1] for k in s]
        x, r, f, ch = c["x"], c["r"], c["f"], set(c["ch"])
        # groups = [(lines of one left-hand variable (0-based, text order), allowed tuples of signs of y_i - r[k])];
        # the runs with distinct left-hand variables emit per-line sign sets: groups of one line
        grouped = "gl" in c
        if grouped:
            groups = [([k - 1 for k in ls], set(tuple(t) for t in ts)) for ls, ts in zip(c["gl"], c["gs"])]
        else:
            groups = [([k], set((t,) for t in gk)) for k, gk in enumerate(c["g"])]
        ops = "+".join(rc["op"] for rc in recs)
        if any(not ts for _, ts in groups):
            # contradictory at this point (TLC: no admissible outcome): outside the premise, not judged
            ck.case(nontrivial=False, key=(name, tuple(s), tuple(x)))
            ck.trace()
            continue
        if corrupt and idx % 97 == 0:                                                # corrupted expectation
            groups = [(ls, (set(tuple(-t for t in tp) for tp in ts) if any(any(tp) for tp in ts) else {(1,) * len(ls)}))
                      for ls, ts in groups]
        lonely = set(ls[0] for ls, _ in groups if len(ls) == 1)
        deg1 = all(rc["kind"] in ("aff", "abs") for rc in recs)
        boundary = any(x[rc["i"] - 1] == rr for rc, rr in zip(recs, r))
        todo = [(schemes[0], "float"), (schemes[1 + (idx + rot) % (len(schemes) - 1)], kinds[(idx + rot) % 3])]
        if deg1 and (idx + rot) % 2 == 0:
            todo.append((huge[((idx + rot) // 2) % len(huge)], kinds[((idx + rot) // 2) % 3]))
        for sch, kind in todo:
            rk = (tuple(s), sch.name)
            rd = rendered.get(rk)
            if rd is None:
                rd = rendered[rk] = L.render_sys(recs, n, sch)
                for rhs_text, rr in zip(rd[2], r):
                    L.check_rendering(rhs_text, sch, rd[1], x, rr)
            text, loc, _ = rd
            S = sch.scale
            ck.case(nontrivial=(not all(f)) or boundary, key=(name, tuple(s), tuple(x)))
            detail = {"run": name, "text": text, "variables": sch.variables, "nvars": sch.dim, "locals": loc,
                      "scheme": sch.name, "input_kind": kind, "spec_point": x, "scale": S,
                      "lhs_positions": [sch.pos[rc["i"] - 1] for rc in recs], "ops": [rc["op"] for rc in recs],
                      "expected": {"rhs": r, "feasible": f, "may_change": sorted(ch),
                                   "groups": [{"lines": [k + 1 for k in ls], "allowed_sign_tuples": sorted(ts)} for ls, ts in groups]}}
            kindtag = "+".join(sorted(set(rc["kind"] for rc in recs)))
            try:
                solv, cons = comp.get(text, sch, loc)
                xin = sch.point(x, kind)
                detail["input"] = list(xin)
                y = cons(xin)
                yv, moved = sch.project(y)
                # the same through the per-line solver functions, one step at a time (composition order of
                # generate_constraint: the last solver of the tuple runs first)
                z = sch.point(x, kind)
                held = [sgn(z[sch.pos[rc["i"] - 1]] - rr * S) in hs[rc["op"]] for rc, rr in zip(recs, r)]
                lost = None
                for fsol in reversed(solv):
                    before = list(z)
                    z = fsol(z)
                    now = [sgn(z[sch.pos[rc["i"] - 1]] - rr * S) in hs[rc["op"]] for rc, rr in zip(recs, r)]
                    # a line that held must still hold; the lines of a group of several lines on one variable are
                    # judged jointly at the end (the steps of that variable may pass through one another's bounds),
                    # so for them only steps that did not touch their variable count
                    broke = [k for k, (h, w) in enumerate(zip(held, now)) if h and not w and
                             (k in lonely or bool(z[sch.pos[recs[k]["i"] - 1]] == before[sch.pos[recs[k]["i"] - 1]]))]
                    if lost is None and broke:
                        lost = [k + 1 for k in broke]
                    held = now
                stepwise_same = all(bool(p == q) for p, q in zip(list(z), list(y))) and len(z) == len(y)
            except Exception as ex:
                detail["error"] = repr(ex)
                if any(nm in "abs" for nm in sch.names) and "abs(" in text:
                    vkey = "name-collision:variable-name-inside-abs:raises:%s" % type(ex).__name__
                else:
                    vkey = "%s:raises:%s:scheme=%s:kind=%s" % (name, type(ex).__name__, sch.name.split("*")[0], kindtag)
                ck.violation(vkey, detail,
                             "%r (variables=%r) at %r raised %r" % (text, sch.variables, x, ex))
                continue
            detail["output"] = list(y)
            problems = []
            if len(y) != sch.dim:
                problems.append(("length", "output has length %d, input %d" % (len(y), sch.dim)))
            if moved:
                problems.append(("padding-changed", "positions %s that are no variable of the text changed" % moved))
            changed = set(k + 1 for k in range(n) if not (yv[k] == x[k] * S))
            if not changed <= ch:
                if all(f):
                    problems.append(("feasible-input-moved", "input satisfies every line but coordinates %s changed" % sorted(changed)))
                else:
                    problems.append(("other-coordinate-changed", "coordinates %s changed, only %s may" % (sorted(changed), sorted(ch))))
            for ls, ts in groups:
                tup = tuple(sgn(yv[recs[k]["i"] - 1] - r[k] * S) for k in ls)
                if tup in ts:
                    continue
                failing = [k for k, sg in zip(ls, tup) if sg not in hs[recs[k]["op"]]]
                if len(ls) == 1:
                    k, rc = ls[0], recs[ls[0]]
                    what = "not-satisfied" if failing else "feasible-input-moved"
                    problems.append(("%s(%s)" % (what, rc["op"]), "line %d (%s): sign(y_i - rhs) = %d, allowed %s" % (
                        k + 1, rc["op"], tup[0], sorted(t[0] for t in ts))))
                else:
                    gops = ",".join(sorted(recs[k]["op"] for k in ls))      # class key independent of the line order
                    same = "same-rhs-value" if len(set(r[k] for k in ls)) == 1 else "different-rhs-values"
                    what = ("not-satisfied(%s)" % ",".join(recs[k]["op"] for k in failing)) if failing else "feasible-input-moved"
                    problems.append(("same-variable[%s]:%s:%s" % (gops, same, what),
                                     "lines %s on one left-hand variable (%s): signs(y_i - rhs) = %s, allowed %s" % (
                                         [k + 1 for k in ls], gops, list(tup), sorted(ts))))
            if len(recs) >= 2 and not grouped and (idx + rot) % 2 == 0:
                # the documented alternative input form: a tuple of strings (here split after line `cut`); the lines are
                # independent, so the composed constraint must give the result already judged above
                cut = 1 + (idx + rot) // 2 % (len(recs) - 1)
                try:
                    yt = comp.get_split(text, sch, loc, cut)(sch.point(x, kind))
                    if not (len(yt) == len(y) and all(bool(p == q) for p, q in zip(list(yt), list(y)))):
                        problems.append(("tuple-of-strings-differs", "the system given as a tuple of strings (lines[:%d], lines[%d:]) "
                                         "gives %r, as one string %r" % (cut, cut, list(yt), list(y))))
                except Exception as ex:
                    problems.append(("tuple-of-strings-raises:%s" % type(ex).__name__, "the system given as a tuple of strings raised %r" % ex))
            if len(recs) >= 2 and not grouped and (idx + rot) % 3 == 0:
                # the documented ways of saying how the solvers are coupled: ONE coupler type for all of them (flat and
                # nested solver groups), a list of types, and the and_ combinator (independent relations: same fixed point)
                from mystic.coupler import inner as _inner
                from mystic.constraints import and_ as _and
                form = ((idx + rot) // 3) % 4
                try:
                    if form == 0:
                        alt = ms.generate_constraint(solv, ctype=_inner)
                    elif form == 1:
                        alt = ms.generate_constraint(solv, ctype=[_inner] * len(solv))
                    elif form == 2:
                        lines_ = text.split("\n")
                        nested = ms.generate_solvers(("\n".join(lines_[:1]), "\n".join(lines_[1:])), variables=sch.variables,
                                                     nvars=sch.dim, locals=dict(loc))
                        alt = ms.generate_constraint(nested, ctype=_inner)
                    else:
                        alt = ms.generate_constraint(solv, join=_and)
                    ya = alt(sch.point(x, kind))
                    if not (len(ya) == len(y) and all(bool(p == q) for p, q in zip(list(ya), list(y)))):
                        problems.append(("coupling-form-%d-differs" % form, "generate_constraint with %s gives %r, the default gives %r" % (
                            ["ctype=inner", "ctype=[inner]*n", "ctype=inner on nested solver groups", "join=and_"][form], list(ya), list(y))))
                except Exception as ex:
                    problems.append(("coupling-form-%d-raises:%s" % (form, type(ex).__name__), "generate_constraint (form %d) raised %r" % (form, ex)))
            if lost:
                problems.append(("step-breaks-earlier-line", "applying the solvers one by one: lines %s held and were broken by a later step" % lost))
            if not stepwise_same:
                problems.append(("composition", "generate_constraint(...) differs from applying the solver functions in order: %r vs %r" % (list(y), list(z))))
            for tag, msg in problems:
                ck.violation("%s:%s:%s" % (name, ops if len(recs) == 1 else "lines=%d" % len(recs), tag), dict(detail, problem=msg),
                             "%r (scheme %s, %s input %r) -> %r: %s" % (text, sch.name, kind, detail["input"], list(y), msg))
            # A generated function is a VALUE (LinRel.tla: Result is a function of the relation and the point, there is
            # no other state): what it computes must not change because other systems were compiled meanwhile -- with
            # other locals of the same names (tol, rel, named constants).  Re-run an accepted case of an EARLIER text.
            if earlier and (idx + rot) % 5 == 0:
                j = ((idx + rot) // 5) % len(earlier)
                e_text, e_cons, e_sch, e_x, e_kind, e_y, e_loc = earlier[j]
                if e_text != text:
                    ck.extra["again_checks"] = ck.extra.get("again_checks", 0) + 1
                    if e_loc:
                        ck.extra["again_checks_with_locals"] = ck.extra.get("again_checks_with_locals", 0) + 1
                    # ... and, every other time, after compiling the earlier text itself once more with every local of it
                    # shifted and other strictness tolerances: a separate function, which must not touch the first
                    if (idx + rot) % 10 == 0:
                        try:
                            other = dict({k: v + 1 for k, v in e_loc.items()}, tol=0.25, rel=0.5)
                            ms.generate_constraint(ms.generate_solvers(e_text, variables=e_sch.variables, nvars=e_sch.dim,
                                                                       locals=other))
                            ck.extra["again_after_interfering_compile"] = ck.extra.get("again_after_interfering_compile", 0) + 1
                        except Exception:
                            pass
                    try:
                        y2 = list(e_cons(e_sch.point(e_x, e_kind)))
                    except Exception as ex:
                        y2 = repr(ex)
                    if not (isinstance(y2, list) and len(y2) == len(e_y) and all(bool(p == q) for p, q in zip(y2, e_y))):
                        ck.violation("%s:generated-function-changed-by-a-later-compile" % name,
                                     {"earlier_text": e_text, "earlier_locals": e_loc, "spec_point": e_x, "first_output": e_y,
                                      "output_now": y2, "compiled_meanwhile": text, "locals_meanwhile": loc},
                                     "%r (locals %r) at %r gave %r when it was compiled and gives %r after %r (locals %r) was compiled"
                                     % (e_text, e_loc, e_x, e_y, y2, text, loc))
            if not problems and (text, sch.name) not in seen_text and (not all(f)):
                seen_text.add((text, sch.name))
                if len(earlier) < 48:
                    earlier.append((text, cons, sch, x, kind, list(y), dict(loc)))
                else:
                    earlier[(idx + rot) % 48] = (text, cons, sch, x, kind, list(y), dict(loc))
            if not problems and sampled < 2 and (not all(f)) and sch is not schemes[0]:
                sampled += 1
                ck.sample({"run": name, "text": text, "variables": sch.variables, "nvars": sch.dim, "input": detail["input"],
                           "output": [float(t) for t in y], "spec": detail["expected"]})
        ck.trace()


def bound_value(v, hdr, alt):
    if v == hdr["ninf"]:
        return None if alt else float("-inf")
    if v == hdr["pinf"]:
        return None if alt else float("inf")
    return float(v)


def replay_boxes(ck, chunk):
    """boundsconstrain(lo, hi): symbolic and impose_bounds paths, plain and embedded in 12 variables"""
    import mystic.constraints as mc
    name, hdr, a, corrupt, (start, cases) = chunk
    boxes = hdr["boxes"]
    n = hdr["n"]
    NINF, PINF = hdr["ninf"], hdr["pinf"]
    built = {}
    P12 = [1, 10]

    def klass(b):
        fin = [(l, h) for l, h in zip(b["lo"], b["hi"]) if l != NINF or h != PINF]
        if not fin:
            return "unbounded"
        if any(l == h for l, h in zip(b["lo"], b["hi"])):
            return "degenerate-side"
        return "regular"

    def build(bi, path, embed):
        key = (bi, path, embed)
        if key not in built:
            b = boxes[bi]
            lo = [bound_value(v, hdr, (bi + j) % 2) for j, v in enumerate(b["lo"])]
            hi = [bound_value(v, hdr, (bi + j + 1) % 2) for j, v in enumerate(b["hi"])]
            if embed:
                LO, HI = [None] * 12, [None] * 12
                for j, p in enumerate(P12):
                    LO[p], HI[p] = lo[j], hi[j]
                lo, hi = LO, HI
            try:
                with contextlib.redirect_stdout(io.StringIO()):        # mystic prints diagnostics
                    fn = mc.boundsconstrain(list(lo), list(hi), symbolic=(path == "symbolic"))
                built[key] = (fn, None, lo, hi)
            except Exception as ex:
                built[key] = (None, ex, lo, hi)
        return built[key]

    sampled = 0
    for ci, c in enumerate(cases, start):
        x = c["x"]
        inb = set(c["inb"])
        for bi, b in enumerate(boxes):
            exp = list(c["y"][bi])
            if corrupt and (ci + bi) % 31 == 0:
                exp[0] += 1
            for path in ("symbolic", "impose_bounds"):
                for embed in ((False, True) if (ci + bi) % 4 == 0 else (False,)):
                    fn, err, lo, hi = build(bi, path, embed)
                    ck.case(nontrivial=(bi + 1) not in inb, key=("box", bi, tuple(x)))
                    if embed:
                        xin = [L.FILL + j for j in range(12)]
                        for j, p in enumerate(P12):
                            xin[p] = float(x[j])
                    else:
                        xin = [float(v) for v in x]
                    detail = {"min": lo, "max": hi, "path": path, "input": list(xin), "expected_clip": exp, "box_class": klass(b)}
                    key = "box:%s:%s:" % (path, klass(b))
                    if fn is None:
                        ck.violation(key + "raises:" + type(err).__name__, dict(detail, error=repr(err)),
                                     "boundsconstrain(%r, %r, symbolic=%s) raised %r" % (lo, hi, path == "symbolic", err))
                        continue
                    try:
                        y = fn(list(xin))
                        yv = [y[p] for p in P12] if embed else list(y)
                        pad = [j for j in range(12) if j not in P12 and not (y[j] == L.FILL + j)] if embed else []
                    except Exception as ex:
                        ck.violation(key + "call-raises:" + type(ex).__name__, dict(detail, error=repr(ex)),
                                     "boundsconstrain(%r, %r, symbolic=%s)(%r) raised %r" % (lo, hi, path == "symbolic", xin, ex))
                        continue
                    detail["output"] = list(y)
                    inside = all((l == NINF or yy >= l) and (h == PINF or yy <= h) for yy, l, h in zip(yv, b["lo"], b["hi"]))
                    if pad:
                        what = "padding-changed"
                    elif not inside:
                        what = "outside-box"
                    elif (bi + 1) in inb and not all(p == q for p, q in zip(yv, x)):
                        what = "inside-point-moved"
                    elif not all(p == q for p, q in zip(yv, exp)):
                        what = "not-clipped-to-nearest-bound"
                    else:
                        what = None
                        if sampled < 1 and (bi + 1) not in inb and embed:
                            sampled += 1
                            ck.sample({"run": "box", "min": lo, "max": hi, "path": path, "input": xin,
                                       "output": [float(t) for t in y], "spec_clip": exp})
                    if what:
                        ck.violation(key + what, detail, "boundsconstrain(%r, %r, symbolic=%s)(%r) = %r, Clip = %r: %s" % (
                            lo, hi, path == "symbolic", xin, list(y), exp, what))
        ck.trace()


def explore(ck, a, runs, corrupt=False, only=None, stride=1):
    import warnings
    warnings.simplefilter("ignore")
    import mystic.symbolic as ms
    import mystic.constraints as mc
    ck.exhaustive = stride == 1
    for name, hdr, cases, res in runs:
        bad = L.first_violation(res)
        if bad is not None:
            ck.violation("spec:" + bad.violated, {"tlc": bad.out[-4000:]}, "TLC: design invariant %s violated in LinRel (%s)" % (bad.violated, name))
        ck.mc(L.merged(res), "LinRel/" + name)
        if only and name not in only:
            continue
        if stride > 1 and name != "box":
            cases = cases[::stride]
        chunks = [(name, hdr, a, corrupt, sl) for sl in L.chunked(cases, 4 * a.jobs if len(cases) > 2000 else 1)]
        L.parallel_replay(ck, replay_boxes if name == "box" else replay_relations, chunks, a.jobs)
    ck.assumptions = [
        "inputs are integer vectors (times a power of two for the huge-magnitude schemes) and coefficients small integers, so "
        "IEEE arithmetic of the generated code is exact and a float can be compared with the integer TLC printed",
        "huge magnitudes rest on ScaleLemma of LinRel.tla (checked by TLC for S in {2, 1000}; used with S = 2^40, 2^60) and "
        "cover degree-one right-hand sides only",
        "feasible inputs closer to the boundary than the documented tolerance(rhs) = 1e-15*(1+|rhs|) are outside the class "
        "(on the integer lattice a feasible input is at distance >= 1 >> tolerance)",
        "rendering of relation records as text (harness/linrel_common.py) is a documented bijection guarded by evaluating the "
        "rendered right-hand side against TLC's value; default locals tol = rel = 1e-15",
        "systems: no left-hand variable occurs in a right-hand side (the premise of C13); runs single/pair/triple: distinct "
        "left-hand variables; runs grp2/grp3/grpmix: two or three lines on the same left-hand variable (LinRelGrp.tla), judged "
        "jointly per variable by the tuple of signs (y_i - rhs_k); join=None, default coupler",
        "same-variable runs: inputs and right-hand values on the even integers so that every sign pattern a real output can "
        "show is shown by an integer candidate of the spec (EvenLattice, GrpComplete checked by TLC); a system that is "
        "contradictory at the input point (TLC: GrpResult empty, e.g. 'x >= 2, x <= 0', 'x = f, x != f', 'x = x1, x != 2' at "
        "x1 = 2) is outside the premise: counted as a trivial case, not executed, never a violation",
        "replayed pipeline: generate_constraint(generate_solvers(text)) on the isolated-form text directly; simplify() is not in "
        "the path (its merge() turns 'A >= c, A <= c' into 'A = c' and returns None for 'A > c, A < c'; pairs of a bound and "
        "'!=' pass through it unchanged, so they reach constraints_parser as replayed here)"]


# ------------------------------------------------------------------------------------------------
def selftest(a, runs):
    """in-memory mutants of mystic.symbolic / constraints / math that the replay must catch"""
    import io, contextlib, re
    import mystic.symbolic as ms
    import mystic.constraints as mc
    import mystic.math as mm
    # violation classes already present on the unmodified tree do not count as "caught"
    ck = new_check(a)
    ck.outdir = "/dev/shm/verif_selftest_C13"
    with contextlib.redirect_stdout(io.StringIO()):
        explore(ck, a, runs, only=["single", "pair", "box"] + ["grp2", "grp3", "grpmix"], stride=3)
    BASELINE_KEYS = set(ck.viol_keys)
    orig_cp, orig_rv, orig_tol, orig_ib, orig_gc = ms.constraints_parser, ms.replace_variables, mm.tolerance, mc.impose_bounds, ms.generate_constraint

    def wrap_cp(fn):
        def constraints_parser(constraints, variables='x', nvars=None):
            return tuple(fn(e) for e in orig_cp(constraints, variables=variables, nvars=nvars))
        return constraints_parser

    def m_minmax():
        ms.constraints_parser = wrap_cp(lambda e: e.replace("max(", "\0").replace("min(", "max(").replace("\0", "min("))

    def m_tolsign():
        ms.constraints_parser = wrap_cp(lambda e: re.sub(r"([+-]) _tol\(", lambda m: ("- " if m.group(1) == "+" else "+ ") + "_tol(", e)
                                        if "any(equal" not in e and "equal(" not in e.split("=", 1)[1][:40] else e)

    def m_tolzero():
        mm.tolerance = lambda x, tol=1e-15, rel=1e-15: 0.0

    def m_x10():
        def constraints_parser(constraints, variables='x', nvars=None):
            if isinstance(variables, str):
                constraints = re.sub(r"\b%s1(\d)\b" % variables, variables + "1", constraints)      # x10, x11 read as x1
            return orig_cp(constraints, variables=variables, nvars=nvars)
        ms.constraints_parser = constraints_parser

    def m_named_order():
        def replace_variables(constraints, variables=None, markers='$'):
            if isinstance(variables, (list, tuple)) and isinstance(markers, str):
                for i, v in enumerate(variables):            # no longest-first ordering
                    constraints = constraints.replace(v, markers + str(i))
                return constraints
            return orig_rv(constraints, variables, markers)
        ms.replace_variables = replace_variables

    def m_always_assign():
        ms.constraints_parser = wrap_cp(lambda e: re.sub(r"= (?:min|max)\((.*), (x\[\d+\])\)\s*$", r"= \1", e))

    def m_neq_noop():
        ms.constraints_parser = wrap_cp(lambda e: e.replace("* 1.1)", "* 0.0)"))

    # --- several relations on the same left-hand variable (LinRelGrp) ---
    def m_eta_le_dropped():
        # the seeded slip: '<=' meeting '!=' on the same variable gets no eta term (lands on the forbidden bound)
        ms.constraints_parser = wrap_cp(lambda e: e.replace("* any(equal(", "* 0 * any(equal(") if "= min(" in e else e)

    def m_eta_ge_sign():
        # '>=' meeting '!=': eta subtracted instead of added (ends below the bound)
        ms.constraints_parser = wrap_cp(lambda e: e.replace(" + (_tol(", " - (_tol(") if "= max(" in e else e)

    def m_neq_dropped_with_bound():
        # the '!=' line is not compiled when the same variable also has a '<', '<=', '>', '>=' line
        def constraints_parser(constraints, variables='x', nvars=None):
            out = orig_cp(constraints, variables=variables, nvars=nvars)
            lhs = lambda e: e.split("=", 1)[0].strip()
            bounded = set(lhs(e) for e in out if "= min(" in e or "= max(" in e)
            return tuple(e for e in out if not (" + equal(" in e and lhs(e) in bounded))
        ms.constraints_parser = constraints_parser

    def m_eta_textual():
        # eta only when the bound and the forbidden value are the same TEXT (not the same value at the point)
        def fix(e):
            for fn, sg in (("= min(", " - (_tol("), ("= max(", " + (_tol(")):
                if fn in e and sg in e:
                    rhs = e.split(fn, 1)[1].split(sg, 1)[0]
                    head = "any(equal(%s,[" % rhs
                    if head in e:
                        neqs = e.split(head, 1)[1].split("]))", 1)[0]
                        return e.replace(head + neqs + "]))", str(rhs in neqs.split(",")))
            return e
        ms.constraints_parser = wrap_cp(fix)

    def m_second_coord():
        def generate_constraint(conditions, ctype=None, join=None, **kwds):
            cf = orig_gc(conditions, ctype, join, **kwds)
            def constraint(x):
                before = list(x)
                y = cf(x)
                if any(not (p == q) for p, q in zip(before, y)):
                    y[-1] = y[-1] + 1                       # a move also touches the last coordinate
                return y
            return constraint
        ms.generate_constraint = generate_constraint

    def m_bounds_far():
        def boundsconstrain(min, max, **kwds):
            lo = [float("-inf") if v is None else v for v in min]
            hi = [float("inf") if v is None else v for v in max]
            def cons(x):
                return [(h if v < l else (l if v > h else v)) if (l > float("-inf") and h < float("inf")) else
                        (l if v < l else (h if v > h else v)) for v, l, h in zip(x, lo, hi)]
            return cons
        mc.boundsconstrain = boundsconstrain

    orig_bc = mc.boundsconstrain
    GRP = ["grp2", "grp3", "grpmix"]
    mutants = [("constraints_parser: max/min swapped", m_minmax, None),
               ("constraints_parser: tolerance sign flipped for < and >", m_tolsign, None),
               ("math.tolerance returns 0 (strict comparators land on the boundary)", m_tolzero, None),
               ("index replacement reads x10/x11 as x1", m_x10, None),
               ("replace_variables without longest-name-first ordering", m_named_order, None),
               ("inequalities always assign the bound (feasible input moved)", m_always_assign, None),
               ("'!=' leaves an equal input where it is", m_neq_noop, None),
               ("a move also changes another coordinate", m_second_coord, None),
               ("'<=' meeting '!=' on the same variable gets no eta (seeded slip C13a)", m_eta_le_dropped, GRP),
               ("'>=' meeting '!=' on the same variable: eta sign flipped", m_eta_ge_sign, GRP),
               ("'!=' line dropped when the variable also has a bound", m_neq_dropped_with_bound, GRP),
               ("eta only when bound and forbidden value are textually identical", m_eta_textual, GRP),
               ("corrupted expectation from TLC (same-variable groups)", lambda: None, "corrupt-grp"),
               ("boundsconstrain clips to the far bound", m_bounds_far, ["box"]),
               ("corrupted expectation from TLC", lambda: None, "corrupt")]
    missed = 0
    from harness.tlc import run_tlc
    rneg = run_tlc("sym/MC_LinRelSys", cfg="MC_LinRelSys_neg.cfg", workers=1)
    okneg = rneg.violated == "DependentAlsoHold"
    print("SELFTEST spec negative control (lines that feed one another: TLC must refute 'all lines hold'): %s" % ("caught" if okneg else "MISSED"))
    missed += 0 if okneg else 1
    rneg = run_tlc("sym/MC_LinRelGrp", cfg="MC_LinRelGrp_neg.cfg", workers=1)
    okneg = rneg.violated == "DependentAlsoHold"
    print("SELFTEST spec negative control (line-by-line semantics on 'x <= 2, x != 2': TLC must refute 'all lines hold', "
          "so the joint group semantics of LinRelGrp is needed): %s" % ("caught" if okneg else "MISSED"))
    missed += 0 if okneg else 1
    for nm, mut, mode in mutants:
        mut()
        ck = new_check(a)
        ck.outdir = "/dev/shm/verif_selftest_C13"
        buf = io.StringIO()
        with contextlib.redirect_stdout(buf):
            try:
                explore(ck, a, runs, corrupt=(mode in ("corrupt", "corrupt-grp")),
                        only=(mode if isinstance(mode, list) else GRP if mode == "corrupt-grp" else ["single", "pair", "box"]), stride=3)
            except Exception as ex:
                print("mutant raised", repr(ex))
                ck.violations += 1
        ms.constraints_parser, ms.replace_variables, mm.tolerance, ms.generate_constraint = orig_cp, orig_rv, orig_tol, orig_gc
        mc.boundsconstrain = orig_bc
        keys = sorted(ck.viol_keys)
        new = [k for k in keys if k not in BASELINE_KEYS]
        caught = bool(new) or (ck.violations and not keys)
        print("SELFTEST %s: %s (%d violations, e.g. %s)" % (nm, "caught" if caught else "MISSED", ck.violations, new[:2]))
        missed += 0 if caught else 1
    import shutil
    shutil.rmtree("/dev/shm/verif_selftest_C13", ignore_errors=True)
    return 1 if missed else 0


def replay_artefact(path):
    """bin/check C13 --replay out/C13/replay_*.json : run the recorded case again on the current tree"""
    import json, warnings
    warnings.simplefilter("ignore")
    import mystic.symbolic as ms
    import mystic.constraints as mc
    d = json.load(open(path))["detail"]
    if "min" in d:
        fn = mc.boundsconstrain(list(d["min"]), list(d["max"]), symbolic=(d["path"] == "symbolic"))
        y = list(fn(list(d["input"])))
        exp = d["expected_clip"]
        got = [y[1], y[10]] if len(y) == 12 else y
        ok = all(p == q for p, q in zip(got, exp))
        print("boundsconstrain(%r, %r, symbolic=%s)(%r) = %r; Clip = %r" % (d["min"], d["max"], d["path"] == "symbolic", d["input"], y, exp))
    else:
        cons = ms.generate_constraint(ms.generate_solvers(d["text"], variables=d["variables"], nvars=d["nvars"], locals=dict(d["locals"])))
        x = list(d["input"])
        y = list(cons(list(x)))
        e, S = d["expected"], d["scale"]
        spec_pos = d["lhs_positions"]
        may = set(spec_pos[k] for k in range(len(spec_pos)) if not e["feasible"][k])
        ok = all(y[j] == x[j] or j in may for j in range(len(x)))
        if "groups" in e:
            for gr in e["groups"]:
                tup = [sgn(y[spec_pos[k - 1]] - e["rhs"][k - 1] * S) for k in gr["lines"]]
                ok = ok and tup in [list(t) for t in gr["allowed_sign_tuples"]]
            allowed = [(gr["lines"], gr["allowed_sign_tuples"]) for gr in e["groups"]]
        else:                                       # artefacts written before the same-variable groups existed
            for p, r, al in zip(spec_pos, e["rhs"], e["allowed_signs"]):
                ok = ok and sgn(y[p] - r * S) in al
            allowed = e["allowed_signs"]
        print("%r (variables=%r): %r -> %r; rhs %r, allowed signs of y_i - rhs (per group of lines) %r" % (d["text"], d["variables"], x, y, e["rhs"], allowed))
    print("replay: %s" % ("property holds on this case now" if ok else "VIOLATION reproduced"))
    return 0 if ok else 1


def main():
    a = tier_seed()
    assert_repo()
    if a.replay:
        try:
            return replay_artefact(a.replay)
        except (KeyError, OSError, ValueError):
            raise                                   # unreadable artefact: machinery failure
        except Exception as ex:                     # mystic raised on the recorded case
            print("replay: VIOLATION reproduced (%r)" % ex)
            return 1
    ck = new_check(a)
    runs = gather(a)
    if a.selftest:
        return selftest(a, runs)
    explore(ck, a, runs)
    return ck.finish()


if __name__ == "__main__":
    main_guard(main)
