"""C12 -- symbolic rewriting preserves the solution set.

spec -> code.  TLC enumerates the bounded program class of specs/sym/SymClass.tla (one- and two-line
systems of linear relations and single-factor rational relations, every single equivalence rewrite of
them, matrices for linear_symbolic, consistent equality systems for solve, bounds for
symbolic_bounds), model-checks the design statement "an equivalence rewrite preserves Sol", and prints
every program together with its solution set Sol on a grid of half-integer points.  TLC is the
enumerator and the denotational oracle here: it does not explore behaviour of the implementation.

The harness renders each program as text under several variable-name schemes and writing styles,
feeds it to mystic.symbolic.simplify(all=True) / solve / linear_symbolic / symbolic_bounds, evaluates
the RETURNED text with its own interpreter (python `ast`, whitelisted to arithmetic and one
comparison per line, exact `fractions.Fraction` arithmetic) at every grid point and compares the set
of satisfying points with the Sol TLC printed.  A tuple returned by simplify(all=True) is a
disjunction of cases, the lines of a case a conjunction (its sign conditions included).  Points where
the input is undefined (zero denominator) are excluded on both sides.  The property is conditional:
an exception / refusal is counted (`refused`), never a violation.
"""
import sys, os, re, ast, io, json, math, time, random, signal, contextlib, itertools, collections
from fractions import Fraction
from concurrent.futures import ThreadPoolExecutor, ProcessPoolExecutor, as_completed
import multiprocessing as mp
from harness.core import Check, tier_seed, assert_repo, main_guard
from harness.tlc import run_tlc, TLCError

NONE = 1000000
TIMEOUT_S = 30            # per API call
MEM_LIMIT = 2 * 2 ** 30   # address space of a worker process

# ------------------------------------------------------------------------------------------
# the TLC configurations: name -> (use, quick stride, thorough partitions)
#   use: "simplify" (Mode sys), "linsym" (Mode mat), "solve" (Mode mat, equalities), "bounds" (Mode bnd)
CONFIGS = collections.OrderedDict([
    ("Lin3",   ("simplify", 100, 8)),
    ("Lin2",   ("simplify", 40, 3)),
    ("Lin2x2", ("simplify", 30, 2)),
    ("Rat2",   ("simplify", 12, 2)),
    ("Rat3",   ("simplify", 25, 2)),
    ("Mix2",   ("simplify", 40, 2)),
    ("Mat2",   ("linsym", 8, 1)),
    ("Mat3",   ("linsym", 80, 2)),
    ("Eqs2",   ("solve", 25, 1)),
    ("Eqs3",   ("solve", 40, 2)),
    ("Bnd2",   ("bounds", 3, 1)),
    ("Bnd3",   ("bounds", 20, 1)),
])
DESIGN_STRIDE_QUICK = 16

# variable-name schemes: tag -> (variables argument, names of variables 1..3)
LETTERS = list("abcdfghijklm")            # 12 names, no 'e' (would read as an exponent)
SCHEMES = [
    ("x",    "x", ["x0", "x1", "x2"]),
    ("x10",  "x", ["x1", "x10", "x2"]),                       # >= 10 variables: x1 vs x10
    ("abc",  ["a", "b", "c"], ["a", "b", "c"]),
    ("sub",  ["spam", "eggs", "am"], ["spam", "eggs", "am"]),  # 'am' is a substring of 'spam'
    ("many", LETTERS, [LETTERS[1], LETTERS[10], LETTERS[2]]),   # 12 named variables, markers _1 / _10
    ("y",    "y", ["y0", "y1", "y2"]),
    # names that are also names of numpy / math objects, which simplify star-imports into its evaluation namespace:
    # functions (a call would raise) and constants (a test point would be ignored)
    ("lib",  ["gamma", "size", "angle"], ["gamma", "size", "angle"]),
    ("const", ["pi", "tau", "e"], ["pi", "tau", "e"]),
]
STYLES = ["plain", "dense", "frac"]
# schemes usable with linear_symbolic / symbolic_bounds (names are positional there)
POS_SCHEMES = [
    ("default", None, ["x0", "x1", "x2"]),
    ("y", "y", ["y0", "y1", "y2"]),
    ("abc", ["a", "b", "c"], ["a", "b", "c"]),
    ("x10", ["x1", "x10", "x2"], ["x1", "x10", "x2"]),
    ("sub", ["spam", "eggs", "am"], ["spam", "eggs", "am"]),
]


# ------------------------------------------------------------------------------------------
# rendering of programs as text
def frac(r):
    return Fraction(r[0], r[1])


def dec(q):
    """exact finite decimal of a rational whose denominator is 2^a 5^b"""
    if q.denominator == 1:
        return str(q.numerator)
    d, k = q.denominator, 0
    while d % 2 == 0:
        d //= 2; k += 1
    m = 0
    while d % 5 == 0:
        d //= 5; m += 1
    if d != 1:
        raise ValueError("no finite decimal for %s" % q)
    n = max(k, m)
    s = str(abs(q.numerator) * 10 ** n // q.denominator).rjust(n + 1, "0")
    return ("-" if q < 0 else "") + s[:-n] + "." + s[-n:]


def numtxt(q, e, style):
    if e and q != 0:
        if style in ("plain", "frac") and -8 <= e < 0:
            return dec(q * Fraction(1, 10 ** -e))       # 5*10^-3 written out as 0.005 (exponent form in the dense style)
        return dec(q) + "e%d" % e
    if style == "frac" and q.denominator != 1:
        return "%d/%d" % (q.numerator, q.denominator)
    s = dec(q)
    if style == "dense" and q.denominator == 1:
        s += ".0"
    return s


def termtxt(q, e, name, style):
    if style == "dense":
        return numtxt(q, e, style) + "*" + name
    if q == 1 and not e:
        return name
    if q == -1 and not e:
        return "-" + name
    if style == "frac" and q.denominator != 1 and not e:
        n = q.numerator
        head = "" if n == 1 else "-" if n == -1 else "%d*" % n
        return "%s%s/%d" % (head, name, q.denominator)
    return numtxt(q, e, style) + "*" + name


def sidetxt(vec, const, e, names, style, dense_ok=True):
    st = style if (dense_ok or style != "dense") else "plain"
    terms = []
    for j, r in enumerate(vec):
        q = frac(r)
        if q == 0 and st != "dense":
            continue
        terms.append(termtxt(q, e, names[j], st))
    c = frac(const)
    if c != 0 or not terms:
        terms.append(numtxt(c, e, st))
    if st == "dense":
        return " + ".join(terms)
    out = terms[0]
    for t in terms[1:]:
        out += (" - " + t[1:]) if t.startswith("-") else (" + " + t)
    return out


def linetxt(ln, names, style):
    op = ln["op"]
    if op == "==" and style != "plain":
        op = "="
    e = ln["e"]
    rhs = sidetxt(ln["w"], ln["d"], e, names, style, dense_ok=(ln["f"] == "lin"))
    if ln["f"] == "lin":
        lhs = sidetxt(ln["v"], ln["c"], e, names, style)
    else:
        xj = names[ln["j"] - 1]
        inner = sidetxt(ln["v"], ln["c"], e, names, style, dense_ok=False)
        nterms = sum(1 for r in ln["v"] if r[0] != 0) + (1 if ln["c"][0] != 0 else 0)
        if nterms > 1:
            inner = "(" + inner + ")"
        lhs = inner + ("/" if ln["f"] == "div" else "*") + xj
    return "%s %s %s" % (lhs, op, rhs)


SPACINGS = ("asis", "airy", "tight", "wide")


def respace(text, spacing):
    """the same text with other white space (white space carries no meaning in a system): blanks around every * and /
    ('x0 / x1 <= 3'), no blanks at all ('x0/x1<=3'), doubled blanks and a tab after the comparator"""
    if spacing == "airy":
        return "\n".join(re.sub(r"\s*([*/])\s*", r" \1 ", ln).replace(" *  * ", "**") for ln in text.split("\n"))
    if spacing == "tight":
        return "\n".join(ln.replace(" ", "") for ln in text.split("\n"))
    if spacing == "wide":
        return "\n".join(_CMP.sub(lambda m: m.group(1) + "\t", ln.replace(" ", "  "), count=1) for ln in text.split("\n"))
    return text


def systxt(prog, names, style, spacing="asis"):
    return respace("\n".join(linetxt(ln, names, style) for ln in prog), spacing)


def shape(ln):
    """name of the syntactic form of a line (for violation keys); '~0' = the other side is the constant 0"""
    hasv = any(r[0] != 0 for r in ln["v"])
    hasw = any(r[0] != 0 for r in ln["w"])
    if ln["f"] == "lin":
        if all(frac(a) == frac(b) for a, b in zip(ln["v"], ln["w"])):
            return "const"                     # no variable left: 0 op c
        return "lin"
    zero = "~0" if (not hasw and ln["d"][0] == 0) else ""
    if ln["f"] == "mul":
        return "a*xi*xj" + zero
    if hasv and ln["c"][0] == 0:
        return "a*xi/xj" + zero
    if hasv:
        return "(a*xi+b)/xj" + zero
    return "k/xj~a*xi+b" if hasw else "k/xj" + zero


def opposite_pair(prog):
    """two lines that differ only in the comparator, one being the flip of the other"""
    if len(prog) != 2:
        return False
    a, b = prog
    flips = {"<": ">", ">": "<", "<=": ">=", ">=": "<="}
    return all(a[k] == b[k] for k in ("f", "j", "v", "c", "w", "d", "e")) and flips.get(a["op"]) == b["op"]


# ------------------------------------------------------------------------------------------
# the independent evaluator of returned text
class Unparsable(Exception):
    pass


_CMP = re.compile(r"(<=|>=|!=|==|<|>|=)")
_OPS = {"<=": lambda a, b: a <= b, ">=": lambda a, b: a >= b, "<": lambda a, b: a < b, ">": lambda a, b: a > b,
        "==": lambda a, b: a == b, "=": lambda a, b: a == b, "!=": lambda a, b: a != b}


def snap(f):
    """read a decimal literal as the nearest rational p/q, q <= 1000 (decimal exponent normalised) when
    it is within 1e-12 relative -- sympy prints floats rounded to 15 digits -- else exactly"""
    if f == 0:
        return f
    k = int(math.floor(math.log10(abs(float(f))))) if abs(f) > Fraction(1, 10 ** 300) else -300
    g = f / Fraction(10) ** k
    g2 = g.limit_denominator(1000)
    if abs(g - g2) <= abs(g) * Fraction(1, 10 ** 12):
        return g2 * Fraction(10) ** k
    return f


class _Tr(ast.NodeTransformer):
    def __init__(self, src, names):
        self.src, self.names, self.consts = src, names, {}

    def generic_visit(self, node):
        ok = (ast.Expression, ast.BinOp, ast.UnaryOp, ast.Add, ast.Sub, ast.Mult, ast.Div, ast.Pow,
              ast.USub, ast.UAdd, ast.Load)
        if not isinstance(node, ok):
            raise Unparsable("node %s not allowed" % type(node).__name__)
        return super().generic_visit(node)

    def visit_Name(self, node):
        if node.id not in self.names:
            raise Unparsable("unknown name %r" % node.id)
        return node

    def visit_BinOp(self, node):
        if isinstance(node.op, ast.Pow):
            r = node.right
            if isinstance(r, ast.UnaryOp) and isinstance(r.op, ast.USub):
                r = r.operand
            if not (isinstance(r, ast.Constant) and isinstance(r.value, int)):
                raise Unparsable("non-integer power")
            node.left = self.visit(node.left)
            return node                       # integer exponent stays a python int
        return self.generic_visit(node)

    def visit_Constant(self, node):
        v = node.value
        if isinstance(v, bool) or not isinstance(v, (int, float)):
            raise Unparsable("constant %r" % (v,))
        if isinstance(v, int):
            q = Fraction(v)
        else:
            seg = ast.get_source_segment(self.src, node)
            try:
                q = Fraction(seg)
            except Exception:
                q = Fraction(repr(v))
            q = snap(q)
        name = "_k%d" % len(self.consts)
        self.consts[name] = q
        return ast.copy_location(ast.Name(id=name, ctx=ast.Load()), node)


def compile_side(src, names):
    src = src.strip()
    if not src:
        raise Unparsable("empty side")
    try:
        tree = ast.parse(src, mode="eval")
    except SyntaxError as ex:
        raise Unparsable("syntax: %s" % src)
    tr = _Tr(src, names)
    tree = ast.fix_missing_locations(tr.visit(tree))
    return compile(tree, "<side>", "eval"), tr.consts


def compile_case(text, names):
    """a case (newline separated relations = conjunction) -> list of (lhs code, op, rhs code, consts)"""
    lines = []
    for ln in text.split("\n"):
        ln = ln.strip()
        if not ln:
            continue
        parts = _CMP.split(ln)
        if len(parts) != 3:
            raise Unparsable("not a single relation: %r" % ln)
        l, cl = compile_side(parts[0], names)
        r, cr = compile_side(parts[2], names)
        lines.append((l, _OPS[parts[1]], r, cl, cr))
    return lines


def case_holds(lines, env):
    for l, op, r, cl, cr in lines:
        try:
            a = eval(l, {"__builtins__": {}}, dict(env, **cl))
            b = eval(r, {"__builtins__": {}}, dict(env, **cr))
        except ZeroDivisionError:
            return False                      # undefined line: the case does not hold here
        if not op(a, b):
            return False
    return True


def grid_points(hdr):
    coords, nv = hdr["coords"], hdr["nv"]
    g = len(coords)
    return [[Fraction(coords[(k // g ** j) % g], 2) for j in range(nv)] for k in range(hdr["npts"])]


_GRIDS = {}


def mask(ids):
    m = 0
    for k in ids:
        m |= 1 << k
    return m


def ids(m):
    out, k = [], 0
    while m:
        if m & 1:
            out.append(k)
        m >>= 1
        k += 1
    return out


def satisfied(cases, names, hdr, und, scale=None):
    """bitmask of the grid points (outside the mask `und`) at which some case holds; `scale` (a Fraction) stretches
    the grid (bounds jobs: the same box and test points at another magnitude)"""
    key = (tuple(hdr["coords"]), hdr["nv"])
    if key not in _GRIDS:
        _GRIDS[key] = grid_points(hdr)
    pts = _GRIDS[key]
    comp = [compile_case(c, names) for c in cases]
    got = 0
    nv = hdr["nv"]
    for k, p in enumerate(pts):
        if (und >> k) & 1:
            continue
        env = {names[j]: (p[j] if scale is None else p[j] * scale) for j in range(nv)}
        for c in comp:
            if case_holds(c, env):
                got |= 1 << k
                break
    return got


# ------------------------------------------------------------------------------------------
# worker side: call mystic, evaluate what it returned
class _Timeout(BaseException):          # not an Exception: mystic's `except Exception` must not swallow it
    pass


def _alarm(signum, frame):
    raise _Timeout()


@contextlib.contextmanager
def quiet():
    o, e = sys.stdout, sys.stderr
    sys.stdout = sys.stderr = io.StringIO()
    try:
        yield
    finally:
        sys.stdout, sys.stderr = o, e


def call(fn, *a, **k):
    """-> ('ok', value) | ('refused', reason)"""
    signal.signal(signal.SIGALRM, _alarm)
    try:
        # repeating timer: mystic.solve has a bare `except:` that can swallow the first alarm
        signal.setitimer(signal.ITIMER_REAL, TIMEOUT_S, 5)
        try:
            with quiet():
                v = fn(*a, **k)
        finally:
            signal.setitimer(signal.ITIMER_REAL, 0)
        return "ok", v
    except _Timeout:
        return "refused", "timeout"
    except MemoryError:
        import gc
        gc.collect()
        return "refused", "MemoryError"
    except Exception as ex:
        return "refused", type(ex).__name__


def as_cases(res):
    """returned value of simplify -> list of case texts (None: 'no solution' = no case)"""
    if res is None:
        return []
    if isinstance(res, str):
        return [res]
    if isinstance(res, tuple) and all(isinstance(c, str) for c in res):
        return list(res)
    return None


def pt_values(hdr, k):
    coords, nv = hdr["coords"], hdr["nv"]
    g = len(coords)
    return [coords[(k // g ** j) % g] / 2 for j in range(nv)]


def compare(job, hdr, cases, names, api, returned, scale=None):
    """-> result dict"""
    try:
        got = satisfied(cases, names, hdr, job["und"], scale)
    except Unparsable as ex:
        return {"st": "unparsed", "api": api, "why": str(ex), "returned": returned}
    sol = job["sol"]
    nsol = bin(sol).count("1")
    ndef = hdr["npts"] - bin(job["und"]).count("1")
    res = {"st": "ok", "api": api, "nontrivial": 0 < nsol < ndef, "ncases": len(cases),
           "returned_ok": returned if len(str(returned)) < 200 else None}
    if got != sol:
        missing, extra = ids(sol & ~got), ids(got & ~sol)
        res.update(st="viol", missing=len(missing), extra=len(extra), nsol=nsol, returned=returned,
                   missing_pts=[pt_values(hdr, k) for k in missing[:4]],
                   extra_pts=[pt_values(hdr, k) for k in extra[:4]],
                   missing_mask=sol & ~got)
    return res


def run_job(job, hdr):
    import mystic.symbolic as ms
    use = job["use"]
    names = job["names"]
    out = []
    if use == "simplify":
        random.seed(job["seed"])
        st, res = call(ms.simplify, job["text"], variables=job["vars"], all=True)
        if st == "refused":
            return [{"st": "refused", "api": "simplify", "why": res}]
        cases = as_cases(res)
        if cases is None:
            return [{"st": "refused", "api": "simplify", "why": "returned %s" % type(res).__name__}]
        out.append(compare(job, hdr, cases, names, "simplify(all=True)", res))
        if job.get("also_one") and len(cases) == 1:
            random.seed(job["seed"])
            st, res1 = call(ms.simplify, job["text"], variables=job["vars"])
            c1 = as_cases(res1) if st == "ok" else None
            if c1 is None or len(c1) != 1:
                out.append({"st": "refused", "api": "simplify(all=False)", "why": res1 if st == "refused" else "shape"})
            else:
                out.append(compare(job, hdr, c1, names, "simplify(all=False)", res1))
    elif use == "solve":
        kw = {"variables": job["vars"]}
        if job.get("target"):
            kw["target"] = job["target"]
        st, res = call(ms.solve, job["text"], **kw)
        if st == "refused" or not isinstance(res, str) or not res.strip():
            return [{"st": "refused", "api": "solve", "why": res if st == "refused" else "returned %r" % (res,)}]
        out.append(compare(job, hdr, [res], names, "solve", res))
    elif use == "linsym":
        m = job["mat"]
        conv = job["conv"]

        def cv(rows, rhs):
            if not rows:
                return None, None
            if conv == "float":
                return [[float(x) for x in r] for r in rows], [float(x) for x in rhs]
            if conv == "ndarray":
                import numpy as np
                return np.array(rows), np.array(rhs)
            if conv == "flat" and len(rows) == 1:
                return list(rows[0]), list(rhs)
            return [list(r) for r in rows], list(rhs)
        A, b = cv(m["A"], m["b"])
        G, h = cv(m["G"], m["h"])
        st, res = call(ms.linear_symbolic, A, b, G, h, variables=job["vars"])
        if st == "refused" or not isinstance(res, str):
            return [{"st": "refused", "api": "linear_symbolic", "why": res if st == "refused" else "type"}]
        out.append(compare(job, hdr, [res], names, "linear_symbolic", res))
        if job.get("pipe"):
            random.seed(job["seed"])
            kw = {} if job["vars"] is None else {"variables": job["vars"]}
            st, res2 = call(ms.simplify, res, all=True, **kw)
            cases = as_cases(res2) if st == "ok" else None
            if cases is None:
                out.append({"st": "refused", "api": "simplify(linear_symbolic)", "why": res2 if st == "refused" else "type"})
            else:
                out.append(compare(job, hdr, cases, names, "simplify(linear_symbolic)", res2))
    elif use == "bounds":
        # the box at another magnitude: decimal scales, so that the decimal text of a bound is the bound exactly
        sc = Fraction(job.get("scale", "1"))
        if sc == 1:
            lo = [None if v == NONE else (v // 2 if v % 2 == 0 and job["conv"] == "int" else v / 2) for v in job["bnd"]["lo"]]
            hi = [None if v == NONE else (v // 2 if v % 2 == 0 and job["conv"] == "int" else v / 2) for v in job["bnd"]["hi"]]
        else:
            lo = [None if v == NONE else float(Fraction(v, 2) * sc) for v in job["bnd"]["lo"]]
            hi = [None if v == NONE else float(Fraction(v, 2) * sc) for v in job["bnd"]["hi"]]
        st, res = call(ms.symbolic_bounds, lo, hi, variables=job["vars"])
        if st == "refused" or not isinstance(res, str):
            return [{"st": "refused", "api": "symbolic_bounds", "why": res if st == "refused" else "type"}]
        out.append(compare(job, hdr, [res], names, "symbolic_bounds", res, scale=None if sc == 1 else sc))
    return out


def run_chunk(arg):
    hdr, jobs = arg
    res = []
    for job in jobs:
        t0 = time.process_time()
        try:
            r = run_job(job, hdr)
        except Exception as ex:              # harness bug, not a verdict
            r = [{"st": "error", "api": job["use"], "why": "%s: %s" % (type(ex).__name__, ex)}]
        res.append((job["id"], r, time.process_time() - t0))
    return res


def _init_worker():
    # mystic can fall into an n!-permutation search (>= 10 variables, unsolvable line): cap the address space so
    # that this ends as a MemoryError (a refusal) instead of the kernel killing the worker
    import resource
    resource.setrlimit(resource.RLIMIT_AS, (MEM_LIMIT, MEM_LIMIT))
    import warnings
    warnings.simplefilter("ignore")
    import mystic.symbolic   # noqa


# ------------------------------------------------------------------------------------------
# TLC side
def tlc_runs(a, names=None):
    """run the enumerator configurations (in parallel processes); -> {config: (hdr, states, [results])}"""
    thorough = a.tier == "thorough"
    plan = []
    for name, (use, qstride, parts) in CONFIGS.items():
        if names is not None and name not in names:
            continue
        if thorough:
            for p in range(parts):
                plan.append((name, parts, p))
        else:
            plan.append((name, qstride, a.seed % qstride))

    def one(item):
        name, stride, off = item
        return item, run_tlc("sym/MC_Sym", cfg="MC_Sym%s.cfg" % name, workers=1,
                             env={"STRIDE": stride, "OFFSET": off}, timeout=3000, heap="3g")
    out = collections.OrderedDict()
    with ThreadPoolExecutor(max_workers=max(1, min(a.jobs, 16))) as ex:
        for (name, stride, off), r in ex.map(one, plan):
            hdr = r.printed[0] if r.printed else None
            if r.violated:
                out.setdefault(name, [None, [], []])[2].append(r)
                continue
            if not hdr or not hdr.get("hdr"):
                raise TLCError("no header from MC_Sym%s" % name)
            ent = out.setdefault(name, [hdr, [], []])
            ent[0] = ent[0] or hdr
            for st in r.printed[1:]:             # index lists -> bitmasks (memory)
                st["sol"], st["und"], st["crit"] = mask(st["sol"]), mask(st["und"]), mask(st.get("crit") or ())
            ent[1].extend(r.printed[1:])
            r["printed"] = None
            r["out"] = r["out"][-3000:]
            ent[2].append(r)
    return out


def make_jobs(name, hdr, states, seed, thorough):
    use = CONFIGS[name][0]
    nv = hdr["nv"]
    jobs = []
    combos = [(s, st) for s in range(len(SCHEMES)) for st in range(len(STYLES))]
    for i, s in enumerate(states):
        base = {"cfg": name, "use": use, "sol": s["sol"], "und": s["und"], "crit": s["crit"], "rw": s["rw"],
                "seed": seed * 1000003 + i}
        if use == "simplify":
            picks = [combos[(i * 7 + seed) % len(combos)]]
            if thorough and i % 3 == 0:
                picks.append(combos[(i * 7 + seed + 11) % len(combos)])
            if i % 5 == 1:      # every fifth program also under a library-name scheme (functions / constants alternate)
                libs = [k for k, sc in enumerate(SCHEMES) if sc[0] in ("lib", "const")]
                picks.append((libs[(i // 5 + seed) % len(libs)], (i // 10) % len(STYLES)))
            for n, (si, sti) in enumerate(picks):
                tag, vararg, nm = SCHEMES[si]
                style = STYLES[sti]
                spacing = SPACINGS[(i // 2 + n + seed) % len(SPACINGS)] if i % 2 else "asis"
                job = dict(base, scheme=tag, style=style, vars=vararg, names=nm[:nv], spacing=spacing,
                           text=systxt(s["p"], nm, style, spacing), prog=s["p"], also_one=(i % 4 == 0 and n == 0))
                jobs.append(job)
        elif use == "solve":
            tag, vararg, nm = SCHEMES[(i + seed) % len(SCHEMES)]
            m = s["p"]
            prog = [{"f": "lin", "j": 0, "op": "==", "e": 0, "v": [[x, 1] for x in row], "c": [0, 1],
                     "w": [[0, 1]] * nv, "d": [rhs, 1]} for row, rhs in zip(m["A"], m["b"])]
            style = ["frac", "dense"][i % 2]          # both write '='
            job = dict(base, scheme=tag, style=style, vars=vararg, names=nm[:nv], text=systxt(prog, nm, style), prog=m)
            if i % 3 == 2:
                job["target"] = list(reversed(nm[:nv]))
            jobs.append(job)
        elif use == "linsym":
            tag, vararg, nm = POS_SCHEMES[(i + seed) % len(POS_SCHEMES)]
            vararg = vararg[:nv] if isinstance(vararg, list) else vararg
            conv = ["int", "float", "ndarray", "flat"][(i // len(POS_SCHEMES)) % 4]
            m = s["p"]
            lines = [{"f": "lin", "j": 0, "op": op, "e": 0, "v": [[x, 1] for x in row], "c": [0, 1],
                      "w": [[0, 1]] * nv, "d": [rhs, 1]}
                     for rows, rhss, op in ((m["G"], m["h"], "<="), (m["A"], m["b"], "==")) for row, rhs in zip(rows, rhss)]
            jobs.append(dict(base, scheme=tag, vars=vararg, names=nm[:nv], mat=s["p"], conv=conv, prog=s["p"], lines=lines,
                             pipe=(i % 5 == 0), text="A=%s b=%s G=%s h=%s" % (s["p"]["A"], s["p"]["b"], s["p"]["G"], s["p"]["h"])))
        elif use == "bounds":
            tag, vararg, nm = POS_SCHEMES[(i + seed) % len(POS_SCHEMES)]
            vararg = vararg[:nv] if isinstance(vararg, list) else vararg
            conv = ["int", "float"][(i // len(POS_SCHEMES)) % 2]
            scale = ("1", "1", "1e-10", "10000000000", "1.000000001", "1e-300")[(i // 2 + seed) % 6]
            jobs.append(dict(base, scheme=tag, vars=vararg, names=nm[:nv], bnd=s["p"], conv=conv, prog=s["p"], scale=scale,
                             text="(min=%s max=%s)/2 * %s" % (s["p"]["lo"], s["p"]["hi"], scale)))
    return jobs


_DEGENERATE = ("const", "k/xj~0", "a*xi*xj~0")      # listed first in a key (prefix matching of known findings)


def vkey(job, r):
    """stable class name of a disagreement:  api : what : syntactic form(s) of the input lines
    what = zero-case-dropped  solutions are lost, only inside the critical set the spec printed (where a factor
                              that simplify multiplies / divides by vanishes), and nothing is gained
           missing / extra / missing+extra   anything else
    forms: distinct line forms, degenerate ones (no variable left, other side 0) first; 'opposite-pair' in front when
    the two lines differ only by a flipped comparator"""
    what = "missing" if r["missing"] and not r["extra"] else "extra" if r["extra"] and not r["missing"] else "missing+extra"
    api = r["api"]
    if api.startswith("simplify"):
        lines = job["prog"] if job["use"] == "simplify" else job["lines"]
        if what == "missing" and (r["missing_mask"] & ~job.get("crit", 0)) == 0:
            what = "zero-case-dropped"
        shapes = sorted(set(shape(ln) for ln in lines), key=lambda x: (x not in _DEGENERATE, x))
        form = "+".join(shapes)
        if opposite_pair(lines):
            form = "opposite-pair:" + form
        return "simplify:%s:%s" % (what, form)
    return "%s:%s" % (api, what)


def new_check(a):
    return Check("C12", "exploration", a.tier, a.seed,
                 rule="TLC enumerates the program class of specs/sym/SymClass.tla (quick: every STRIDE-th base program "
                      "chosen by seed, thorough: all) plus every single equivalence rewrite of each, and prints each "
                      "program with its solution set on a half-integer grid; a case = one program rendered under one "
                      "variable-name scheme and writing style and passed to one API call whose returned text is "
                      "evaluated at every grid point; non-trivial = mystic returned a result and the expected solution "
                      "set is neither empty nor the whole grid (the relation separates grid points); distinct = "
                      "distinct (configuration, input text, variables argument, API)")


def replay(ck, a, tl, only=None, corrupt=False):
    """bind the emitted programs to the implementation; returns statistics"""
    thorough = a.tier == "thorough"
    stats = collections.Counter()
    samples = {}
    violated = set()
    refused = collections.Counter()
    rewrites = collections.Counter()
    schemes = collections.Counter()
    cpu = collections.Counter()
    alljobs = {}
    chunks = []
    jid = 0
    for name, (hdr, states, results) in tl.items():
        if only is not None and CONFIGS[name][0] not in only:
            continue
        jobs = make_jobs(name, hdr, states, a.seed, thorough)
        for j in jobs:
            j["id"] = jid
            alljobs[jid] = j
            jid += 1
            rewrites[(j["rw"] or ["base"])[-1]] += 1
            schemes[j["scheme"] + "/" + j.get("style", j.get("conv", ""))] += 1
        if corrupt and jobs:
            # flip one grid point of one expected solution set: the binding must notice
            for j in jobs:
                if 0 < bin(j["sol"]).count("1") < hdr["npts"] - bin(j["und"]).count("1"):
                    j["sol"] &= j["sol"] - 1          # clears the lowest set bit
                    break
        slim = [{k: v for k, v in j.items() if k not in ("prog", "rw", "cfg", "scheme", "crit", "lines")} for j in jobs]
        n = 25 if CONFIGS[name][0] == "simplify" else 60
        chunks.extend((hdr, slim[i:i + n]) for i in range(0, len(slim), n))
    random.Random(a.seed).shuffle(chunks)
    pool = ProcessPoolExecutor(max_workers=max(1, a.jobs), mp_context=mp.get_context("fork"), initializer=_init_worker)
    try:
        futures = [pool.submit(run_chunk, ch) for ch in chunks]
        for fut in as_completed(futures):
            res = fut.result()          # BrokenProcessPool (a worker died) -> machinery failure, never a hang
            for jid_, rs, dt in res:
                job = alljobs[jid_]
                cpu[job["cfg"]] += dt
                for r in rs:
                    stats[r["st"]] += 1
                    api = r["api"]
                    if r["st"] == "error":
                        raise RuntimeError("harness error in worker: %s on %r" % (r["why"], job["text"]))
                    if r["st"] == "refused":
                        refused["%s:%s:%s" % (api, r["why"], job["cfg"])] += 1
                        ck.case(False)
                        continue
                    if r["st"] == "unparsed":
                        refused["%s:unparsed-return:%s" % (api, job["cfg"])] += 1
                        ck.extra.setdefault("unparsed_samples", [])
                        if len(ck.extra["unparsed_samples"]) < 5:
                            ck.extra["unparsed_samples"].append({"input": job["text"], "returned": r["returned"], "why": r["why"]})
                        ck.case(False)
                        continue
                    ck.case(nontrivial=r["nontrivial"], key=(job["cfg"], job["text"], str(job["vars"]), api))
                    if r["st"] == "viol":
                        violated.add((job["cfg"], job["text"], str(job["vars"]), api))
                        key = vkey(job, r)
                        hdr_ = tl[job["cfg"]][0]
                        rj = {k: v for k, v in job.items() if k not in ("sol", "und", "crit", "prog", "lines", "id")}
                        rj.update(sol_ids=ids(job["sol"]), und_ids=ids(job["und"]), crit_ids=ids(job["crit"]),
                                  grid={"coords": hdr_["coords"], "nv": hdr_["nv"], "npts": hdr_["npts"]})
                        detail = {"replay_job": rj,
                                  "api": api, "input": job["text"], "variables": job["vars"], "random_seed": job["seed"],
                                  "config": job["cfg"], "rewrites": job["rw"], "scheme": job["scheme"],
                                  "returned": r["returned"], "expected_solutions": r["nsol"],
                                  "missing": r["missing"], "extra": r["extra"],
                                  "missing_points": r["missing_pts"], "extra_points": r["extra_pts"],
                                  "names": job["names"], "program": job["prog"]}
                        ck.violation(key, detail,
                                     "%s on %r (variables=%r, random.seed(%d)) returned %r: %d grid points satisfy the input "
                                     "but not the result (e.g. %s), %d the result but not the input (e.g. %s)" % (
                                         api, job["text"], job["vars"], job["seed"], r["returned"], r["missing"],
                                         r["missing_pts"][:2], r["extra"], r["extra_pts"][:2]))
                    elif r["nontrivial"] and job["cfg"] not in samples:
                        samples[job["cfg"]] = {"config": job["cfg"], "api": api, "input": job["text"], "variables": job["vars"],
                                               "rewrites": job["rw"], "random_seed": job["seed"], "returned": r.get("returned_ok"),
                                               "expected_solutions_on_grid": bin(job["sol"]).count("1"),
                                               "undefined_points": bin(job["und"]).count("1")}
            ck.trace(len(res))
    finally:
        pool.shutdown(wait=True, cancel_futures=True)
    for name in ("Rat2", "Lin3", "Lin2x2", "Eqs2", "Mat2", "Bnd2", "Mix2", "Lin2", "Rat3", "Eqs3", "Mat3", "Bnd3"):
        if name in samples:
            ck.sample(samples[name])
    return {"stats": stats, "violated": violated, "refused": refused, "rewrites": rewrites, "schemes": schemes, "cpu": cpu, "jobs": len(alljobs)}


def design_runs(ck, a):
    """model check of the rewrite machine, and its negative control"""
    thorough = a.tier == "thorough"
    env = {} if thorough else {"STRIDE": DESIGN_STRIDE_QUICK, "OFFSET": a.seed % DESIGN_STRIDE_QUICK}
    r = run_tlc("sym/MC_Sym", cfg="MC_SymDesign.cfg", workers=max(1, min(a.jobs, 16)) if thorough else 2, env=env,
                timeout=3000, heap="4g")
    if r.violated:
        ck.violation("spec:" + r.violated, {"tlc": r.out[-4000:]}, "TLC: design invariant %s violated in SymClass (MC_SymDesign)" % r.violated)
    ck.mc(r, "SymClass/Design(rewrite depth 2)")
    rb = run_tlc("sym/MC_Sym", cfg="MC_SymBad.cfg", workers=1, env={"STRIDE": 8, "OFFSET": a.seed % 8}, timeout=3000)
    if rb.violated != "SolPreserved":
        raise RuntimeError("negative control: TLC did not reject scaling by a negative constant without flipping "
                           "(SolPreserved is vacuous?) -- got %r" % rb.violated)
    return r


def explore(ck, a):
    ck.exhaustive = a.tier == "thorough"
    t0 = time.time()
    design_runs(ck, a)
    t1 = time.time()
    tl = tlc_runs(a)
    t2 = time.time()
    for name, (hdr, states, results) in tl.items():
        for r in results:
            if r.violated:
                ck.violation("spec:" + r.violated, {"tlc": r.out[-4000:], "config": name},
                             "TLC: design invariant %s violated in SymClass (MC_Sym%s)" % (r.violated, name))
        agg = {"distinct": sum(r.distinct or 0 for r in results), "generated": sum(r.generated or 0 for r in results),
               "depth": max((r.depth or 0) for r in results), "wall_s": max(r.wall_s for r in results)}
        ck.mc(agg, "SymClass/%s x%d" % (name, len(results)))
    tl = collections.OrderedDict((k, v) for k, v in tl.items() if v[0] is not None)
    st = replay(ck, a, tl)
    t3 = time.time()
    ck.extra["refused"] = sum(st["refused"].values())
    ck.extra["refused_by_class"] = dict(st["refused"].most_common(60))
    ck.extra["results"] = dict(st["stats"])
    ck.extra["programs_emitted"] = {k: len(v[1]) for k, v in tl.items()}
    ck.extra["base_programs_in_class"] = {k: v[0]["nbase"] for k, v in tl.items()}
    ck.extra["rewrite_kinds_replayed"] = dict(st["rewrites"])
    ck.extra["scheme_style_counts"] = dict(st["schemes"])
    ck.extra["cpu_s_by_config"] = {k: round(v, 1) for k, v in st["cpu"].items()}
    ck.extra["phase_wall_s"] = {"design_mc": round(t1 - t0, 1), "enumeration": round(t2 - t1, 1), "replay": round(t3 - t2, 1)}
    ck.extra["technique_note"] = ("TLC is enumerator + denotational oracle (and model-checks rewrite-preserves-Sol on the "
                                  "spec); it does not explore implementation behaviour")
    ck.assumptions = [
        "solution sets are compared on finite grids of half-integer points (13x13 for 2 variables, 7x7x7 for 3): "
        "equality of solution sets is claimed on those points only",
        "decimal literals in returned text are read as the nearest rational p/q with q <= 1000 (decimal exponent "
        "normalised) when within 1e-12 relative (sympy prints floats rounded to 15 digits), else exactly; all other "
        "arithmetic is exact (fractions.Fraction)",
        "a returned case holds at a point iff every line of it is defined there and true; points where the INPUT has a "
        "zero denominator are excluded on both sides; None returned by simplify is read as 'no solution'",
        "an exception, a timeout (30 s), memory exhaustion (2 GB address space) or a non-text result is a refusal (counted in coverage.refused), not a violation",
        "very large / small coefficients are covered as a uniform factor 10^+-8 on all numbers of a line, not mixed "
        "magnitudes within one line; coefficients are dyadic rationals (and -3/2) so that sympy's float arithmetic is exact "
        "up to the stated literal snapping",
        "simplify is run with random.seed(case seed) and default options (no target/cycle); all=False is compared only "
        "where all=True returned a single case",
    ]
    return st


# ------------------------------------------------------------------------------------------
# self-test: in-memory mutants of mystic.symbolic
def selftest(a):
    import mystic.symbolic as ms
    import mystic._symbolic as m_s
    a.tier = "quick"
    tl = tlc_runs(a)
    tl = collections.OrderedDict((k, v) for k, v in tl.items() if v[0] is not None)

    def m_flip():
        o = ms.equals
        ms.equals = lambda *x, **k: True          # never decides to flip: wrong exactly for negative coefficients
        return lambda: setattr(ms, "equals", o)

    def m_strict():
        o = ms._flip
        ms._flip = lambda cmp, bounds=False: ("<=" if cmp in (">=", ">") else ">=" if cmp in ("<=", "<") else cmp)
        return lambda: setattr(ms, "_flip", o)

    def m_case():
        o = ms._simplify

        def _simplify(*x, **k):
            r = o(*x, **k)
            if isinstance(r, tuple) and len(r) > 1:
                r = r[:-1]
                return r if len(r) > 1 else r[0]
            return r
        ms._simplify = _simplify
        return lambda: setattr(ms, "_simplify", o)

    def m_bounds():
        o = ms.symbolic_bounds

        def symbolic_bounds(min, max, variables=None):
            o(list(min), list(max), variables)            # keep the argument checks
            keep = ms._any
            ms._any = lambda *x, **k: False
            try:
                return o(list(max), list(min), variables)   # min and max swapped in the text
            finally:
                ms._any = keep
        ms.symbolic_bounds = symbolic_bounds
        return lambda: setattr(ms, "symbolic_bounds", o)

    def m_linsym():
        o = ms.linear_symbolic

        def linear_symbolic(*x, **k):
            r = o(*x, **k)
            return "\n".join(r.strip().split("\n")[:-1]) + "\n"
        ms.linear_symbolic = linear_symbolic
        return lambda: setattr(ms, "linear_symbolic", o)

    def m_solve():
        o = m_s._solve_linear

        def _solve_linear(*x, **k):
            r = o(*x, **k)
            if isinstance(r, str) and "\n" in r:
                r = "\n".join(r.split("\n")[:-1])
            return r
        m_s._solve_linear = _solve_linear
        return lambda: setattr(m_s, "_solve_linear", o)

    mutants = [
        ("flip decision inverted for a negative coefficient (never flips)", m_flip, {"simplify"}),
        ("strictness lost in flip ('<' flips to '>=', '>' to '<=')", m_strict, {"simplify"}),
        ("a sign case dropped from simplify(all=True)", m_case, {"simplify"}),
        ("symbolic_bounds swaps min and max", m_bounds, {"bounds"}),
        ("linear_symbolic drops the last row", m_linsym, {"linsym"}),
        ("solve drops the last equation of a solved linear system", m_solve, {"solve"}),
        ("one grid point removed from an expected solution set printed by TLC", None, {"bounds", "linsym"}),
    ]
    missed = 0
    from harness.tlc import scratch_dir
    import shutil
    scratch = scratch_dir()

    def run(mut, only, corrupt=False):
        undo = mut() if mut else (lambda: None)
        ck = new_check(a)
        ck.outdir = scratch          # replay artefacts of mutants are not evidence
        try:
            with contextlib.redirect_stdout(io.StringIO()):
                st = replay(ck, a, tl, only=only, corrupt=corrupt)
        finally:
            undo()
        return ck, st["violated"]

    # the unchanged tree first: a mutant counts as caught only for violations the unchanged tree does not have
    _, base = run(None, None)
    print("SELFTEST baseline (unchanged tree): %d violated cases" % len(base))
    for name, mut, only in mutants:
        ck, viol = run(mut, only, corrupt=(mut is None))
        new = viol - base
        classes = sorted(set(k for k in ck.viol_keys))
        print("SELFTEST %s: %s (%d cases violated that hold on the unchanged tree; classes seen: %s)" % (
            name, "caught" if new else "MISSED", len(new), ", ".join(classes[:4])))
        sys.stdout.flush()
        missed += 0 if new else 1
    # the spec's own negative control
    rb = run_tlc("sym/MC_Sym", cfg="MC_SymBad.cfg", workers=1, env={"STRIDE": 8, "OFFSET": 0}, timeout=3000)
    ok = rb.violated == "SolPreserved"
    print("SELFTEST spec negative control (scale by a negative constant without flipping): %s" % ("caught" if ok else "MISSED"))
    missed += 0 if ok else 1
    shutil.rmtree(scratch, ignore_errors=True)
    return 1 if missed else 0


def replay_artifact(path):
    """re-run one recorded violation (out/C12/replay_*.json) against the current tree: exit 1 if it still disagrees
    with the solution set TLC printed when the artefact was written"""
    d = json.load(open(path))["detail"]
    job = dict(d["replay_job"])
    hdr = job.pop("grid")
    job.update(sol=mask(job.pop("sol_ids")), und=mask(job.pop("und_ids")), crit=mask(job.pop("crit_ids")), id=0)
    _init_worker()
    rc = 0
    for r in run_job(job, hdr):
        print("%s on %r (variables=%r, random.seed(%d)): %s" % (r["api"], job["text"], job["vars"], job["seed"], r["st"]))
        if r["st"] == "viol":
            rc = 1
            print("  returned %r\n  %d grid points satisfy the input but not the result (e.g. %s), %d the result but not the input (e.g. %s)"
                  % (r["returned"], r["missing"], r["missing_pts"][:3], r["extra"], r["extra_pts"][:3]))
            print("VIOLATION property=C12 replay=%s" % path)
        elif r["st"] != "ok":
            print("  " + str(r.get("why")))
    return rc


def main():
    a = tier_seed()
    assert_repo()
    import warnings
    warnings.simplefilter("ignore")
    if a.replay:
        return replay_artifact(a.replay)
    if a.selftest:
        return selftest(a)
    ck = new_check(a)
    explore(ck, a)
    return ck.finish()


if __name__ == "__main__":
    main_guard(main)
