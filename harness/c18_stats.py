"""C18, parts two and three: replay of specs/math/Stats.tla and specs/math/StatsDist.tla on the real
mystic.math.measures / mystic.math.distance.

Stats (per emitted initial state = weighted point set; expected values are the Obs2 record TLC printed):
  standard_moment / skewness / kurtosis  squared form, emitted as a list of rational factors + sign
  maximum / minimum / ptp, ess_* (weights=None and tol=0,1,2), support / support_index with tol
  expectation / expected_variance / expected_std / _expected_moment with tol
  mean / moment with tol=, norm, weighted_select (the uniform draw is scripted: mystic.tools.random_state is
  replaced by a source returning the u of the specification -- the draw is an input of the function)
  tmean / tvariance / tstd over the catalogue K2, k scalar and (lo, hi), clip False / True, nan when everything is cut
  the post-condition table OpTable2 (impose_median / _mad / _tmean / _tvariance / _tstd over K2)
  the normalisation case table of the header (normalize / impose_sum / impose_product(0, zsum))
StatsDist (per emitted state = two point sets): distance matrices, pairwise vectors, full reductions, self
  distances, dmin=2, minkowski(p), absolute_distance tensors, Lnorm(p, axis), lipschitz_metric,
  lipschitz_distance (datasets and datapoint lists; tol, cutoff), infeasibility, is_feasible.

The helpers of check_C18 (tolerant comparison with exact rationals, exact instruments, result collector) are
handed in as `H`, so this module has no state of its own.
"""
import math
from fractions import Fraction

CORRUPT = {"on": False}


def pf_value(pf):
    """a number in product form [def, sign, f]: the product of the rationals in f"""
    v = Fraction(1)
    for n_, d_ in pf["f"]:
        v *= Fraction(n_, d_)
    return (v.numerator, v.denominator)


def _isnan(v):
    try:
        return math.isnan(float(v))
    except Exception:
        return False


class Scripted(object):
    """random source that returns the draw of the specification"""
    def __init__(self, u):
        self.u = u

    def random(self, *a):
        return self.u


# ------------------------------------------------------------------------------------------ Stats
def replay_stats_state(H, mods, hdr, st, idx, res):
    mm, md, np = mods
    ks = hdr["ks"]
    s_i = [v[0] for v in st["s"]]
    w_i = [v[0] for v in st["w"]]
    n = len(s_i)
    obs = st["obs"]
    if CORRUPT["on"] and idx % 5 == 0:
        obs = dict(obs, sm=dict(obs["sm"]))
        k3 = obs["sm"]["3"]
        if k3["def"]:
            obs["sm"]["3"] = dict(k3, f=k3["f"] + [[2, 1]])          # skewness^2 doubled
        obs["fmax"] = dict(obs["fmax"], lin=obs["fmax"]["lin"] + 1)
    # the instruments of check_C18 must agree with TLC on the observables the table refers to
    sF, wF = (s_i, 1), (w_i, 1)
    for ref in hdr["_refs"]:
        e = H.look(obs, ref)
        m = H.measure(ref, sF, wF, ks)
        if (m is None) != H.undef(e) or (m is not None and m[0] * e[1] != e[0] * m[1]):
            raise RuntimeError("instrument %s disagrees with TLC on %s %s: %s vs %s" % (ref, s_i, w_i, m, e))
    allones = all(x == 1 for x in w_i)
    nontriv = obs["var"][0] != 0
    if "_fd" not in hdr:
        hdr["_fd"] = {name: {int(k): v for k, v in tab.items()} for name, tab in hdr["fns"].items()}
    fdict = hdr["_fd"]
    variants = [("list", list(s_i), list(w_i)), ("ndarray", np.array(s_i, dtype=float), np.array(w_i, dtype=float))]
    if idx % 2:
        variants[0] = ("floatlist", [float(x) for x in s_i], [float(x) for x in w_i])
        variants[1] = ("intarray", np.array(s_i), np.array(w_i))
    calls = []            # (fn, tag, thunk, expected, mode)
    A = calls.append
    for vi, (vname, S, W) in enumerate(variants):
        heavy = vi == idx % 2            # the trimmed and the tol= families: one container per state, alternating
        for wname, WW in [("weighted", W)] + ([("unweighted", None)] if allones else []):
            tag = wname + ":" + vname
            for k_, pf in sorted(obs["sm"].items()):
                k = int(k_)
                A(("standard_moment[%d]" % k, tag, lambda S=S, WW=WW, k=k: mm.standard_moment(S, WW, order=k), pf, "pf"))
            A(("skewness", tag, lambda S=S, WW=WW: mm.skewness(S, WW), obs["sm"]["3"], "pf"))
            A(("kurtosis", tag, lambda S=S, WW=WW: mm.kurtosis(S, WW), obs["sm"]["4"], "pf"))
            for j, mt in enumerate(hdr["meantols"]):
                tf = mt[0] / mt[1]
                A(("mean[tol]", tag, lambda S=S, WW=WW, tf=tf: mm.mean(S, WW, tol=tf), obs["meantol"][j], "q"))
                for k_, e in sorted(obs["momtol"][j].items()):
                    A(("moment[%s][tol]" % k_, tag, lambda S=S, WW=WW, tf=tf, k=int(k_): mm.moment(S, WW, order=k, tol=tf), e, "q"))
            for j, k in enumerate(ks if heavy else ()):
                kk = H.kw_k(k)
                cut_all = k[0] + k[1] >= 100
                nanq = "nan" if cut_all else "q"
                A(("tmean", tag, lambda S=S, WW=WW, kk=kk: mm.tmean(S, WW, k=kk), obs["tmean"][j], nanq))
                A(("tvariance", tag, lambda S=S, WW=WW, kk=kk: mm.tvariance(S, WW, k=kk), obs["tvar"][j], nanq))
                A(("tstd", tag, lambda S=S, WW=WW, kk=kk: mm.tstd(S, WW, k=kk) ** 2, obs["tvar"][j], nanq))
                A(("tmean[clip]", tag, lambda S=S, WW=WW, kk=kk: mm.tmean(S, WW, k=kk, clip=True), obs["wmean"][j], "q"))
                A(("tvariance[clip]", tag, lambda S=S, WW=WW, kk=kk: mm.tvariance(S, WW, k=kk, clip=True), obs["wvar"][j], "q"))
                A(("tstd[clip]", tag, lambda S=S, WW=WW, kk=kk: mm.tstd(S, WW, k=kk, clip=True) ** 2, obs["wvar"][j], "q"))
        tag = "weighted:" + vname
        A(("norm", tag, lambda W=W: mm.norm(W), obs["norm"], "q"))
        A(("norm", tag, lambda S=S: mm.norm(S), obs["snorm"], "q"))
        for fi, (name, tab) in enumerate(sorted(fdict.items())):
            if (idx + fi) % 2:                  # points as 1-tuples, the way product measures pass them
                P = [(int(x),) for x in s_i]
                f = (lambda tab: lambda p: tab[p[0]])(tab)
            else:
                P = [int(x) for x in s_i] if vname not in ("ndarray",) else S
                f = (lambda tab: lambda x: tab[int(x)])(tab)
            fmx, fmn = obs["fmax"][name], obs["fmin"][name]
            A(("maximum", tag, lambda f=f, P=P: mm.maximum(f, P), fmx, "int"))
            A(("minimum", tag, lambda f=f, P=P: mm.minimum(f, P), fmn, "int"))
            A(("ptp", tag, lambda f=f, P=P: mm.ptp(f, P), fmx - fmn, "int"))
            A(("ess_maximum[weights=None]", tag, lambda f=f, P=P: mm.ess_maximum(f, P), fmx, "int"))
            A(("ess_minimum[weights=None]", tag, lambda f=f, P=P: mm.ess_minimum(f, P), fmn, "int"))
            A(("ess_ptp[weights=None]", tag, lambda f=f, P=P: mm.ess_ptp(f, P), fmx - fmn, "int"))
            for t_, per in sorted(obs["ess"].items()):
                t = int(t_)
                lo, hi, pp, isdef = per[name]
                if isdef:
                    A(("ess_minimum[tol]", tag, lambda f=f, P=P, W=W, t=t: mm.ess_minimum(f, P, W, tol=t), lo, "int"))
                    A(("ess_maximum[tol]", tag, lambda f=f, P=P, W=W, t=t: mm.ess_maximum(f, P, W, tol=t), hi, "int"))
                    A(("ess_ptp[tol]", tag, lambda f=f, P=P, W=W, t=t: mm.ess_ptp(f, P, W, tol=t), pp, "int"))
                if t == 0 or not heavy:
                    continue                     # tol = 0 is the form check_C18 replays on the Moments states
                e1, e2 = obs["exp"][t_][name], obs["expvar"][t_][name]
                A(("expectation[tol]", tag, lambda f=f, P=P, W=W, t=t: mm.expectation(f, P, W, tol=t), e1, "q"))
                A(("expected_variance[tol]", tag, lambda f=f, P=P, W=W, t=t: mm.expected_variance(f, P, W, tol=t), e2, "q"))
                A(("expected_std[tol]", tag, lambda f=f, P=P, W=W, t=t: mm.expected_std(f, P, W, tol=t) ** 2, e2, "q"))
                A(("_expected_moment[2][tol]", tag, lambda f=f, P=P, W=W, t=t: mm._expected_moment(f, P, W, order=2, tol=t), e2, "q"))
        for t_, idxs in sorted(obs["supp"].items()):
            want = sorted(i - 1 for i in idxs)
            A(("support_index[tol]", tag, lambda W=W, t=int(t_): [int(i) for i in mm.support_index(W, tol=t)], want, "eq"))
            A(("support[tol]", tag, lambda S=S, W=W, t=int(t_): [float(x) for x in mm.support(S, W, tol=t)], [float(s_i[i]) for i in want], "eq"))
    for fn, tag, thunk, exp, mode in calls:
        if mode == "pf":
            if not exp["def"]:
                continue                          # degenerate variance: not defined
        elif mode == "q" and H.undef(exp):
            continue                          # not specified here
        try:
            got = thunk()
        except Exception as ex:
            res.violation("%s:raises-%s[%s]" % (fn, type(ex).__name__, tag.split(":")[0]),
                          {"fn": fn, "variant": tag, "samples": s_i, "weights": w_i, "error": repr(ex)[:300]},
                          "%s(%s, %s) [%s] raised %r" % (fn, s_i, w_i, tag, ex))
            continue
        if mode == "pf":
            want = pf_value(exp)
            try:
                g = float(got)
                ok = H.close(g * g, want) and (exp["sign"] == 0 or (g > 0) == (exp["sign"] > 0))
            except Exception:
                ok = False
            shown = "sign %d, square %s/%s" % (exp["sign"], want[0], want[1])
        elif mode == "int":
            try:
                ok = float(got) == float(exp)
            except Exception:
                ok = False
            shown = str(exp)
        elif mode == "eq":
            ok = got == exp
            shown = str(exp)
        elif mode == "nan":
            ok = _isnan(got)
            shown = "nan (everything is cut)"
        else:
            ok = H.close(got, exp)
            shown = "%s/%s" % (exp[0], exp[1])
        if not ok:
            kind = "not-nan-when-all-excluded" if mode == "nan" else "wrong-value"
            res.violation("%s:%s[%s]" % (fn, kind, tag.split(":")[0]),
                          {"fn": fn, "variant": tag, "samples": s_i, "weights": w_i, "expected": exp, "got": repr(got)},
                          "%s on samples %s weights %s [%s]: spec %s, mystic %r" % (fn, s_i, w_i, tag, shown, got))
    # ---- weighted_select with the scripted draw
    import mystic.tools as mt
    orig_rs = mt.random_state
    vname, S, W = variants[idx % 2]
    labels = list(range(n))
    try:
        for j, u in enumerate(hdr["us"]):
            uf = u[0] / u[1]
            mt.random_state = lambda *a, **k: Scripted(uf)
            want = st["obs"]["select"][j] - 1
            for mass, smp in ((1.0, labels), (2.5, S)):
                try:
                    got = mm.weighted_select(smp, W, mass)
                except Exception as ex:
                    res.violation("weighted_select:raises-%s" % type(ex).__name__,
                                  {"samples": s_i, "weights": w_i, "u": u, "mass": mass, "error": repr(ex)[:300]},
                                  "weighted_select(%s, %s, %s) with draw %s raised %r" % (s_i, w_i, mass, uf, ex))
                    continue
                ok = (got == want) if smp is labels else (float(got) == float(s_i[want]))
                if not ok:
                    res.violation("weighted_select:wrong-position" + ("[zero-weight]" if (smp is labels and w_i[int(got)] == 0) else ""),
                                  {"samples": s_i, "weights": w_i, "u": u, "mass": mass, "expected_index": want, "got": repr(got)},
                                  "weighted_select on weights %s with draw %s/%s (mass %s): spec selects position %d, mystic returned %r" % (
                                      w_i, u[0], u[1], mass, want, got))
    finally:
        mt.random_state = orig_rs
    res.case("definitions[stats]", nontriv)
    if nontriv and n >= 3 and 0 in w_i and not any(x.get("clause") == "definitions[stats]" for x in res.samples):
        res.samples.append({"clause": "definitions[stats]", "samples": s_i, "weights": w_i,
                            "spec": {k: obs[k] for k in ("sm", "ess", "supp", "meantol", "select", "tmean", "wmean")}})
    # ---- post-conditions of the order-statistic transforms (OpTable2)
    vname, S, W = variants[idx % 2]
    Wcall = None if (allones and idx % 3 == 0) else W
    H.replay_postconditions(mm, hdr, obs, S, W, Wcall, vname, s_i, w_i, nontriv, res, mark="{K2}")
    res.traces += 1


def replay_norm_cases(H, mods, hdr, res):
    """the normalisation case table of the Stats header"""
    mm, md, np = mods
    for ci, c in enumerate(hdr["norm"]):
        kind, w = c["kind"], c["w"]
        W = list(w) if ci % 2 else np.array(w, dtype=float)
        exp = c["exp"]
        if CORRUPT["on"] and kind == "sum" and ci % 3 == 0:
            exp = [[exp[0][0] + exp[0][1], exp[0][1]]] + exp[1:]
        mass = c["mass"][0] / c["mass"][1]
        z = (c["z"][0] / c["z"][1]) if c["z"][1] else None
        ctx = {"kind": kind, "weights": w, "mass": c["mass"], "zmass": c["z"], "p": c["p"]}
        runs = []
        if kind == "sum":
            runs = [("normalize[mass]", lambda: mm.normalize(W, mass)), ("impose_sum[mass]", lambda: mm.impose_sum(mass, W))]
        elif kind == "zero":
            runs = [("normalize[mass=0]", lambda: mm.normalize(W, 0.0)), ("impose_sum[mass=0]", lambda: mm.impose_sum(0.0, W))]
        elif kind == "zsum":
            runs = [("normalize[zsum]", lambda: mm.normalize(W, 0.0, zsum=True, zmass=z)),
                    ("impose_sum[zsum]", lambda: mm.impose_sum(0.0, W, True, z))]
        elif kind == "lp":
            p = c["p"]
            runs = [("normalize[l%d]" % p, lambda: mm.normalize(W, "l%d" % p))]
            if p == 2:
                runs.append(("normalize[default]", lambda: mm.normalize(W)))
        elif kind == "zprod":
            runs = [("impose_product[zsum]", lambda: mm.impose_product(0.0, W, zsum=True, zmass=z)),
                    ("impose_product[mass=0]", lambda: mm.impose_product(0.0, W))]
        for clause, thunk in runs:
            res.case(clause, kind != "zero")
            try:
                got = [float(x) for x in thunk()]
            except Exception as ex:
                res.violation("%s:raises-%s" % (clause, type(ex).__name__), dict(ctx, error=repr(ex)[:300]),
                              "%s on weights %s raised %r" % (clause, w, ex))
                continue
            bad = None
            if len(got) != len(w) or not H.finite(got):
                bad = "returns-nan-where-defined"
            elif kind in ("sum", "zero", "zsum"):
                if not all(H.close(g, e) for g, e in zip(got, exp)):
                    bad = "wrong-value"
            elif kind == "lp":
                p = c["p"]
                if not all(H.close(abs(g) ** p, e) and (x == 0 or (g > 0) == (x > 0)) for g, e, x in zip(got, exp, w)):
                    bad = "wrong-value"
            elif clause == "impose_product[mass=0]":
                if any(g != 0 for g in got):
                    bad = "wrong-value"
            else:                                  # zprod with counterbalance: last member 0, product of the rest = zmass, proportions kept
                gi, D = H.ivec(got)
                prod = 1
                for g in gi[:-1]:
                    prod *= g
                ok = gi[-1] == 0 and H.qclose((prod, D ** (len(gi) - 1)), tuple(c["z"]))
                ok = ok and all(abs(gi[i] * w[0] - gi[0] * w[i]) * 10 ** 9 <= abs(gi[0] * w[i]) for i in range(1, len(gi) - 1))
                if not ok:
                    bad = "wrong-value"
            if bad:
                res.violation("%s:%s" % (clause, bad), dict(ctx, expected=exp, got=got),
                              "%s on weights %s (mass %s, zmass %s): spec %s, mystic %s" % (clause, w, c["mass"], c["z"], exp, got))
        res.traces += 1
    zs = [x for x in hdr["norm"] if x["kind"] == "zsum" and len(x["w"]) >= 3]
    if zs:
        c = zs[0]
        res.samples.append({"clause": "normalize[zsum]", "weights": c["w"], "zmass": c["z"], "spec": c["exp"]})


# ------------------------------------------------------------------------------------------ StatsDist
def replay_dist_state(H, mods, hdr, st, idx, res):
    mm, md, np = mods
    from mystic.math.legacydata import dataset, datapoint
    x, y, obs = st["x"], st["y"], st["obs"]
    m, k, d = len(x), len(y), len(x[0])
    INFV = hdr["inf"]
    pw = hdr["pw"]
    if CORRUPT["on"] and idx % 5 == 0:
        obs = dict(obs, mat=dict(obs["mat"], chebyshev=[[v + 1 for v in row] for row in obs["mat"]["chebyshev"]]))
    if idx % 2:
        X, Y = np.array(x, dtype=float), np.array(y, dtype=float)
        cont = "ndarray"
    else:
        X, Y = [list(p) for p in x], [list(p) for p in y]
        cont = "list"
    ctx0 = {"x": x, "y": y, "container": cont}
    inf = float("inf")

    def cmp_arr(got, want, shape, power):
        """got: array-like; want: nested ints in power form"""
        g = np.asarray(got, dtype=float)
        if shape is not None and tuple(g.shape) != tuple(shape):
            return False
        g = g.reshape(-1)
        wflat = np.asarray(want, dtype=float).reshape(-1)
        if g.size != wflat.size or not np.all(np.isfinite(g)):
            return False
        return all(H.close(float(a) ** power, (int(b), 1)) for a, b in zip(g, wflat))

    checks = []           # (fn, form, thunk, want, shape, power)
    C = checks.append
    for name in hdr["metrics"]:
        f = getattr(md, name)
        p = pw[name]
        mat, slf = obs["mat"][name], obs["self"][name]
        C((name, "matrix", lambda f=f: f(X, Y, pair=False, axis=0), mat, (m, k), p))
        C((name, "matrix", lambda f=f: f(X, Y, axis=0), mat, (m, k), p))
        C((name, "all", lambda f=f: f(X, Y), obs["all"][name], (), p))
        C((name, "self", lambda f=f: f(X, axis=0), slf, (m, m), p))
        C((name, "self", lambda f=f: f(X, None, pair=False, axis=0), slf, (m, m), p))
        if m == k:
            C((name, "pairwise", lambda f=f: f(X, Y, pair=True, axis=1), obs["pair"][name], (m,), p))
            C((name, "pairwise-all", lambda f=f: f(X, Y, pair=True), obs["pairall"][name], (), p))
        if m == 1 and k == 1:
            C((name, "dmin", lambda f=f: f(X[0], Y[0], dmin=2, axis=0), mat, (1, 1), p))
    for p_, nm in ((1, "manhattan"), (2, "euclidean"), (3, "minkowski"), (inf, "chebyshev")):
        C(("minkowski[p=%s]" % p_, "matrix", lambda p_=p_: md.minkowski(X, Y, p=p_, axis=0), obs["mat"][nm], (m, k), pw[nm]))
        if m == k:
            C(("minkowski[p=%s]" % p_, "pairwise", lambda p_=p_: md.minkowski(X, Y, pair=True, p=p_, axis=1), obs["pair"][nm], (m,), pw[nm]))
    C(("absolute_distance", "pointwise", lambda: md.absolute_distance(X, Y), obs["pointwise"], (d, m, k), 1))
    if m == k:
        C(("absolute_distance", "pairwise", lambda: md.absolute_distance(X, Y, pair=True), obs["pairwise"], (m, d), 1))
    for j, p_ in enumerate(hdr["ps"]):
        pp = inf if p_ == INFV else p_
        power = 1 if p_ in (0, INFV) else p_
        ln = obs["lnorm"][j]
        C(("Lnorm[p=%s]" % pp, "axis=None", lambda pp=pp: md.Lnorm(X, pp), ln["all"], (), power))
        C(("Lnorm[p=%s]" % pp, "axis=0", lambda pp=pp: md.Lnorm(X, pp, axis=0), ln["ax0"], None, power))
        C(("Lnorm[p=%s]" % pp, "axis=1", lambda pp=pp: md.Lnorm(X, pp, axis=1), ln["ax1"], None, power))
    for lc in obs["lip"]:
        L = lc["L"]
        C(("lipschitz_metric", "matrix", lambda L=L: md.lipschitz_metric(L, X, Y), lc["metric"], (m, k), 1))
    vx, vy = obs["vx"], obs["vy"]
    if idx % 3:
        P1, P2 = dataset(), dataset()
        P1.load([list(p) for p in x], list(vx))
        P2.load([list(p) for p in y], list(vy))
        how = "dataset"
    else:
        P1 = [datapoint(list(p), v) for p, v in zip(x, vx)]
        P2 = [datapoint(list(p), v) for p, v in zip(y, vy)]
        how = "datapoints"
    for lc in obs["lipdist"]:
        L, tol, cut = lc["L"], lc["tol"], lc["cutoff"]
        nocut = cut == hdr["nocut"]
        tag = "%s,tol=%s,cutoff=%s" % (how, tol, "None" if nocut else cut)
        C(("lipschitz_distance", tag, lambda L=L, tol=tol, cut=cut, nocut=nocut: md.lipschitz_distance(L, P1, P2, tol=tol, cutoff=None if nocut else cut),
           lc["out"], (m, k), 1))
        if nocut:
            C(("lipschitz_distance", tag + "[False]", lambda L=L, tol=tol: md.lipschitz_distance(L, P1, P2, tol=tol, cutoff=False), lc["out"], (m, k), 1))
        elif cut == tol:
            C(("lipschitz_distance", tag + "[default]", lambda L=L, tol=tol: md.lipschitz_distance(L, P1, P2, tol=tol), lc["out"], (m, k), 1))
            C(("lipschitz_distance", tag + "[True]", lambda L=L, tol=tol: md.lipschitz_distance(L, P1, P2, tol=tol, cutoff=True), lc["out"], (m, k), 1))
        if tol == 0 and L == obs["lipdist"][0]["L"]:
            raw = lc["raw"]
            R = np.array(raw, dtype=float) if idx % 2 else [list(r) for r in raw]
            if nocut:
                C(("infeasibility", "cutoff=None", lambda R=R: md.infeasibility(R, None), lc["out"], (m, k), 1))
            else:
                C(("infeasibility", "cutoff=%s" % cut, lambda R=R, cut=cut: md.infeasibility(R, cut), lc["out"], (m, k), 1))
                C(("infeasibility", "scalar", lambda raw=raw, cut=cut: md.infeasibility(raw[0][0], cut), lc["out"][0][0], (), 1))
                if cut == 0:
                    C(("infeasibility", "default", lambda R=R: md.infeasibility(R), lc["out"], (m, k), 1))
                feas = [[1 if b else 0 for b in row] for row in lc["feasible"]]
                C(("is_feasible", "cutoff=%s" % cut, lambda R=R, cut=cut: np.asarray(md.is_feasible(R, cut)).astype(int), feas, (m, k), 1))
                C(("is_feasible", "scalar", lambda raw=raw, cut=cut: int(bool(md.is_feasible(raw[0][0], cut))), feas[0][0], (), 1))
    nontriv = any(v != 0 for row in obs["mat"]["hamming"] for v in row)
    for fn, form, thunk, want, shape, power in checks:
        try:
            got = thunk()
        except Exception as ex:
            res.violation("%s:raises-%s[%s]" % (fn, type(ex).__name__, form.split(",")[0]), dict(ctx0, fn=fn, form=form, error=repr(ex)[:300]),
                          "%s [%s] on x=%s y=%s raised %r" % (fn, form, x, y, ex))
            continue
        if not cmp_arr(got, want, shape, power):
            res.violation("%s:wrong-value[%s]" % (fn, form.split(",")[0]),
                          dict(ctx0, fn=fn, form=form, expected=want, power=power, got=repr(np.asarray(got).tolist())),
                          "%s [%s] on x=%s y=%s: spec %s (power %s, shape %s), mystic %r" % (fn, form, x, y, want, power, shape, np.asarray(got).tolist()))
    res.case("distances[%dx%dx%d]" % (m, k, d) + ("" if not st["hist"] else "[after %s]" % st["hist"][-1]), nontriv)
    res.traces += 1
    if nontriv and m == 2 and k == 2 and d == 2 and not any(s.get("clause") == "distances" for s in res.samples):
        res.samples.append({"clause": "distances", "x": x, "y": y,
                            "spec": {kk: obs[kk] for kk in ("mat", "pair", "all", "lnorm")}})
