"""Things the C07 check hands to mystic -- kept in an importable module on purpose (dill copies functions of
importable modules BY REFERENCE, so solver copies / restart files / ensemble members all call the very same harness
functions and the harness really counts every cost call).

Contents
  CALLS            one entry per real cost call (list.append is atomic: safe under thread maps)
  cost_* / vcost_* cheap deterministic scalar / vector-valued costs
  cons_* / pen_*   constraints / penalties owned by the harness
  reducer_add      a reducer for the vector-valued costs
  canon / snap     exact (bit-for-bit) canonical form of values; the full observable state of a solver
  rng_fingerprint  fingerprint of the global Python and NumPy generator states
  EventMap         a map that EXECUTES a TLC schedule (event sequence: i = start item i, -i = complete item i):
                   inline when the schedule has no overlap, else one thread per work item whose start and completion
                   are released in exactly the scheduled order (items between start and completion really overlap)
  LAST             completion order / start order of the most recent map call (read by self-test mutants only)
"""
import threading, hashlib, random as _random
import numpy as np
from harness import ensemble_support as S

CALLS = []
LAST = {"order": [], "started": [], "n": 0}


def ncalls():
    return len(CALLS)


def reset():
    del CALLS[:]
    LAST["order"], LAST["started"], LAST["n"] = [], [], 0


# ------------------------------------------------------------------------------------------ costs
def cost_rosen(x):
    CALLS.append(1)
    x = [float(v) for v in x]
    return float(sum(100.0 * (x[i + 1] - x[i] ** 2) ** 2 + (1.0 - x[i]) ** 2 for i in range(len(x) - 1)))


def cost_bowl(x):
    CALLS.append(1)
    return float(sum((float(v) - 0.3) ** 2 for v in x)) + 0.125 * float(x[0]) * float(x[-1])


def cost_abs(x):
    CALLS.append(1)
    return float(sum(abs(float(v) - 0.25 * (i + 1)) for i, v in enumerate(x)))


def cost_steps(x):
    """piecewise constant (offset 1: never within a solver's default value-to-reach): many exact ties"""
    CALLS.append(1)
    return 1.0 + float(sum(np.floor(4.0 * abs(float(v) - 0.3)) / 4.0 for v in x))


def vcost_rosen(x):
    CALLS.append(1)
    x = [float(v) for v in x]
    return [100.0 * (x[i + 1] - x[i] ** 2) ** 2 + (1.0 - x[i]) ** 2 for i in range(len(x) - 1)]


def vcost_bowl(x):
    CALLS.append(1)
    return [(float(v) - 0.3) ** 2 for v in x] + [0.125 * float(x[0]) * float(x[-1])]


def vcost_abs(x):
    CALLS.append(1)
    return [abs(float(v) - 0.25 * (i + 1)) for i, v in enumerate(x)]


def vcost_steps(x):
    CALLS.append(1)
    return [1.0] + [float(np.floor(4.0 * abs(float(v) - 0.3)) / 4.0) for v in x]


def reducer_add(x, y):
    return x + y


# ------------------------------------------------------------------------------ constraints / penalty
def cons_grid(x):
    """idempotent, box-compatible: round every coordinate to a multiple of 1/64"""
    return [round(float(v) * 64.0) / 64.0 for v in x]


def cons_first_nonneg(x):
    """idempotent: the first coordinate is clamped to >= 0"""
    y = [float(v) for v in x]
    y[0] = max(y[0], 0.0)
    return y


def cons_tie(x):
    """idempotent: the last coordinate is tied to the first"""
    y = [float(v) for v in x]
    y[-1] = y[0]
    return y


def pen_sum(x):
    return 0.125 * max(0.0, float(x[0]) + float(x[1]) - 0.5) ** 2


def pen_abs(x):
    return 0.0625 * abs(float(x[0]))


def pen_const(x):
    """never zero: an unpenalised run is recognisable by its energies"""
    return 0.5 + abs(float(x[-1])) / 8.0


# --------------------------------------------------------------------------------- canonical values
def canon(o):
    """exact canonical form: floats by repr (distinguishes -0.0, keeps nan), arrays as nested tuples"""
    if isinstance(o, np.ndarray):
        return canon(o.tolist())
    if isinstance(o, (list, tuple)):
        return tuple(canon(v) for v in o)
    if isinstance(o, (float, np.floating)):
        return repr(float(o))
    if isinstance(o, (bool, np.bool_)):
        return bool(o)
    if isinstance(o, (int, np.integer)):
        return int(o)
    if o is None or isinstance(o, str):
        return o
    if isinstance(o, dict):
        return tuple(sorted((str(k), canon(v)) for k, v in o.items()))
    return repr(o)


def rng_fingerprint():
    """(python generator, numpy generator) state fingerprints"""
    p = _random.getstate()
    n = np.random.get_state()
    hp = hashlib.md5(repr(p).encode()).hexdigest()[:16]
    hn = hashlib.md5(n[1].tobytes() + repr(n[2:]).encode()).hexdigest()[:16]
    return hp, hn


def monitor_state(mon):
    from mystic.tools import isNull
    if isNull(mon):
        return ("null",)
    return (canon(list(mon._x)), canon(list(mon._y)), canon(list(mon._id)), canon(list(mon._info)))


def snap(s, msg=None, rng=True):
    """the complete observable state of a (non-ensemble) solver, in canonical exact form, as a dict of fields"""
    d = {"population": canon(s.population), "popEnergy": canon(s.popEnergy),
         "bestSolution": canon(s.bestSolution), "bestEnergy": canon(s.bestEnergy),
         "trialSolution": canon(s.trialSolution),
         "generations": int(s.generations), "evaluations": int(s.evaluations),
         "real_calls": ncalls(), "stepmon": monitor_state(s._stepmon), "evalmon": monitor_state(s._evalmon),
         "energy_history": canon(list(s.energy_history)), "solution_history": canon(list(s.solution_history)),
         "maxiter": canon(s._maxiter), "maxfun": canon(s._maxfun), "live": bool(s._live), "msg": msg}
    if hasattr(s, "_direc"):
        d["powell_direc"] = canon(s._direc)
        d["powell_internals"] = canon(getattr(s, "_PowellDirectionalSolver__internals", None))
    if hasattr(s, "genealogy"):
        d["genealogy_sizes"] = tuple(len(g) for g in s.genealogy)
    if rng:
        d["rng_python"], d["rng_numpy"] = rng_fingerprint()
    return d


def first_difference(t1, t2):
    """(step index, field) of the first difference between two trajectories (lists of snap dicts), or None"""
    for k, (a, b) in enumerate(zip(t1, t2)):
        for f in a:
            if a[f] != b.get(f, "<missing>"):
                return k, f
        for f in b:
            if f not in a:
                return k, f
    if len(t1) != len(t2):
        return min(len(t1), len(t2)), "length"
    return None


# --------------------------------------------------------------------------------------------- maps
class MapError(Exception):
    pass


class EventMap(object):
    """executes TLC schedules.  `schedules` is a list of event sequences; map call number c uses
    schedules[c % len(schedules)] (its length must fit the number of work items, else the call is executed
    serially and counted in `misfits`).  mode: "auto" = inline when the schedule has no overlap, threads otherwise;
    "threads" = always one thread per work item (a real pool whose start/completion order is forced)."""
    def __init__(self, schedules, mode="auto", name=None):
        self.schedules = [list(e) for e in schedules]
        self.mode = mode
        self.calls = 0
        self.misfits = 0
        self.executed = []          # (events really executed, in the order they happened) per map call
        self.__name__ = name or "eventmap"

    @staticmethod
    def sequential(ev):
        return all(ev[k + 1] == -ev[k] for k in range(0, len(ev), 2)) and len(ev) % 2 == 0

    def __call__(self, f, *seqs, **kwds):
        items = list(zip(*seqs))
        n = len(items)
        ev = self.schedules[self.calls % len(self.schedules)] if self.schedules else []
        self.calls += 1
        if sorted(ev) != sorted(list(range(1, n + 1)) + [-i for i in range(1, n + 1)]):
            self.misfits += 1
            ev = [e for i in range(1, n + 1) for e in (i, -i)]
        log = []
        res = [None] * n
        if self.mode == "auto" and self.sequential(ev):
            for e in ev:
                if e > 0:
                    log.append(e)
                    S.CUR.member = e
                    try:
                        res[e - 1] = f(*items[e - 1])
                    finally:
                        S.CUR.member = 0
                    log.append(-e)
        else:
            pos = {e: k for k, e in enumerate(ev)}
            turn = [0]
            cond = threading.Condition()
            errs = []

            def wait_turn(k):
                with cond:
                    if not cond.wait_for(lambda: turn[0] == k or errs, timeout=120):
                        errs.append(MapError("schedule stalled at event %d of %r" % (k, ev)))
                        cond.notify_all()

            def advance(e):
                with cond:
                    log.append(e)
                    turn[0] += 1
                    cond.notify_all()

            def work(i):
                wait_turn(pos[i])
                advance(i)                       # item i is running from here on, others may start / complete
                r = None
                S.CUR.member = i
                try:
                    r = f(*items[i - 1])
                except BaseException as ex:      # noqa
                    with cond:
                        errs.append(ex)
                        cond.notify_all()
                finally:
                    S.CUR.member = 0
                wait_turn(pos[-i])
                res[i - 1] = r
                advance(-i)
            th = [threading.Thread(target=work, args=(i,)) for i in range(1, n + 1)]
            for t in th:
                t.start()
            for t in th:
                t.join()
            if errs:
                raise errs[0]
        self.executed.append(log)
        LAST["order"] = [-e for e in log if e < 0]
        LAST["started"] = [e for e in log if e > 0]
        LAST["n"] = n
        return res


def serial_events(n):
    return [e for i in range(1, n + 1) for e in (i, -i)]


def order_events(order):
    return [e for i in order for e in (i, -i)]


class FreeThreadMap(object):
    """an unconstrained thread pool (completion order is whatever the threads do); records the order"""
    def __init__(self, workers=3):
        self.workers = workers
        self.__name__ = "free-threads"

    def __call__(self, f, *seqs, **kwds):
        from concurrent.futures import ThreadPoolExecutor
        items = list(zip(*seqs))
        order = []

        def work(i):
            S.CUR.member = i + 1
            try:
                r = f(*items[i])
            finally:
                S.CUR.member = 0
            order.append(i + 1)
            return r
        with ThreadPoolExecutor(max(1, self.workers)) as ex:
            res = list(ex.map(work, range(len(items))))
        LAST["order"], LAST["started"], LAST["n"] = list(order), [], len(items)
        return res


class ShuffleMap(object):
    """inline execution in a fresh seeded random order per call (for populations larger than TLC's schedules)"""
    def __init__(self, seed):
        self.rng = _random.Random(seed)
        self.__name__ = "shuffled"

    def __call__(self, f, *seqs, **kwds):
        items = list(zip(*seqs))
        order = list(range(1, len(items) + 1))
        self.rng.shuffle(order)
        res = [None] * len(items)
        for i in order:
            S.CUR.member = i
            try:
                res[i - 1] = f(*items[i - 1])
            finally:
                S.CUR.member = 0
        LAST["order"], LAST["started"], LAST["n"] = list(order), list(order), len(items)
        return res


def fork_map(f, *seqs, **kwds):
    """a PROCESS-based map: every work item is evaluated in a forked child (works for closures: nothing is pickled
    on the way in; the scalar result comes back through a pipe).  Only used for DE2 (results are floats)."""
    import os, pickle
    items = list(zip(*seqs))
    res = [None] * len(items)
    pids = []
    for i, a in enumerate(items):
        r, w = os.pipe()
        pid = os.fork()
        if pid == 0:
            code = 0
            try:
                os.close(r)
                val = f(*a)
                with os.fdopen(w, "wb") as fh:
                    pickle.dump(val, fh)
            except BaseException:
                code = 1
            os._exit(code)
        os.close(w)
        pids.append((i, pid, r))
    for i, pid, r in reversed(pids):          # collect in reverse order of dispatch
        with os.fdopen(r, "rb") as fh:
            data = fh.read()
        os.waitpid(pid, 0)
        if not data:
            raise MapError("forked work item %d failed" % (i + 1))
        res[i] = pickle.loads(data)
    LAST["order"], LAST["started"], LAST["n"] = [i + 1 for i, _, _ in reversed(pids)], [], len(items)
    return res
