"""C09, grown: samplers (mystic/abstract_sampler.py, samplers.py) and the Searcher (mystic/search.py).

Both are built on the ensemble solvers of C09 and are specified and bound the same way.

Specifications  specs/solver/Sampler.tla   one action per public call of a sampler (construct, sample, sample_until,
                                           reset): the documented reset policy, rounds, the accounting
                specs/solver/Searcher.tla  Search / Reset / UseTrajectories of a Searcher: the retry/repeat loop over
                                           ensemble solves, the trajectory cache, the archive of evaluated points,
                                           Values / Coordinates / Minima / Samples as functions of that state
                Trace_Sampler.tla, Trace_Searcher.tla   recorded real executions, judged by named clauses

design      TLC model-checks both designs on small instances (2-3 members, programs with tied energies, tiny limits):
            reported evals = real model calls (+ nominal charges of idle steps) per member and in total, one iteration
            per member and round, members continue from round to round and are re-created only as documented,
            sample_until returns exactly when a stop condition first holds, reset restores the constructed ensemble
            and keeps the totals; archive = exactly the evaluated points, cache = the members' (rounded) best points,
            Minima = ALL cache entries at the minimum, the search ends exactly after `retry` fruitless passes of each
            of the `repeat`+1 runs.  The as-is violating designs (see the cfg names) are refuted, vacuity companions
            have witnesses.
spec->code  every complete script TLC emits is executed on the REAL classes with scripted member solvers (they follow
            the TLC programs; the points they evaluate are the real starting points the ensemble hands them, the cost
            function is the harness's: it counts and logs every call); after every public call the projected state
            must be what the specification says.
            (H09) the arguments of every replayed call are written in a rotating spelling (harness/c09_spell.py): bounds
            as list of tuples / tuple of tuples / list of lists / 2-d array / python ints where whole; npts by keyword /
            positionally / numpy integer / (lattice) as the layout (n, 1); id omitted / None / 0; sample() and
            sample_until() positionally / by keyword; all / numpy.all / the count, any / numpy.any / 1, False / 0; limits
            as int / float / numpy; the Searcher's three value tables (whole numbers, fractions below 1/2, negatives),
            its tolerance given to the constructor or to Minima(tol) incl. tol = 0 and negative tol (CoarseMinima of
            Searcher.tla), traj as bool / int, Reset() / Reset(None) / Reset(cache=None, inv=None).
code->spec  real samplers / searchers with Nelder-Mead / Powell members on the harness's costs; one event per round /
            per ensemble solve, recorded through instance-level observers; TLC validates every trace against the
            Trace_ specs.
"""
import sys, os, json, random, io, contextlib, shutil, time, warnings, threading
import numpy as np
from harness.tlc import run_tlc, scratch_dir, TLCError
from harness import ensemble_support as S
from harness import c09_spell as SP       # one abstract input, several concrete spellings (rotation)

INF = 1000000
BEST = 100


def quiet():
    return contextlib.redirect_stdout(io.StringIO())


# =========================================================================================
# things handed to mystic (module level: copied by reference, see ensemble_support)
# =========================================================================================
PROG = {}          # sampler: member index (1-based work item) -> [(k, e), ...]
DICT = [0.0]       # the value the dictated cost returns next
SOLVE = [0]        # searcher: number of the ensemble solve in progress (set by the harness map)
SPROG = {}         # searcher: (solve number, member index) -> [point id, ...]
POINTS = {}        # searcher: point id -> (x tuple, value)


def cost_dictated(x):
    """the value is dictated by the scripted member that calls; the point is whatever mystic passes"""
    return S._log(x, float(DICT[0]))


def cost_lookup(x):
    """searcher scripts: the model is a table over the script's points (x[1] is the value by construction)"""
    return S._log(x, float(x[1]))


def _seq_class():
    from mystic.abstract_solver import AbstractSolver

    class SeqSolver(AbstractSolver):
        """a member solver that follows a TLC program.
        sampler programs  PROG[member] = [(k, e), ...]: step g calls the cost k times at the member's own
                          starting point (population[0], as set by the ensemble) and reports energy e;
        searcher programs SPROG[(solve, member)] = [point id, ...]: step g evaluates that point once.
        The member is identified by the work item it is executed in (the harness map), not by solver.id."""
        def __init__(self, dim, **kwds):
            super(SeqSolver, self).__init__(dim, **kwds)
            self._g = 0
            self._key = None

        def _program(self):
            if self._key is None:
                return None
            return SPROG.get(self._key) if isinstance(self._key, tuple) else PROG.get(self._key)

        def _Step(self, cost=None, ExtraArgs=None, **kwds):
            settings = self._process_inputs(kwds)
            callback = settings.get('callback')
            cost = self._bootstrap_objective(cost, ExtraArgs)
            if self._g == 0:
                self._key = (SOLVE[0], S.member()) if SPROG else S.member()
                self._x0 = [float(v) for v in self.population[0]]
            prog = self._program()
            if prog is None or self._g >= len(prog):
                raise RuntimeError("no program step %d for member %r" % (self._g + 1, self._key))
            st = prog[self._g]
            self._g += 1
            if isinstance(self._key, tuple):
                x = list(POINTS[st][0])
                fx = cost(x)
            else:
                k, e = st
                x = list(self._x0)
                DICT[0] = float(e)
                for _ in range(k):
                    fx = cost(x)
            if self._bestEnergy is None or fx < self._bestEnergy:
                self.bestEnergy = fx
                self.bestSolution = list(x)
                self.population[0] = list(x)
                self.popEnergy[0] = fx
            self._stepmon(self.bestSolution[:], self.bestEnergy, self.id)
            if callback is not None:
                callback(self.bestSolution)
            return
    return SeqSolver


_SEQ = [None]


def SeqSolver():
    if _SEQ[0] is None:
        cls = _seq_class()
        cls.__module__ = __name__
        cls.__qualname__ = "SeqSolverClass"
        globals()["SeqSolverClass"] = cls
        _SEQ[0] = cls
    return _SEQ[0]


def seq_term():
    """a scripted member stops when its program is exhausted"""
    doc = "ProgramEnd with %s" % {}

    def _ProgramEnd(inst, info=False):
        prog = inst._program() if hasattr(inst, "_program") else None
        hit = prog is not None and getattr(inst, "_g", 0) >= len(prog)
        if info:
            return doc if hit else ""
        return hit
    _ProgramEnd.__doc__ = doc
    return _ProgramEnd


def _holds(fn):
    try:
        return bool(fn())
    except Exception:
        return False


def seed_all(sd):
    random.seed(sd)
    np.random.seed(sd % (2 ** 32))


# =========================================================================================
# TLC jobs
# =========================================================================================
def tlc_jobs(a, light=False):
    """(part, kind, module, cfg, workers, expect)"""
    thorough = a.tier == "thorough"
    w = min(getattr(a, "jobs", 4), 4)
    jobs = [("sampler", "emit", "solver/MC_Sampler", "MC_Sampler_emit2a.cfg", 1, None),
            ("sampler", "emit", "solver/MC_Sampler", "MC_Sampler_emit2b.cfg", 1, None),
            ("sampler", "emit", "solver/MC_Sampler", "MC_Sampler_emit3q.cfg", 1, None),
            ("sampler", "emit", "solver/MC_Sampler", "MC_Sampler_emit2c.cfg", 1, None),
            ("searcher", "emit", "solver/MC_Searcher", "MC_Searcher_emit2.cfg", 1, None)]
    if not light:
        jobs += [("sampler", "design", "solver/MC_Sampler", "MC_Sampler_asis_reset_delta.cfg", 1, "EvalsAreRealCalls|ItersAreRounds"),
                 ("sampler", "design", "solver/MC_Sampler", "MC_Sampler_asis_until_dowhile.cfg", 1, "UntilMinimal"),
                 ("sampler", "design", "solver/MC_Sampler", "MC_Sampler_asis_until_early.cfg", 1, "UntilReached"),
                 ("searcher", "design", "solver/MC_Searcher", "MC_Searcher_asis_drop_last.cfg", 1, "ArchiveIsEvaluated"),
                 ("searcher", "design", "solver/MC_Searcher", "MC_Searcher_asis_minima_one.cfg", 1, "MinimaAreAllMinima")]
    if thorough:
        jobs += [("sampler", "emit", "solver/MC_Sampler", "MC_Sampler_emit3a.cfg", 1, None),
                 ("sampler", "emit", "solver/MC_Sampler", "MC_Sampler_emit3b.cfg", 1, None),
                 ("sampler", "emit", "solver/MC_Sampler", "MC_Sampler_emit2s3.cfg", 1, None),
                 ("sampler", "emit", "solver/MC_Sampler", "MC_Sampler_emit3s3.cfg", 1, None),
                 ("searcher", "emit", "solver/MC_Searcher", "MC_Searcher_emit3.cfg", 1, None),
                 ("sampler", "design", "solver/MC_Sampler", "MC_Sampler_quick.cfg", 2, None),
                 ("sampler", "design", "solver/MC_Sampler", "MC_Sampler_thorough.cfg", w, None),
                 ("sampler", "design", "solver/MC_Sampler", "MC_Sampler_thorough3.cfg", w, None),
                 ("sampler", "design", "solver/MC_Sampler", "MC_Sampler_asis_sample_restarts.cfg", 1, "NeverMeansNever"),
                 ("sampler", "design", "solver/MC_Sampler", "MC_Sampler_asis_reset_keeps.cfg", 1, "ResetRestores"),
                 ("searcher", "design", "solver/MC_Searcher", "MC_Searcher_thorough.cfg", w, None),
                 ("searcher", "design", "solver/MC_Searcher", "MC_Searcher_asis_stop_first_miss.cfg", 1, "RetryHonoured"),
                 ("searcher", "design", "solver/MC_Searcher", "MC_Searcher_asis_reset_keeps_cache.cfg", 1, "ResetClears")]
        for v in ("NeverIdleCharge", "NeverResetAfterProgress", "NeverZeroRoundUntil", "NeverManyRoundUntil",
                  "NeverAsIsDeviates", "NeverResetSolved", "NeverTieForBest", "NeverInvalid"):
            jobs.append(("sampler", "design", "solver/MC_Sampler", "MC_Sampler_vac_%s.cfg" % v, 1, v))
        for v in ("NeverTiedMinima", "NeverGrowingPass", "NeverKeyCollision", "NeverSecondRun", "NeverRetryReset", "NeverCoarseDiffers"):
            jobs.append(("searcher", "design", "solver/MC_Searcher", "MC_Searcher_vac_%s.cfg" % v, 1, v))
    return jobs


_CACHE = {}


def run_jobs(a, light=False):
    """run the TLC jobs concurrently (2-3 processes); cached per (tier, light) within the process"""
    key = (a.tier, bool(light))
    if key in _CACHE:
        return _CACHE[key]
    from concurrent.futures import ThreadPoolExecutor
    jobs = tlc_jobs(a, light)

    def one(j):
        part, kind, module, cfg, workers, expect = j
        return part, kind, cfg[:-4], run_tlc(module, cfg=cfg, workers=workers, timeout=3000, heap="4g"), expect
    out = {}
    with ThreadPoolExecutor(2 if a.tier == "thorough" else 3) as ex:
        for part, kind, name, r, expect in ex.map(one, jobs):
            out.setdefault((part, kind), []).append((name, r, expect))
    _CACHE[key] = out
    return out


def design(ck, part, results):
    for name, r, expect in results:
        ck.mc(r, name)
        if expect is None:
            if r.violated:
                ck.violation("%s:spec:%s" % (part, r.violated), {"cfg": name, "tlc": r.out[-3000:]},
                             "design invariant %s violated (%s)" % (r.violated, name))
        else:
            ck.extra.setdefault("designs_tlc_must_refute", {})[name] = r.violated
            if not r.violated or r.violated not in expect.split("|"):
                ck.violation("%s:spec:vacuous:%s" % (part, name), {"cfg": name, "violated": r.violated},
                             "%s: TLC was expected to refute %s but reported %s" % (name, expect, r.violated))


# =========================================================================================
# SAMPLER  spec -> code: TLC scripts executed on real samplers with scripted members
# =========================================================================================
BOUNDS = [(0.0, 3.0), (-1.5, 1.5)]
COND = {"none": None, "all": all, "best": True, "any": any, "zero": False}
RESET = {"all": True, "solved": False, "never": None}


def sampler_class(kind):
    import mystic.samplers as ms
    return {"lattice": ms.LatticeSampler, "buckshot": ms.BuckshotSampler, "sparsity": ms.SparsitySampler,
            "mixed": ms.MixedSampler}[kind]


class RoundBudget(RuntimeError):
    """a public call took more rounds than any specified behaviour needs (a loop that does not end)"""


def observe_rounds(smp, budget=60):
    """instance-level observer: counts the rounds (_sample calls) without changing them; a call that takes more than
    `budget` rounds is aborted (the scripts need <= 20, the recorded runs <= 4*npts+60: only a broken loop gets there)"""
    box = {"rounds": 0, "hooks": [], "budget": budget}
    orig = smp._sample

    def _sample(*args, **kwds):
        if box["rounds"] >= box["budget"]:
            raise RoundBudget("more than %d rounds in one public call" % box["budget"])
        for h in box["hooks"]:
            h("pre", args, kwds)
        r = orig(*args, **kwds)
        box["rounds"] += 1
        for h in box["hooks"]:
            h("post", args, kwds)
        return r
    smp._sample = _sample
    return box


def _limit(v, variant):
    """an iteration / evaluation limit: int, float (the documented default is inf, a float), numpy integer"""
    how = (variant // 2) % 4
    SP.TALLY.hit("sampler-limit", ["int", "float", "np.int64", "np.float64"][how])
    return [int(v), float(v), np.int64(v), np.float64(v)][how]


def do_call(smp, c, n, variant=0):
    """one public call of the script; returns 'ValueError' if it raised that.  `variant` rotates the spelling of every
    argument: positional / keyword, None given / omitted, all / numpy.all / the count it stands for, int / float / numpy"""
    if c["op"] == "reset":
        smp._reset_sampler()
        return None
    cond = COND[c["cond"]]
    if c["op"] == "sample":
        v3 = variant % 3
        if c["reset"] == "default":
            if cond is None and variant % 2 == 0:
                smp.sample()
            elif v3 == 1:
                smp.sample(if_terminated=cond)
            else:
                smp.sample(cond)
        elif v3 == 1:
            smp.sample(if_terminated=cond, reset_all=RESET[c["reset"]])
        elif v3 == 2:
            smp.sample(cond, reset_all=RESET[c["reset"]])
        else:
            smp.sample(cond, RESET[c["reset"]])
        SP.TALLY.hit("sampler-sample", ["positional", "keywords", "mixed"][v3])
        return None
    kw = {}
    pos = []
    if c["li"] != -1:
        kw["iters"] = _limit(c["li"], variant)
    if c["le"] != -1:
        kw["evals"] = _limit(c["le"], variant + 2)
    lt = c["lt"]
    v4 = variant % 4
    if lt == BEST:
        kw["terminated"] = True
    elif lt == n and v4 != 3:
        kw["terminated"] = [all, np.all, np.int64(n)][v4]            # 'all' in three spellings (v4 = 3: the plain count)
    elif lt == 1 and v4 != 0:
        kw["terminated"] = [None, any, np.any, np.int32(1)][v4]
    elif lt == 0 and variant % 2 == 0:
        kw["terminated"] = False
    elif lt != -1:
        kw["terminated"] = lt
    if "terminated" in kw:
        t = kw["terminated"]
        SP.TALLY.hit("sampler-terminated", "numpy.%s" % t.__name__ if (t is np.all or t is np.any) else
                     t.__name__ if callable(t) else type(t).__name__)
    if variant % 5 == 3:                                              # (iters, evals, terminated) positionally
        pos = [kw.pop("iters", None), kw.pop("evals", None), kw.pop("terminated", None)]
        SP.TALLY.hit("sampler-until", "positional")
    if cond is not None or variant % 3 == 0:
        kw["if_terminated"] = cond
    if c["reset"] != "default":
        kw["reset_all"] = RESET[c["reset"]]
    try:
        smp.sample_until(*pos, **kw)
    except ValueError:
        return "ValueError"
    return None


def spell_sampler_ctor(kind, bounds, model, n, variant, **kwds):
    """construct a sampler: bounds as list of tuples / tuple of tuples / list of lists / 2-d array / pairs with python ints
    where a bound is a whole number; npts by keyword / positionally / as numpy integer / (lattice) as the layout (n, 1, ..);
    the documented keyword `id` omitted / None / 0 (the falsy id; other ids are an observation left unbound)"""
    b = [(float(l), float(h)) for l, h in bounds]
    hb = (variant // 3) % 5
    if hb == 1:
        bo, tag = tuple(b), "tuple-of-tuples"
    elif hb == 2:
        bo, tag = [list(p) for p in b], "list-of-lists"
    elif hb == 3:
        bo, tag = np.array(b, dtype=float), "2d-array"
    elif hb == 4:
        bo, tag = [tuple(int(v) if v.is_integer() else v for v in p) for p in b], "python-ints-where-whole"
    else:
        bo, tag = list(b), "list-of-tuples"
    SP.TALLY.hit("sampler-bounds", tag)
    hi = variant % 3
    if hi:
        kwds["id"] = [None, None, 0][hi]
    SP.TALLY.hit("sampler-id", ["omitted", "None", "0"][hi])
    hn = (variant // 2) % 5
    cls = sampler_class(kind)
    if kind == "lattice" and hn in (3, 4):
        layout = tuple([n] + [1] * (len(b) - 1)) if variant % 4 < 2 else [1] * (len(b) - 1) + [n]
        SP.TALLY.hit("sampler-npts", "lattice-layout-%s" % type(layout).__name__)
        return cls(bo, model, npts=layout, **kwds)
    if hn == 1:
        SP.TALLY.hit("sampler-npts", "positional")
        return cls(bo, model, n, **kwds)
    if hn == 2 and kind != "mixed":
        SP.TALLY.hit("sampler-npts", "np.int64")
        return cls(bo, model, npts=np.int64(n), **kwds)
    if hn == 3 and kind != "mixed":
        SP.TALLY.hit("sampler-npts", "positional-np.int32")
        return cls(bo, model, np.int32(n), **kwds)
    SP.TALLY.hit("sampler-npts", "keyword")
    return cls(bo, model, npts=n, **kwds)


def snap_sampler(smp, box, bounds):
    es = smp._sampler
    try:
        bi = es._allSolvers.index(es._bestSolver) + 1 if es._bestSolver is not None else 0
    except ValueError:
        bi = -1
    oob = sum(1 for (_, x, _) in S.LOG if any(v < lo or v > hi for v, (lo, hi) in zip(x, bounds)))
    with quiet():
        fin = [bool(v) for v in smp.terminated(all=True)]
    return {"sev": [int(v) for v in smp.evals(all=True)], "sit": [int(v) for v in smp.iters(all=True)],
            "tev": int(smp.evals()), "tit": int(smp.iters()), "real": len(S.LOG),
            "alive": [m is not None for m in es._allSolvers], "fin": fin, "mev": [int(v) for v in es._all_evals],
            "best": bi, "rounds": box["rounds"], "oob": oob, "n": len(es._allSolvers)}


def replay_sampler(b, kind, variant, seed, spelled=True):
    """run one TLC script on a real sampler; returns the per-call snapshots"""
    S.reset()
    PROG.clear()
    SPROG.clear()
    n = b["n"]
    for i, t in enumerate(b["traj"]):
        PROG[i + 1] = [tuple(st) for st in t]
    seed_all(seed)
    snaps = []
    with quiet(), warnings.catch_warnings():
        warnings.simplefilter("ignore")
        if spelled:
            smp = spell_sampler_ctor(kind, BOUNDS, cost_dictated, n, variant, solver=SeqSolver(), termination=seq_term(),
                                     map=S.serial_map)
        else:
            smp = sampler_class(kind)(BOUNDS, cost_dictated, npts=n, solver=SeqSolver(), termination=seq_term(),
                                      map=S.serial_map)
        box = observe_rounds(smp)
        for c in b["script"]:
            box["rounds"] = 0
            raised = do_call(smp, c, n, variant)
            sn = snap_sampler(smp, box, BOUNDS)
            sn["raised"] = raised is not None
            snaps.append(sn)
    return snaps


def compare_sampler(b, snaps):
    """first call whose projected state differs from the specification: (call#, ctx, [(field, spec, mystic)])"""
    for c, (got, exp) in enumerate(zip(snaps, b["obs"])):
        bad = []
        if got["n"] != b["n"]:
            bad.append(("member-count", b["n"], got["n"]))
        if got["raised"] != exp["raised"]:
            bad.append(("argument-check", exp["raised"], got["raised"]))
        if got["rounds"] != exp["rounds"]:
            bad.append(("rounds", exp["rounds"], got["rounds"]))
        if got["sev"] != exp["sev"] or got["tev"] != sum(exp["sev"]):
            bad.append(("evals", exp["sev"], got["sev"]))
        if got["sit"] != exp["sit"] or got["tit"] != sum(exp["sit"]):
            bad.append(("iters", exp["sit"], got["sit"]))
        if got["real"] != exp["real"]:
            bad.append(("real-calls", exp["real"], got["real"]))
        if got["alive"] != exp["alive"]:
            bad.append(("members-exist", exp["alive"], got["alive"]))
        if got["fin"] != exp["fin"]:
            bad.append(("terminated", exp["fin"], got["fin"]))
        if got["mev"] != exp["mev"]:
            bad.append(("member-evals", exp["mev"], got["mev"]))
        if got["best"] != exp["best"]:
            bad.append(("best-member", exp["best"], got["best"]))
        if got["oob"] != 0:
            bad.append(("outside-bounds", 0, got["oob"]))
        if bad:
            return c, exp["ctx"], bad
    return None


def sampler_script_nontrivial(b):
    """a reset after progress, an idle (nominal) charge, a multi-round sample_until or members finishing in different rounds"""
    multi = any(o["rounds"] > 1 for o in b["obs"])
    dev = any(o["ctx"] != "plain" for o in b["obs"])
    last = b["obs"][-1]
    idle = sum(last["sev"]) != last["real"]
    return multi or dev or idle or len(set(len(t) for t in b["traj"])) > 1


def sampler_replay(ck, emitted, a, strides=None, corrupt=False):
    kinds = ["lattice", "buckshot", "lattice", "buckshot", "sparsity"]
    nb = ne = 0
    stats = {}
    strides = strides or {}
    for name, r, _ in emitted:
        ck.mc(r, name)
        if r.violated:
            ck.violation("sampler:spec:" + r.violated, {"cfg": name, "tlc": r.out[-3000:]},
                         "design invariant %s violated in Sampler.tla (%s)" % (r.violated, name))
            continue
        for b in r.printed:
            if not isinstance(b, dict) or "script" not in b:
                continue
            nb += 1
            if (nb + a.seed) % strides.get(name, 1):
                continue
            ne += 1
            if corrupt and ne == 5:
                b = json.loads(json.dumps(b))
                b["obs"][-1]["sev"][0] += 1
            kind = kinds[nb % 5] if nb % 40 else "mixed"
            if kind == "sparsity" and nb % 25 != 4:
                kind = "buckshot"
            nt = sampler_script_nontrivial(b)
            key = ("s", name, nb)
            ck.case(nontrivial=nt, key=key)
            def canon_ok():          # the same script with every argument in its canonical spelling
                return compare_sampler(b, replay_sampler(b, kind, 2 * nb, a.seed * 1000 + nb, spelled=False)) is None
            try:
                snaps = replay_sampler(b, kind, ne, a.seed * 1000 + nb)
            except Exception as ex:
                ctx = next((o["ctx"] for o in b["obs"] if o["ctx"] != "plain"), "plain")
                sfx = "[spelling]" if _holds(canon_ok) else ""
                ck.violation("sampler:%s:raised:%s%s" % (ctx if ctx != "plain" else "replay", type(ex).__name__, sfx),
                             {"behaviour": b, "kind": kind, "spelling-variant": ne, "error": repr(ex)},
                             "executing a TLC script on a real %s sampler (spelling variant %d) raised %r" % (kind, ne, ex))
                continue
            ck.trace()
            stats[kind] = stats.get(kind, 0) + 1
            diff = compare_sampler(b, snaps)
            if diff is not None:
                c, ctx, bad = diff
                fields = "+".join(sorted(set(x[0] for x in bad)))
                sfx = "[spelling]" if not (corrupt and ne == 5) and _holds(canon_ok) else ""
                ck.violation("sampler:%s:%s%s" % (ctx if ctx != "plain" else "replay", fields, sfx),
                             {"behaviour": b, "sampler": kind, "call#": c, "call": b["script"][c],
                              "differences(field,spec,mystic)": bad, "mystic_after_each_call": snaps[:c + 1]},
                             "%s sampler, programs %s, script %s: after call #%d the specification and mystic differ: %s" % (
                                 kind, b["traj"], [(x["op"], x["cond"], x["reset"], x["li"], x["le"], x["lt"]) for x in b["script"]],
                                 c + 1, bad[:3]))
            elif ne in (3, 400):
                ck.sample({"sampler_script": b, "executed_on": kind, "mystic_after_last_call": snaps[-1]})
    ck.extra["sampler_scripts_executed"] = ck.extra.get("sampler_scripts_executed", 0) + ne
    ck.extra["sampler_scripts_by_kind"] = stats


# =========================================================================================
# SAMPLER  code -> spec: real members, recorded rounds, validated by TLC against Trace_Sampler
# =========================================================================================
BOXES = [(-1.5, 1.5), (0.0, 3.0), (-3.0, 0.0), (10.0, 13.0)]


def _members(es):
    out = []
    with quiet():
        for m in es._allSolvers:
            if m is None:
                out.append({"alive": False, "ev": 0, "fin": False, "e": None})
            else:
                e = m.bestEnergy
                out.append({"alive": True, "ev": int(m.evaluations), "fin": bool(m.Terminated()),
                            "e": None if e is None else float(e)})
    return out


class SamplerRun(object):
    """records the public calls made on one real sampler (see Trace_Sampler.tla for the events)"""
    def __init__(self, cfg):
        self.cfg = cfg
        self.events = []
        self.bounds = cfg["bounds"]

    def attach(self, smp):
        self.smp = smp
        self.box = box = observe_rounds(smp, budget=400)
        box["hooks"].append(self.hook)
        self._pre = None

    def hook(self, when, args, kwds):
        es = self.smp._sampler
        if when == "pre":
            self._pre = _members(es)
            self._n0 = len(S.LOG)
            return
        n = len(es._allSolvers)
        calls, oob = [0] * n, [0] * n
        stray = 0
        for (mi, x, _) in S.LOG[self._n0:]:
            if 1 <= mi <= n:
                calls[mi - 1] += 1
                if any(v < lo or v > hi for v, (lo, hi) in zip(x, self.bounds)):
                    oob[mi - 1] += 1
            else:
                stray += 1
        self.events.append({"ev": "Round", "pre": self._pre, "post": _members(es), "calls": calls, "oob": oob,
                            "stray": stray, "sev": [int(v) for v in self.smp.evals(all=True)],
                            "sit": [int(v) for v in self.smp.iters(all=True)]})

    def call(self, c, variant):
        smp, es = self.smp, self.smp._sampler
        self.events.append(dict(c, ev="Call"))
        self.box["rounds"] = 0
        raised = do_call(smp, c, len(es._allSolvers), variant)
        try:
            bi = es._allSolvers.index(es._bestSolver) + 1 if es._bestSolver is not None else 0
        except ValueError:
            bi = -1
        e = es.bestEnergy
        self.events.append({"ev": "Ret", "raised": raised is not None, "sev": [int(v) for v in smp.evals(all=True)],
                            "sit": [int(v) for v in smp.iters(all=True)], "tev": int(smp.evals()), "tit": int(smp.iters()),
                            "real": len(S.LOG), "mem": _members(es), "ensE": None if e is None else float(e),
                            "ensEv": int(es.evaluations), "ensBest": bi})

    def trace(self):
        vals = set()
        for ev in self.events:
            for fld in ("pre", "post", "mem"):
                for m in ev.get(fld, ()):
                    if m["e"] is not None:
                        vals.add(m["e"])
            if ev.get("ensE") is not None:
                vals.add(ev["ensE"])
        fin = sorted(v for v in vals if v == v and v != float("inf"))
        rk = {v: i for i, v in enumerate(fin)}

        def E(v):
            return INF if (v is None or v == float("inf")) else 2000000 if v != v else rk[v]

        def M(ms):
            return [{"alive": m["alive"], "ev": m["ev"], "fin": m["fin"], "e": E(m["e"])} for m in ms]
        out = [{"ev": "New", "n": self.cfg["n"], "kind": self.cfg["kind"]}]
        for ev in self.events:
            ev = dict(ev)
            for fld in ("pre", "post", "mem"):
                if fld in ev:
                    ev[fld] = M(ev[fld])
            if ev["ev"] == "Ret":
                ev["ensE"] = E(ev["ensE"])
            out.append(ev)
        return out


def gen_sampler_configs(a, count, rng):
    thorough = a.tier == "thorough"
    cfgs = []
    conds = ["none", "all", "best", "any", "zero"]
    for k in range(count):
        kind = ["lattice", "buckshot", "lattice", "buckshot", "sparsity", "mixed"][k % 6]
        if kind in ("sparsity", "mixed") and not thorough and k % 12 not in (4, 5):
            kind = "buckshot"
        dim = rng.choice([1, 2, 2])
        n = rng.choice([1, 2, 2, 3, 3, 4])
        if kind == "sparsity":
            n = min(n, 3)
        nested = rng.choice(["NM", "NM", "PW"])
        bounds = [rng.choice(BOXES) for _ in range(dim)]
        termG = rng.choice([2, 3, 4, None])
        maxiter = rng.choice([None, 2, 3]) if termG is not None else rng.choice([1, 2, 3])
        maxfun = rng.choice([None, None, 9, 30])
        script = []
        solved_ok = rng.random() < 0.12
        for _ in range(rng.choice([2, 3, 3, 4, 5])):
            u = rng.random()
            if u < 0.08:
                script.append({"op": "reset", "cond": "none", "reset": "never", "li": -1, "le": -1, "lt": -1})
                continue
            cond = rng.choice(conds)
            reset = rng.choice(["all", "never", "never", "default"] + (["solved"] * 3 if solved_ok else []))
            if u < 0.5:
                script.append({"op": "sample", "cond": cond, "reset": reset, "li": -1, "le": -1, "lt": -1})
                continue
            li = rng.choice([-1, -1, n, 2 * n + 1, 4 * n])
            le = rng.choice([-1, -1, 3, 8, 20, 60])
            lt = rng.choice([-1, -1, 0, 1, n, BEST, max(1, n - 1)])
            if li == -1 and le == -1 and lt == -1 and rng.random() < 0.7:
                le = 10
            script.append({"op": "until", "cond": cond, "reset": reset, "li": li, "le": le, "lt": lt})
        cfgs.append({"kind": kind, "dim": dim, "n": n, "nested": nested, "bounds": bounds, "termG": termG,
                     "maxiter": maxiter, "maxfun": maxfun, "cost": rng.choice(["bowl", "plateau", "plateau", "far", "steps"]),
                     "map": rng.choice(["serial", "serial", "reversed", "shuffled"]), "script": script,
                     "seed": rng.randrange(10 ** 6), "variant": k})
    return cfgs


def run_sampler_config(cfg):
    import mystic.solvers as ms
    import mystic.termination as mt
    S.reset()
    PROG.clear()
    SPROG.clear()
    seed_all(cfg["seed"])
    nested = {"NM": ms.NelderMeadSimplexSolver, "PW": ms.PowellDirectionalSolver}[cfg["nested"]]
    mapper = {"serial": S.serial_map, "reversed": S.reversed_map}.get(cfg["map"]) or S.ShuffledMap(cfg["seed"])
    term = S.gen_term(cfg["termG"]) if cfg["termG"] is not None else mt.VTR(1e-12)
    run = SamplerRun(cfg)
    with quiet(), warnings.catch_warnings():
        warnings.simplefilter("ignore")
        kw = {}
        if cfg["maxiter"] is not None:
            kw["maxiter"] = cfg["maxiter"]
        if cfg["maxfun"] is not None:
            kw["maxfun"] = cfg["maxfun"]
        smp = spell_sampler_ctor(cfg["kind"], cfg["bounds"], S.COSTS[cfg["cost"]], cfg["n"], cfg["variant"],
                                 solver=nested, termination=term, map=mapper, **kw)
        run.attach(smp)
        for c in cfg["script"]:
            run.call(c, cfg["variant"])
    return run


TRACE_CFG_SAMPLER = """SPECIFICATION TraceSpec
CONSTANTS
  N = 1
  Trajs = {}
  Calls = {}
  MaxCalls = 0
  Design = "documented"
CONSTRAINT Accept
INVARIANT EvalsAreRealCalls
INVARIANT ItersAreRounds
INVARIANT RealIsSumOfMembers
INVARIANT ResetRestores
INVARIANT UntilReached
INVARIANT UntilMinimal
INVARIANT InvalidDoesNothing
POSTCONDITION AllAccepted
CHECK_DEADLOCK FALSE
"""


class Validator(object):
    """batched trace validation with bisection and per-trace diagnosis (the Trace_Ensemble scheme)"""
    def __init__(self, module, cfg_text):
        self.module, self.cfg_text = module, cfg_text

    def batch(self, traces, diag=False):
        d = scratch_dir()
        try:
            path = os.path.join(d, "traces.json")
            with open(path, "w") as f:
                json.dump(traces, f)
            cfgp = os.path.join(d, os.path.basename(self.module) + ".cfg")
            with open(cfgp, "w") as f:
                f.write(self.cfg_text)
            env = {"TRACE_FILE": path}
            if diag:
                env["DIAG"] = "1"
            return run_tlc(self.module, cfg=cfgp, env=env, workers=1, timeout=1800, heap="4g")
        finally:
            shutil.rmtree(d, ignore_errors=True)

    def diagnose(self, trace):
        import re
        r = self.batch([trace], diag=True)
        if r.violated and r.kind in ("invariant", "action-property"):
            at = len(re.findall(r"^State \d+:", r.out, re.M))
            return {"failing": ["invariant:" + r.violated], "at": at, "event": trace[at] if at < len(trace) else None}
        summ = [p for p in r.printed if isinstance(p, dict) and "accepted" in p]
        if summ and not summ[-1]["rejected"]:
            return None
        pre = max(summ[-1]["prefix"][0] if summ and summ[-1]["prefix"] else 0, 2)
        probes = [p for p in r.printed if isinstance(p, dict) and "probe" in p and p["at"] == pre]
        failing = sorted(set(x for p in probes for x in p["failing"]))
        at = pre - 1
        ev = trace[at] if at < len(trace) else None
        if not failing:
            failing = ["event-not-enabled:%s" % (ev or {}).get("ev", "end-of-trace")]
        return {"failing": failing, "at": at, "event": ev}

    def bisect(self, traces, idxs):
        if not idxs:
            return []
        r = self.batch([traces[i] for i in idxs])
        summ = [p for p in r.printed if isinstance(p, dict) and "accepted" in p]
        if not r.violated:
            return [idxs[j - 1] for j in summ[-1]["rejected"]] if summ else idxs
        if len(idxs) == 1:
            return idxs
        m = len(idxs) // 2
        return self.bisect(traces, idxs[:m]) + self.bisect(traces, idxs[m:])

    def diagnose_many(self, traces):
        """one diagnosis run over all the given (rejected) traces; falls back to single runs if an invariant stops TLC"""
        r = self.batch(traces, diag=True)
        if r.violated and r.kind in ("invariant", "action-property"):
            return [self.diagnose(t) for t in traces[:6]] + \
                   [{"failing": ["rejected-not-diagnosed"], "at": None, "event": None}] * max(0, len(traces) - 6)
        summ = [p for p in r.printed if isinstance(p, dict) and "accepted" in p]
        if not summ:
            raise TLCError("no summary from the diagnosis run:\n" + r.out[-3000:])
        out = []
        for k, t in enumerate(traces):
            if (k + 1) not in summ[-1]["rejected"]:
                out.append({"failing": ["rejected-in-batch-only"], "at": None, "event": None})
                continue
            pre = max(summ[-1]["prefix"][k], 2)
            probes = [p for p in r.printed if isinstance(p, dict) and p.get("probe") == k + 1 and p["at"] == pre]
            failing = sorted(set(x for p in probes for x in p["failing"]))
            at = pre - 1
            ev = t[at] if at < len(t) else None
            if not failing:
                failing = ["event-not-enabled:%s" % (ev or {}).get("ev", "end-of-trace")]
            out.append({"failing": failing, "at": at, "event": ev})
        return out

    def validate(self, traces, ck, name):
        verdicts = [None] * len(traces)
        if not traces:
            return verdicts
        r = self.batch(traces)
        ck.mc(r, name)
        if r.violated and r.kind in ("invariant", "action-property"):
            rejected = self.bisect(traces, list(range(len(traces))))
        else:
            summ = [p for p in r.printed if isinstance(p, dict) and "accepted" in p]
            if not summ:
                raise TLCError("no acceptance summary from trace validation (%s):\n%s" % (name, r.out[-3000:]))
            rejected = [i - 1 for i in summ[-1]["rejected"]]
        if rejected:
            for i, v in zip(rejected, self.diagnose_many([traces[i] for i in rejected])):
                verdicts[i] = v
        return verdicts


def clause_key(failing):
    return "+".join(f.split(":", 1)[1] if f.startswith(("C09s:", "C09q:")) else f for f in failing)


def short(c):
    return (c["op"], c["cond"], c["reset"], c["li"], c["le"], c["lt"])


def trace_ctx(cfg, tr, at):
    """names the circumstance of a rejected sampler trace (only used in the violation key)"""
    calls = [e for e in tr[:(at or len(tr)) + 1] if e["ev"] == "Call"]
    if any(c["reset"] == "solved" for c in calls):
        return "reset-solved"
    rounds = [e for e in tr[:(at or len(tr)) + 1] if e["ev"] == "Round"]
    for e in rounds:
        if any(p["alive"] and q["ev"] < p["ev"] + c for p, q, c in zip(e["pre"], e["post"], e["calls"])):
            return "accounting-after-reset"
    return "trace"


def sampler_real_runs(ck, a, count, corrupt=False):
    rng = random.Random(a.seed * 104729 + 17)
    cfgs = gen_sampler_configs(a, count, rng)
    runs, traces = [], []
    t0 = time.time()
    for cfg in cfgs:
        try:
            run = run_sampler_config(cfg)
        except Exception as ex:
            import traceback
            ck.case(nontrivial=False, key=("sr", json.dumps(cfg, sort_keys=True)))
            solved = any(c["reset"] == "solved" for c in cfg["script"])
            ck.violation("sampler:%s:raised:%s" % ("reset-solved" if solved else "run:" + cfg["kind"], type(ex).__name__),
                         {"config": cfg, "error": repr(ex), "traceback": traceback.format_exc()[-1500:]},
                         "%s sampler run raised %r (script %s)" % (cfg["kind"], ex, [short(c) for c in cfg["script"]]))
            continue
        runs.append(run)
        traces.append(run.trace())
    ck.extra["sampler_record_wall_s"] = round(time.time() - t0, 1)
    if corrupt and traces:
        t = traces[0] = json.loads(json.dumps(traces[0]))
        t[-1]["tev"] += 1
    V = Validator("solver/Trace_Sampler", TRACE_CFG_SAMPLER)
    verdicts = V.validate(traces, ck, "Trace_Sampler")
    stats = {}
    for run, tr, v in zip(runs, traces, verdicts):
        cfg = run.cfg
        k = "%s/%s" % (cfg["kind"], cfg["nested"])
        stats[k] = stats.get(k, 0) + 1
        rounds = [e for e in tr if e["ev"] == "Round"]
        nt = any(any(c == 0 for c in e["calls"]) for e in rounds) or \
            any(any(p["alive"] and q["ev"] < p["ev"] + c for p, q, c in zip(e["pre"], e["post"], e["calls"])) for e in rounds) or \
            len(rounds) > len([e for e in tr if e["ev"] == "Call"])
        ck.case(nontrivial=nt, key=("sr", json.dumps(cfg, sort_keys=True)))
        if v is None:
            ck.trace()
            continue
        ctx = trace_ctx(cfg, tr, v["at"])
        ck.violation("sampler:%s:%s" % (ctx, clause_key(v["failing"])),
                     {"config": cfg, "failing_clauses": v["failing"], "at_event": v["at"], "event": v["event"], "trace": tr},
                     "%s sampler (%d members, nested %s), script %s: event #%s %s not explainable by Sampler.tla; false clauses: %s" % (
                         cfg["kind"], cfg["n"], cfg["nested"], [short(c) for c in cfg["script"]], v["at"],
                         (v["event"] or {}).get("ev"), ", ".join(v["failing"])))
    ck.extra["sampler_real_runs_by_kind"] = stats
    if traces:
        ck.sample({"sampler_real_run": runs[0].cfg, "trace_head": traces[0][:3]})


# =========================================================================================
# SEARCHER  spec -> code: TLC scripts executed on a real Searcher with scripted seekers
# =========================================================================================
# the points of MC_Searcher.tla: id -> (x, value); x = (location, value), the model returns x[1]
SPOINTS = {1: ((0.5, 1.0), 1.0), 2: ((1.0, 0.0), 0.0), 3: ((1.04, 0.0), 0.0), 4: ((2.0, 0.0), 0.0), 5: ((2.5, 2.0), 2.0)}
SBOUNDS = [(0.0, 3.0), (0.0, 3.0)]
MEMTOL = 1
TOL = 8
# concretisations of the specification's points (MC_Searcher: En = <<1, 0, 0, 0, 2>>, point 3 rounds onto point 2): the value
# is the second coordinate.  `exact`: spellings of a tolerance that keeps the values apart (Minima() of the spec), `coarse`:
# spellings of one that lumps them all (CoarseMinima of the spec).  A = whole numbers; B = fractions below 1/2 (tol = 0 is
# coarse there); C = negative coordinates and values, the largest value is 0.0
STABLES = {
    "A": {"points": SPOINTS, "bounds": SBOUNDS, "exact": [8, 0, 1, 3], "coarse": [-1]},
    "B": {"points": {1: ((0.5, 0.25), 0.25), 2: ((1.0, 0.0), 0.0), 3: ((1.04, 0.0), 0.0), 4: ((2.0, 0.0), 0.0), 5: ((2.5, 0.4), 0.4)},
          "bounds": [(0.0, 3.0), (0.0, 3.0)], "exact": [8, 1, 2], "coarse": [0, -1]},
    "C": {"points": {1: ((-2.5, -1.0), -1.0), 2: ((-2.0, -2.0), -2.0), 3: ((-1.96, -2.0), -2.0), 4: ((-1.0, -2.0), -2.0),
                     5: ((-0.5, 0.0), 0.0)},
          "bounds": [(-3.0, 0.0), (-3.0, 0.0)], "exact": [8, 0, 1], "coarse": [-1]},
}


MAPCALLS = [0]
MAPBASE = [None]


def counting_map(f, *seqs, **kwds):
    """the map handed to the Searcher: numbers the ensemble solves (one map call per Solve) for the scripted
    seekers and the recorder.  A plain function with module-level state: the Searcher deep-copies its sprayer
    (and with it a map OBJECT) for every solve."""
    MAPCALLS[0] += 1
    SOLVE[0] = MAPCALLS[0]
    return (MAPBASE[0] or S.serial_map)(f, *seqs, **kwds)


def key_of(x, tol=MEMTOL):
    return tuple(float(round(float(v), tol)) + 0.0 for v in x)


def snap_searcher(se, nsolves, table):
    """the Searcher's observable state through its public queries, projected onto point ids (table: x -> id)"""
    def pid(x, rounded=False):
        t = tuple(float(v) + 0.0 for v in x)
        return table["key" if rounded else "pt"].get(t, -1)
    coords = se.Coordinates()
    vals = [float(v) for v in se.Values()]
    cache = sorted(zip([pid(k, True) for k in coords], vals))
    out = {"cache": cache, "archive": sorted(pid(k) for k in se.Coordinates(all=True)),
           "archive_vals_ok": all(float(v) == float(k[1]) for k, v in zip(se.Coordinates(all=True), se.Values(all=True))),
           "unique_ok": len(se.Coordinates(unique=True)) == len(set(coords)) and
           sorted(set(vals)) == sorted(se.Values(unique=True)),
           "nsolves": nsolves, "real": len(S.LOG), "nspray": len(se._allSolvers), "traj": bool(se.traj)}
    out["minima"] = sorted((pid(k, True), float(v)) for k, v in se.Minima().items()) if coords else []
    out["minima2"] = None
    if coords and "tolarg" in table:           # the other tolerance, given to Minima itself (positionally or by keyword)
        m2 = se.Minima(table["tolarg"]) if table.get("tolpos") else se.Minima(tol=table["tolarg"])
        out["minima2"] = sorted((pid(k, True), float(v)) for k, v in m2.items())
    elif "tolarg" in table:
        out["minima2"] = []
    if coords and table.get("tolnone"):        # tol=None means: the constructor's
        m3 = sorted((pid(k, True), float(v)) for k, v in se.Minima(tol=None).items())
        if m3 != out["minima"]:
            out["minima"] = ("Minima(tol=None) differs from Minima()", m3, out["minima"])
    if se.traj:
        if se._allSolvers:
            xa = se.Samples(all=True)
            out["samples"] = [(pid(c[:-1]), float(c[-1])) for c in xa.T]
            xs = se.Samples()
            out["steps"] = [(pid(c[:-1]), float(c[-1])) for c in xs.T]
        else:
            out["samples"], out["steps"] = [], []
    else:
        out["samples"], out["steps"] = None, None
    return out


def searcher_spelling(v):
    """the spelling of one replayed Searcher script, by rotation over its number v"""
    tname = "ABC"[v % 3]
    T = STABLES[tname]
    swap = (v // 3) % 2 == 1                    # the constructor gets the coarse tolerance, Minima(tol) the exact one
    ex = T["exact"][(v // 6) % len(T["exact"])]
    co = T["coarse"][(v // 6) % len(T["coarse"])]
    return {"table": tname, "tol": co if swap else ex, "tolarg": ex if swap else co, "swap": swap,
            "tolpos": (v // 2) % 2 == 1, "tolnone": v % 4 == 0,
            "bounds": ["list-of-tuples", "tuple-of-tuples", "list-of-lists", "int-pairs", "2d-array", "np.float64-pairs"][(v // 2) % 6],
            "ctor": ["keywords", "positional", "np.int64"][v % 3 if v % 9 else 2], "flag": ["bool", "int"][(v // 5) % 2],
            "search": ["plain", "traj=None,disp=None", "positional-stop"][(v // 4) % 3], "reset": ["()", "(None)", "(cache=None, inv=None)"][v % 3]}


def spell_sbounds(bounds, how):
    b = [(float(l), float(h)) for l, h in bounds]
    if how == "tuple-of-tuples":
        return tuple(b)
    if how == "list-of-lists":
        return [list(p) for p in b]
    if how == "int-pairs":
        return [(int(l), int(h)) for l, h in b]               # the searcher tables' boxes are whole numbers
    if how == "2d-array":
        return np.array(b, dtype=float)
    if how == "np.float64-pairs":
        return [(np.float64(l), np.float64(h)) for l, h in b]
    return list(b)


def replay_searcher(b, sprayer, seed, spell=None):
    from mystic.search import Searcher
    from mystic.monitors import Monitor
    import mystic.solvers as ms
    sp = spell or {"table": "A", "tol": TOL, "swap": False, "bounds": "list-of-tuples", "ctor": "keywords", "flag": "bool",
                   "search": "plain", "reset": "()"}
    T = STABLES[sp["table"]]
    SPTS = T["points"]
    S.reset()
    PROG.clear()
    SPROG.clear()
    POINTS.clear()
    POINTS.update(SPTS)
    table = {"pt": {tuple(float(v) + 0.0 for v in x): p for p, (x, _) in SPTS.items()}, "key": {}}
    for k in ("tolarg", "tolpos", "tolnone"):
        if k in sp:
            table[k] = sp[k]
    for p in sorted(SPTS, reverse=True):
        table["key"][key_of(SPTS[p][0])] = p           # the smallest id sharing the key is the representative
    solves = [out for h in b["hist"] for out in h]
    for k, out in enumerate(solves):
        for i, prog in enumerate(out):
            SPROG[(k + 1, i + 1)] = list(prog)
    seed_all(seed)
    MAPCALLS[0] = SOLVE[0] = 0
    MAPBASE[0] = None
    snaps = []
    with quiet(), warnings.catch_warnings():
        warnings.simplefilter("ignore")
        traj0 = b["traj0"] if b["script"][0] not in ("traj_on", "traj_off") else (b["script"][0] == "traj_off")
        flag = (lambda v: int(v)) if sp["flag"] == "int" else (lambda v: bool(v))
        kw = dict(memtol=MEMTOL, map=counting_map,
                  sprayer={"buckshot": ms.BuckshotSolver, "lattice": ms.LatticeSolver, "sparsity": ms.SparsitySolver}[sprayer],
                  seeker=SeqSolver(), traj=flag(traj0))
        if sp["ctor"] == "positional":
            se = Searcher(b["n"], b["retry"], sp["tol"], repeat=b["repeat"], **kw)
        elif sp["ctor"] == "np.int64":
            se = Searcher(npts=np.int64(b["n"]), retry=np.int64(b["retry"]), tol=sp["tol"], repeat=np.int64(b["repeat"]), **kw)
        else:
            se = Searcher(npts=b["n"], retry=b["retry"], tol=sp["tol"], repeat=b["repeat"], **kw)
        bounds = spell_sbounds(T["bounds"], sp["bounds"])
        for op in b["script"]:
            c0 = MAPCALLS[0]
            if op == "search":
                if sp["search"] == "traj=None,disp=None":
                    se.Search(cost_lookup, bounds, stop=seq_term(), traj=None, disp=None, evalmon=Monitor())
                elif sp["search"] == "positional-stop":
                    se.Search(cost_lookup, bounds, seq_term(), evalmon=Monitor())
                else:
                    se.Search(cost_lookup, bounds, stop=seq_term(), evalmon=Monitor())
            elif op == "reset":
                if sp["reset"] == "(None)":
                    se.Reset(None)
                elif sp["reset"] == "(cache=None, inv=None)":
                    se.Reset(cache=None, inv=None)
                else:
                    se.Reset()
            elif op == "traj_on" and sp["flag"] == "bool" and sp["ctor"] == "positional":
                se.UseTrajectories()                       # the default IS True
            else:
                se.UseTrajectories(flag(op == "traj_on"))
            snaps.append(snap_searcher(se, MAPCALLS[0] - c0, table))
    return snaps


def compare_searcher(b, snaps, corrupt=False, spell=None):
    val = {p: v for p, (_, v) in STABLES[(spell or {}).get("table", "A")]["points"].items()}
    swap = bool((spell or {}).get("swap"))
    for c, (got, exp) in enumerate(zip(snaps, b["obs"])):
        bad = []
        ecache = sorted((k, float(val[k])) for k in exp["cache"])      # (spec: vals[i] = En[cache[i]]; val = its concretisation)
        if [float(v) for v in exp["vals"]] != [float(STABLES["A"]["points"][k][1]) for k in exp["cache"]]:
            bad.append(("spec-vals-are-not-En-of-the-keys", exp["vals"], exp["cache"]))
        if corrupt and c == len(snaps) - 1:
            ecache = ecache[:-1]
        if got["nsolves"] != exp["nsolves"]:
            bad.append(("ensemble-solves", exp["nsolves"], got["nsolves"]))
        if got["real"] != exp["real"]:
            bad.append(("real-calls", exp["real"], got["real"]))
        if got["cache"] != ecache:
            bad.append(("cache", ecache, got["cache"]))
        # Minima() under the constructor's tolerance and Minima(tol) under the other one: exact <-> Minima, coarse <-> CoarseMinima
        e1, e2 = (exp["minimaC"], exp["minima"]) if swap else (exp["minima"], exp.get("minimaC", []))
        if got["minima"] != sorted((k, float(val[k])) for k in e1):
            bad.append(("minima-coarse-tol" if swap else "minima", sorted(e1), got["minima"]))
        if got.get("minima2") is not None and got["minima2"] != sorted((k, float(val[k])) for k in e2):
            bad.append(("minima(tol)" if swap else "minima(tol)-coarse", sorted(e2), got["minima2"]))
        if got["archive"] != sorted(exp["archive"]) or not got["archive_vals_ok"]:
            bad.append(("archive", sorted(exp["archive"]), got["archive"]))
        if not got["unique_ok"]:
            bad.append(("unique", True, False))
        if got["traj"] != exp["traj"]:
            bad.append(("traj-flag", exp["traj"], got["traj"]))
        if got["nspray"] != exp["nspray"]:
            bad.append(("saved-sprayers", exp["nspray"], got["nspray"]))
        if got["samples"] is not None:
            if got["samples"] != [(p, float(val[p])) for p in exp["samples"]]:
                bad.append(("samples-all", exp["samples"], got["samples"]))
            if got["steps"] != [(p, float(val[p])) for p in exp["steps"]]:
                bad.append(("samples-steps", exp["steps"], got["steps"]))
        if bad:
            return c, bad
    return None


def searcher_script_nontrivial(b):
    """tied minima, a rounding collision / repeated discovery, a retry counter reset or a second Search"""
    tie = any(len(o["minima"]) > 1 for o in b["obs"])
    many = sum(1 for op in b["script"] if op == "search") > 1
    longrun = any(len(r) > max(1, b["retry"]) for r in b["passes"])
    return tie or many or longrun


def searcher_replay(ck, emitted, a, stride=1, corrupt=False):
    sprayers = ["buckshot", "lattice", "buckshot", "lattice", "buckshot"]
    nb = ne = 0
    for name, r, _ in emitted:
        ck.mc(r, name)
        if r.violated:
            ck.violation("searcher:spec:" + r.violated, {"cfg": name, "tlc": r.out[-3000:]},
                         "design invariant %s violated in Searcher.tla (%s)" % (r.violated, name))
            continue
        for b in r.printed:
            if not isinstance(b, dict) or "hist" not in b:
                continue
            nb += 1
            if (nb + a.seed) % stride:
                continue
            ne += 1
            spr = sprayers[nb % 5] if nb % 30 else "sparsity"
            ck.case(nontrivial=searcher_script_nontrivial(b), key=("q", name, nb))
            spell = searcher_spelling(ne)
            for k, v in spell.items():
                if k not in ("tolpos", "tolnone", "swap"):
                    SP.TALLY.hit("searcher-" + k, str(v))

            def canon_ok():
                d = compare_searcher(b, replay_searcher(b, spr, a.seed * 1000 + nb))
                return d is None
            try:
                snaps = replay_searcher(b, spr, a.seed * 1000 + nb, spell)
            except Exception as ex:
                sfx = "[spelling]" if _holds(canon_ok) else ""
                ck.violation("searcher:replay:raised:%s%s" % (type(ex).__name__, sfx),
                             {"behaviour": b, "sprayer": spr, "spelling": spell, "error": repr(ex)},
                             "executing a TLC script on a real Searcher (%s, written as %s) raised %r" % (spr, spell, ex))
                continue
            ck.trace()
            diff = compare_searcher(b, snaps, corrupt=(corrupt and ne == 3), spell=spell)
            if diff is not None:
                c, bad = diff
                fields = "+".join(sorted(set(x[0] for x in bad)))
                sfx = "[spelling]" if not (corrupt and ne == 3) and _holds(canon_ok) else ""
                ck.violation("searcher:replay:" + fields + sfx,
                             {"behaviour": b, "sprayer": spr, "spelling": spell, "call#": c, "call": b["script"][c],
                              "differences(field,spec,mystic)": bad, "mystic_after_each_call": snaps[:c + 1]},
                             "Searcher(npts=%d, retry=%d, repeat=%d) on %s, script %s, solve outcomes %s: after call #%d "
                             "the specification and mystic differ: %s" % (b["n"], b["retry"], b["repeat"], spr, b["script"],
                                                                         b["hist"], c + 1, [x[:3] for x in bad[:3]]))
            elif ne in (2, 150):
                ck.sample({"searcher_script": {k: b[k] for k in ("n", "retry", "repeat", "script", "hist")},
                           "spec_after_last_call": b["obs"][-1], "mystic_after_last_call": snaps[-1]})
    ck.extra["searcher_scripts_executed"] = ck.extra.get("searcher_scripts_executed", 0) + ne


# =========================================================================================
# SEARCHER  code -> spec: real seekers, one event per ensemble solve, validated against Trace_Searcher
# =========================================================================================
class SearcherRun(object):
    """records the public calls made on one real Searcher (see Trace_Searcher.tla for the events)"""
    def __init__(self, cfg, se):
        self.cfg, self.se = cfg, se
        self.events = []
        self.keys, self.pairs, self.values = {}, {}, set()
        self.last = None
        orig_solve, orig_search = se._solve, se._search

        def _solve(*args, **kwds):
            self.last = orig_solve(*args, **kwds)
            return self.last

        def _search(sid):
            n0 = len(S.LOG)
            r = orig_search(sid)
            self.solved(n0, r)
            return r
        se._solve, se._search = _solve, _search

    def kid(self, k):
        k = tuple(k)
        return self.keys.setdefault(k, len(self.keys) + 1)

    def pid(self, x, v):
        p = (tuple(float(u) + 0.0 for u in x), float(v))
        return self.pairs.setdefault(p, len(self.pairs) + 1)

    def solved(self, n0, r):
        cfg, log = self.cfg, S.LOG[n0:]
        members = self.last._allSolvers
        bests, bestmin = [], True
        for i, m in enumerate(members):
            key = tuple(round(v, cfg["memtol"]) for v in tuple(m.bestSolution))     # the documented memoization rounding
            e = float(m.bestEnergy)
            self.values.add(e)
            bests.append({"key": self.kid(key), "e": e})
            mine = [v for (mi, _, v) in log if mi == i + 1]
            bestmin = bestmin and bool(mine) and min(mine) == e
        oob = sum(1 for (_, x, _) in log if any(u < lo or u > hi for u, (lo, hi) in zip(x, cfg["bounds"])))
        self.events.append({"ev": "Solve", "bests": bests, "evs": [self.pid(x, v) for (_, x, v) in log], "oob": oob,
                            "bestmin": bestmin, "size": int(r[1]), "stray": sum(1 for (mi, _, _) in log if mi < 1)})

    def call(self, op, search):
        se = self.se
        self.events.append({"ev": "Call", "op": op})
        if op == "search":
            search()
        elif op == "reset":
            se.Reset()
        else:
            se.UseTrajectories(op == "traj_on")
        coords = se.Coordinates()
        vals = [float(v) for v in se.Values()]
        self.values.update(vals)
        ev = {"ev": "Ret", "cache": [self.kid(k) for k in coords], "vals": vals,
              "minima": [self.kid(k) for k in se.Minima()] if coords else [],
              "archive": [self.pid(k, v) for k, v in zip(se.Coordinates(all=True), se.Values(all=True))],
              "nspray": len(se._allSolvers), "real": len(S.LOG), "samples": [], "steps": []}
        if se.traj and se._allSolvers:
            ev["samples"] = [self.pid(c[:-1], c[-1]) for c in se.Samples(all=True).T]
            ev["steps"] = [self.pid(c[:-1], c[-1]) for c in se.Samples().T]
        self.events.append(ev)

    def trace(self):
        # values are ranked at the precision of the documented minima comparator (`tol` = 8 digits): Minima() returns
        # the entries whose value ROUNDS to the rounded minimum
        R = lambda v: round(v, TOL)
        rk = {v: i for i, v in enumerate(sorted(set(R(v) for v in self.values if v == v)))}
        rk = {v: rk[R(v)] for v in self.values if v == v}
        out = [{"ev": "New", "n": self.cfg["n"], "retry": self.cfg["retry"], "repeat": self.cfg["repeat"],
                "traj": bool(self.cfg["traj"])}]
        for ev in self.events:
            ev = dict(ev)
            if ev["ev"] == "Solve":
                ev["bests"] = [{"key": b["key"], "e": rk.get(b["e"], 2000000)} for b in ev["bests"]]
            elif ev["ev"] == "Ret":
                ev["vals"] = [rk.get(v, 2000000) for v in ev["vals"]]
            out.append(ev)
        return out


def gen_searcher_configs(a, count, rng):
    thorough = a.tier == "thorough"
    cfgs = []
    for k in range(count):
        dim = 1 if k % 3 else 2
        box = rng.choice([(-1.5, 1.5), (0.0, 3.0), (-3.0, 0.0)])
        script = rng.choice([["search"], ["search", "reset", "search"], ["search", "search"], ["search", "traj_off", "search"],
                             ["reset", "search"], ["search", "reset"]])
        traj = rng.random() < 0.7
        script = [("traj_on" if not traj else op) if op == "traj_off" and not traj else op for op in script]
        cfgs.append({"n": rng.choice([1, 2, 2, 3]), "retry": rng.choice([0, 1, 1, 2]), "repeat": rng.choice([0, 0, 1]),
                     "traj": traj, "dim": dim, "bounds": [box] * dim, "memtol": 0,
                     "seeker": rng.choice(["NM", "NM", "PW"]), "sprayer": rng.choice(["buckshot", "buckshot", "lattice"] + (["sparsity"] if thorough else [])),
                     "cost": rng.choice(["plateau", "steps", "bowl", "far"]), "gtol": rng.choice([2, 3]),
                     "maxiter": rng.choice([None, 4, 8]), "script": script, "seed": rng.randrange(10 ** 6)})
    return cfgs


def run_searcher_config(cfg):
    from mystic.search import Searcher
    from mystic.monitors import Monitor
    import mystic.solvers as ms
    import mystic.termination as mt
    S.reset()
    PROG.clear()
    SPROG.clear()
    seed_all(cfg["seed"])
    MAPCALLS[0] = SOLVE[0] = 0
    MAPBASE[0] = None
    with quiet(), warnings.catch_warnings():
        warnings.simplefilter("ignore")
        se = Searcher(npts=cfg["n"], retry=cfg["retry"], tol=TOL, memtol=cfg["memtol"], map=counting_map,
                      sprayer={"buckshot": ms.BuckshotSolver, "lattice": ms.LatticeSolver, "sparsity": ms.SparsitySolver}[cfg["sprayer"]],
                      seeker={"NM": ms.NelderMeadSimplexSolver, "PW": ms.PowellDirectionalSolver}[cfg["seeker"]],
                      traj=cfg["traj"], repeat=cfg["repeat"])
        run = SearcherRun(cfg, se)
        stop = mt.NormalizedChangeOverGeneration(1e-4, cfg["gtol"])
        if cfg["maxiter"] is not None:
            stop = mt.Or(stop, mt.EvaluationLimits(cfg["maxiter"], None))

        def search():
            se.Search(S.COSTS[cfg["cost"]], [tuple(b) for b in cfg["bounds"]], stop=stop, evalmon=Monitor())
        for op in cfg["script"]:
            run.call(op, search)
    return run


TRACE_CFG_SEARCHER = """SPECIFICATION TraceSpec
CONSTANTS
  N = 1
  Points = {}
  En = 0
  KeyOf = 0
  Outs = {}
  Configs = {}
  Ops = {"search", "reset", "traj_on", "traj_off"}
  MaxOps = 1000
  MaxSolves = 1000000
  Design = "documented"
CONSTRAINT Accept
INVARIANT ArchiveIsEvaluated
INVARIANT CacheIsBests
INVARIANT SamplesAreEvaluations
INVARIANT RetryHonoured
INVARIANT ResetClears
POSTCONDITION AllAccepted
CHECK_DEADLOCK FALSE
"""


def searcher_real_runs(ck, a, count, corrupt=False):
    rng = random.Random(a.seed * 15485863 + 29)
    cfgs = gen_searcher_configs(a, count, rng)
    runs, traces = [], []
    t0 = time.time()
    for cfg in cfgs:
        try:
            run = run_searcher_config(cfg)
        except Exception as ex:
            import traceback
            ck.case(nontrivial=False, key=("qr", json.dumps(cfg, sort_keys=True)))
            ck.violation("searcher:run:raised:%s" % type(ex).__name__,
                         {"config": cfg, "error": repr(ex), "traceback": traceback.format_exc()[-1500:]},
                         "Searcher run raised %r (config %s)" % (ex, cfg))
            continue
        runs.append(run)
        traces.append(run.trace())
    ck.extra["searcher_record_wall_s"] = round(time.time() - t0, 1)
    if corrupt and traces:
        t = traces[0] = json.loads(json.dumps(traces[0]))
        ret = [e for e in t if e["ev"] == "Ret" and e["archive"]][-1]
        ret["archive"] = ret["archive"][:-1]
    V = Validator("solver/Trace_Searcher", TRACE_CFG_SEARCHER)
    verdicts = V.validate(traces, ck, "Trace_Searcher")
    nsolve = 0
    for run, tr, v in zip(runs, traces, verdicts):
        cfg = run.cfg
        solves = [e for e in tr if e["ev"] == "Solve"]
        nsolve += len(solves)
        last = [e for e in tr if e["ev"] == "Ret"][-1]
        nt = len(last["minima"]) > 1 or len(set(b["key"] for e in solves for b in e["bests"])) < sum(len(e["bests"]) for e in solves)
        ck.case(nontrivial=nt, key=("qr", json.dumps(cfg, sort_keys=True)))
        if v is None:
            ck.trace()
            continue
        small = [dict(e, evs=e["evs"][:20]) if e["ev"] == "Solve" else dict(e, archive=e["archive"][:20], samples=e["samples"][:20],
                                                                            steps=e["steps"][:20]) if e["ev"] == "Ret" else e for e in tr]
        ev = dict(v["event"] or {})
        for fld in ("evs", "archive", "samples", "steps"):
            if fld in ev:
                ev[fld] = ev[fld][:20]
        ck.violation("searcher:trace:" + clause_key(v["failing"]),
                     {"config": cfg, "failing_clauses": v["failing"], "at_event": v["at"], "event": ev, "trace(lists cut at 20)": small[:40]},
                     "Searcher(npts=%d, retry=%d, repeat=%d, %s/%s) script %s: event #%s %s not explainable by Searcher.tla; "
                     "false clauses: %s" % (cfg["n"], cfg["retry"], cfg["repeat"], cfg["sprayer"], cfg["seeker"], cfg["script"],
                                            v["at"], ev.get("ev"), ", ".join(v["failing"])))
    ck.extra["searcher_real_solves"] = nsolve
    if traces:
        ck.sample({"searcher_real_run": runs[0].cfg, "events": len(traces[0]),
                   "last_return": {k: (v[:8] if isinstance(v, list) else v) for k, v in traces[0][-1].items()}})


# =========================================================================================
# the two parts (called from harness/check_C09.py) and the self-test
# =========================================================================================
_PREFETCH = {}


def prefetch(a, light=False):
    """start the TLC jobs of both parts in the background (they do not depend on mystic)"""
    key = (a.tier, bool(light))
    if key in _CACHE or key in _PREFETCH:
        return
    box = {}

    def work():
        try:
            box["res"] = run_jobs(a, light)
        except BaseException as ex:
            box["err"] = ex
    t = threading.Thread(target=work, daemon=True)
    t.start()
    _PREFETCH[key] = (t, box)


def results(a, light=False):
    key = (a.tier, bool(light))
    if key in _PREFETCH:
        t, box = _PREFETCH.pop(key)
        t.join()
        if "err" in box:
            raise box["err"]
    return run_jobs(a, light)


SAMPLER_ASSUMPTIONS = [
    "samplers: a terminated member that is stepped without being reset is charged one nominal evaluation and one iteration "
    "(max(j-i,1) in AbstractSampler._sample; this is what bounds sample_until when everything has stopped and nothing is reset); "
    "the accounting claim checked is evals() = real model calls + these nominal charges, per member and in total",
    "samplers: if_terminated=False is read as the sample_until table states it ('0' terminated solvers: always met); "
    "an invalid sample_until (no iters/evals limit and a termination target the reset policy can never let it reach) raises "
    "ValueError and does nothing",
    "samplers: the sampler's totals evals()/iters() are totals of all work done through the sampler and are kept by "
    "_reset_sampler; 'restores the initial state' is claimed for the ensemble (no member, no best, zero evaluations)",
    "samplers/searcher: scripted members (spec->code) evaluate the real starting points the ensemble hands them / the points "
    "of the TLC script; real Nelder-Mead and Powell members are used in the recorded runs (code->spec); calls are attributed to "
    "members through the harness map (work item being executed)",
    "searcher: the cache key of a member's best point is the point rounded to memtol digits (klepto keymap); Minima() is "
    "not called on an empty cache (min() of an empty sequence raises, undocumented); the `inv` (maximising) mode and "
    "file-backed archives are not exercised; Search is given an evaluation monitor (without one the archive stays empty "
    "by construction, search.py l.122)"]


def sampler_part(ck, a, corrupt=False, light=False):
    """SAMPLER part of C09: design runs, TLC scripts on real samplers, recorded real runs judged by Trace_Sampler"""
    thorough = a.tier == "thorough"
    t0 = time.time()
    res = results(a, light)
    if not light:
        design(ck, "sampler", res.get(("sampler", "design"), []))
    if light:
        strides = {"MC_Sampler_emit2a": 8, "MC_Sampler_emit2b": 3}
    elif thorough:
        strides = {"MC_Sampler_emit2s3": 4, "MC_Sampler_emit3s3": 4}
    else:
        strides = {"MC_Sampler_emit2a": 6, "MC_Sampler_emit2b": 3}
    sampler_replay(ck, res[("sampler", "emit")], a, strides=strides, corrupt=(corrupt in (True, "replay")))
    if not (light and ck.violations):
        n = getattr(a, "nsampler", None) or (500 if thorough else 40 if light else 100)
        sampler_real_runs(ck, a, n, corrupt=(corrupt in (True, "trace")))
    ck.assumptions = list(ck.assumptions) + [x for x in SAMPLER_ASSUMPTIONS if x.startswith("samplers")]
    ck.extra.setdefault("observations", []).append(
        "unbound (by decision): AbstractSampler.sample uses the solver `id` as a LIST INDEX (`stop[s._is_best() or 0]`), so a "
        "sampler constructed with the documented keyword id=k, k != 0, raises IndexError on sample(if_terminated=True); the "
        "scripts do not vary `id`")
    ck.extra["sampler_part_wall_s"] = round(time.time() - t0, 1)


def searcher_part(ck, a, corrupt=False, light=False):
    """SEARCHER part of C09: design runs, TLC scripts on a real Searcher, recorded real runs judged by Trace_Searcher"""
    thorough = a.tier == "thorough"
    t0 = time.time()
    try:
        import klepto                                   # noqa: F401  (mystic.search needs it for its cache/archive)
    except ImportError:
        ck.extra["searcher_part"] = "skipped: klepto is not installed (mystic.search.Searcher cannot be constructed)"
        return
    res = results(a, light)
    if not light:
        design(ck, "searcher", res.get(("searcher", "design"), []))
    emitted = res[("searcher", "emit")]
    for name, r, _ in emitted:
        stride = 10 if light else (1 if name.endswith("emit2") else 8) if thorough else 7
        searcher_replay(ck, [(name, r, None)], a, stride=stride, corrupt=(corrupt in (True, "replay")))
    if not (light and ck.violations):
        n = getattr(a, "nsearcher", None) or (120 if thorough else 12 if light else 25)
        searcher_real_runs(ck, a, n, corrupt=(corrupt in (True, "trace")))
    ck.assumptions = list(ck.assumptions) + [x for x in SAMPLER_ASSUMPTIONS if not x.startswith("samplers:")]
    ck.extra["searcher_part_wall_s"] = round(time.time() - t0, 1)


def sampler_mutants():
    """(name, part, install) -- in-memory mutations of mystic that break the documented behaviour"""
    import mystic.abstract_sampler as AS
    import mystic.search as SE
    from harness.srcpatch import patch
    A, Q = AS.AbstractSampler, SE.Searcher
    m = []
    m.append(("evals/iters are computed against the counters the members had BEFORE the reset (ecd41cf undone)", "sampler",
              lambda: patch(A, "_sample",
                            "        if reset: self._reset_sampler()\n        elif reset is None: self._reset_solved()\n"
                            "        # get counts after any reset (a reset solver starts counting from zero)\n"
                            "        _eval = s._all_evals\n        _iter = s._all_iters\n",
                            "        _eval = s._all_evals\n        _iter = s._all_iters\n"
                            "        if reset: self._reset_sampler()\n        elif reset is None: self._reset_solved()\n")))
    m.append(("reset_all=False puts shallow copies of ONE new solver into the terminated slots (8af83d4 undone)", "sampler",
              lambda: patch(A, "_reset_solved", "fresh = s._AbstractEnsembleSolver__get_solver_instance",
                            "_one = s._AbstractEnsembleSolver__get_solver_instance(reset=True); import copy as _c; "
                            "fresh = lambda reset=True: _c.copy(_one)")))
    m.append(("members re-created by reset_all=False get no id: the 'best' member is looked up at index 0 (97397c9 undone)", "sampler",
              lambda: patch(A, "_reset_solved", "solver.id = getattr(s._allSolvers[i], 'id', None)", "solver.id = None")))
    m.append(("evals restart at every sample() instead of accumulating", "sampler",
              lambda: patch(A, "_sample", "self._evals[i] += e", "self._evals[i] = e")))
    m.append(("iters are charged twice", "sampler",
              lambda: patch(A, "_sample", "self._iters[i] += t", "self._iters[i] += 2 * t")))
    m.append(("sample_until overshoots: one more round after the iters/evals limit is reached", "sampler",
              lambda: patch(A, "sample_until", "while self.iters() < iters and self.evals() < evals and",
                            "while self.iters() - self._npts < iters and self.evals() - self._npts < evals and")))
    m.append(("sample_until stops one round early on the evals limit", "sampler",
              lambda: patch(A, "sample_until", "and self.evals() < evals and", "and self.evals() + self._npts < evals and")))
    m.append(("sample_until: terminated target needs one more terminated member", "sampler",
              lambda: patch(A, "sample_until", "(sum(self.terminated(all=True)) < terminated)", "(sum(self.terminated(all=True)) <= terminated)")))
    m.append(("_reset_sampler leaves the members in place", "sampler",
              lambda: patch(A, "_reset_sampler", "s._allSolvers = [None]*s._npts", "pass")))
    m.append(("the strict ranges handed to the ensemble are shifted: points outside the bounds", "sampler",
              lambda: patch(A, "__init__", "s.SetStrictRanges(*zip(*bounds), **kwd)",
                            "s.SetStrictRanges(*[[v + 5 for v in q] for q in zip(*bounds)], **kwd)")))
    m.append(("if_terminated=all resets as soon as ANY member has terminated", "sampler",
              lambda: patch(A, "sample", "if all(stop) \\", "if any(stop) \\")))
    m.append(("reset_all=None (never reset) still resets", "sampler",
              lambda: patch(A, "sample", "return self._sample(reset=False)#, **kwds)", "return self._sample(reset=True)#, **kwds)", count=2)))
    m.append(("the archive misses the last evaluated point of every seeker", "searcher",
              lambda: patch(Q, "_memoize", "zip(param,cost))", "zip(param[:-1],cost))")))
    m.append(("Minima uses max instead of min", "searcher",
              lambda: patch(Q, "Minima", "_min = max if self._inv else min", "_min = min if self._inv else max")))
    m.append(("Minima returns one entry only (ties lost)", "searcher",
              lambda: patch(Q, "Minima", "return dict((k,v) for (k,v) in data.items() if round(v, tol) == round(_min, tol))",
                            "return dict([(k,v) for (k,v) in data.items() if round(v, tol) == round(_min, tol)][:1])")))
    m.append(("retry is ignored: a run ends after the first fruitless pass", "searcher",
              lambda: patch(Q, "Search", "while self.retry > count:", "while min(self.retry, 1) > count:")))
    m.append(("repeat is ignored", "searcher",
              lambda: patch(Q, "Search", "while run < self.repeat:", "while run < 0:")))
    m.append(("Reset keeps the trajectory cache", "searcher",
              lambda: patch(Q, "Reset", "if cache is None: self.cache.clear()", "if cache is None: pass")))
    m.append(("memtol is ignored when the best points are cached", "searcher",
              lambda: patch(Q, "_search", "self._memoize(solver, tol=self.memtol).info()", "self._memoize(solver, tol=None).info()")))
    m.append(("Samples()/Trajectories lose the first record of every seeker", "searcher",
              lambda: patch(Q, "Trajectories", "values = read_trajectories(getattr(seeker,mon), iter=True)",
                            "values = [v[1:] for v in read_trajectories(getattr(seeker,mon), iter=True)]")))
    # ---- mutants that only the rotated SPELLINGS can show (H09)
    m.append(("[spelling] sample_until(terminated=numpy.all) is not recognised as 'all'", "sampler",
              lambda: patch(A, "sample_until", "if terminated is all or terminated is all_:", "if terminated is all:")))
    m.append(("[spelling] Minima(tol=0): 'tol or self.tol' takes the legal 0 for missing", "searcher",
              lambda: patch(Q, "Minima", "if tol is None: tol=self.tol", "tol = tol or self.tol")))
    m.append(("[spelling] Search keeps only the FIRST pair of bounds objects it can index as tuples (lists / arrays of pairs fall back to the unit box)", "searcher",
              lambda: patch(Q, "_configure", "_min, _max = zip(*bounds)",
                            "_min, _max = zip(*bounds) if all(isinstance(b, tuple) for b in bounds) else zip(*([(0.0, 1.0)] * len(bounds)))")))
    m.append(("only the best seeker's point is cached", "searcher",
              lambda: patch(Q, "_memoize", "            for _solver in solver._allSolvers:\n                bestSol = tuple(_solver.bestSolution)",
                            "            for _solver in [solver._bestSolver]:\n                bestSol = tuple(_solver.bestSolution)")))
    return m


def selftest_sampler(a):
    """in-memory mutants + corrupted TLC values for both parts; prints one line per mutant; returns the number missed"""
    import types
    from harness.core import Check
    a2 = types.SimpleNamespace(tier="quick", seed=a.seed, jobs=getattr(a, "jobs", 4))
    results(a2, light=True)
    missed = 0

    def attempt(name, part, corrupt=False):
        ck = Check("C09", "model_checking", "quick", a2.seed)
        ck.dry = True
        buf = io.StringIO()
        with contextlib.redirect_stdout(buf):
            try:
                if part in ("sampler", "both"):
                    sampler_part(ck, a2, corrupt=corrupt, light=True)
                if part in ("searcher", "both"):
                    searcher_part(ck, a2, corrupt=corrupt, light=True)
            except Exception as ex:
                print("raised", repr(ex))
                ck.viol_keys["raised:%s" % type(ex).__name__] = 1
                ck.violations += 1
        return ck
    ck = attempt("baseline", "both")
    print("SELFTEST sampler/searcher baseline (unchanged tree): %s" % (
        "clean" if ck.violations == 0 else "NOT CLEAN %s" % sorted(ck.viol_keys)))
    missed += 0 if ck.violations == 0 else 1
    for name, part, mk in sampler_mutants():
        undo = mk()
        try:
            ck = attempt(name, part)
        finally:
            if callable(undo):
                undo()
        caught = ck.violations > 0
        missed += 0 if caught else 1
        print("SELFTEST %s: %s: %s   [%d violations: %s]" % (part, name, "caught" if caught else "MISSED", ck.violations,
                                                             "; ".join(sorted(ck.viol_keys))[:300]))
        sys.stdout.flush()
    for part, what in (("sampler", "replay"), ("sampler", "trace"), ("searcher", "replay"), ("searcher", "trace")):
        ck = attempt("corrupt", part, corrupt=what)
        caught = ck.violations > 0
        missed += 0 if caught else 1
        print("SELFTEST %s: corrupted expected value from TLC / recorded field (%s): %s   [%d violations: %s]" % (
            part, what, "caught" if caught else "MISSED", ck.violations, "; ".join(sorted(ck.viol_keys))[:300]))
        sys.stdout.flush()
    return missed
