"""C16 -- constraint transforms land in their target set and leave conforming input alone.

spec -> code.  TLC model-checks specs/cons/Transforms.tla (state = current vector, actions Apply /
Reapply, theorems ThmSelective/ThmLands/ThmConforming/ThmEntrywise/ThmIdempotent/ThmMasked over every
vector of the bounded class x every catalogue decorator) and emits, for every start vector, what the
specification expects of every decorator of the catalogue: the exact result, or -- for the
randomising ones -- the allowed ranges per entry (+ distinctness), or `0` when the premise of the
documentation is not met.  The harness builds each catalogue entry as the REAL mystic decorator
around the real inner function, calls it on the vector as a list and as an ndarray, and compares

  * the returned values with the specification (exactly: inputs are halves, arithmetic is exact;
    the four moment decorators to 1e-12 when a divisor is not a power of two),
  * entries outside the specification's footprint bit for bit with the input,
  * f(f(x)) == f(x),
  * the input object against a private copy (decorators that return a copy must not mutate it).

impose_as is specified for general masks (chains, fan-in, fan-out, trees, forests; Transforms.tla, section
"tracking masks"): TLC itself ENUMERATES the masks (MC_TransformsAs*.tla: every list of up to 3 (thorough: 4) pairs on
4 (5) positions, both orientations, every order of the list, negative spellings, offsets None/0/1/-0.5) and emits the
expected vector of every (mask, offset, input); masks for which the documented relation y[j] = y[i] + offset cannot
hold for all pairs are outside the premise (counted, not judged).

A second TLC configuration (script mode) emits every sequence of 2 (quick) / 3 (thorough) steps over a
small catalogue; the harness replays each step and the same sequence as one stack of real decorators.

Three further specifications are bound the same way (spec -> code; helper modules c16_measure.py, c16_intervals.py):
  * specs/cons/TransformsMeasure.tla -- impose_measure / impose_position / impose_weight: a state machine whose actions are the
    tracking and no-weight collapses the decorator applies to the factor measures of a product measure (exact rationals); TLC
    checks total weight / weighted mean kept, pair positions equal, second member weightless, other factors untouched,
    idempotence, commutation, and emits for every reachable state the expected flat vector (and that of a second application);
    replayed in every calling form (tuple of dicts, dict, impose_position, impose_weight) on lists and arrays;
  * specs/cons/Intervals.tla -- _interval_invert / _interval_intersection / _interval_union / interval_overlap as set algebra
    on a window of integer and half-integer test points (scripts of operations, each applied to the real previous result);
  * specs/cons/PairTools.tla -- _inverted, _symmetric, unpair, pairwise, indicator_overlap, select_params as exact combinatorics.
with_std is a catalogue kind ("std") of Transforms.tla; tools.chain is checked against every stackable script.

Spellings and boundary values (harness/c16_spell.py, specs/cons/MC_TransformsB.tla): the drivers above write every input in ONE
spelling, while the implementation branches on the spelling.  Every case of Transforms.tla whose canonical replay agrees is
therefore replayed once more in another legal spelling of the same abstract case (same expected value from TLC), chosen by a
deterministic rotation: numbers as int / numpy scalars / -0.0, index selections as list / array / numpy ints / set / range /
bare int, containers, +-inf for None, positional / keyword / omitted arguments, the setter calls, text masks, ...; the input as
int list, tuple, float32 array, numpy-scalar list, with -0.0; and -- for the decorators the specification proves scale-free
(ThmScale) -- at the magnitudes 2^e the specification lists (5e-324 .. 4e299).  Further TLC configurations enumerate the
boundary values themselves: falsy / empty / degenerate parameters (edge), two- and three-digit indices on vectors of length
11..13 (long), the 1e-9 lattice with the default tolerance of suppressed, rounding to 8 / 9 digits and nine-decimal values
(nano).  A case that fails in a non-canonical spelling only is reported as <kind>:<problem>:<the spelling responsible>.

Expected values come from TLC only; nothing here re-implements a transform.
"""
import sys, os, json, time, copy, traceback
from fractions import Fraction
from harness.core import Check, tier_seed, assert_repo, main_guard
from harness.tlc import run_tlc

NONE = 999999
INF = 1000000
STAT = ("mean", "var", "std", "spread", "norm")
INPLACE_OK = ("partial", "sync")       # documented to rewrite the given sequence; no copy is promised
RULE = ("every vector of the bounded class (entries from a fixed set of halves, length 0..3 quick / 0..4 thorough) x every "
        "decorator of the TLA+ catalogue (kind x parameters x Python index selection: None, single, negative, tuples, "
        "out-of-range) x input kind (list, ndarray); expected result / allowed ranges emitted by TLC; impose_as additionally on "
        "every TLC-enumerated mask (all lists of <= 3 pairs on 4 positions forming a forest: chains, fan-in, fan-out, trees, both "
        "orientations, every list order, negative spellings; thorough: + <= 4 pairs on 5 positions) x offsets None/0/1/-0.5 x every "
        "vector of length 0..4 over {0,1.5} (thorough {-0.5,0,1.5}; length 5 over {0,1.5}); plus every script of "
        "2 (quick) / 3 (thorough) steps in script mode; a case is non-trivial when the premise holds and the specification "
        "changes at least one entry (or allows a value other than the input); distinct = (decorator, vector, input kind).  "
        "Measure decorators: every reachable state of TransformsMeasure.tla (shapes (2,),(3,),(2,2),(3,2),(2,3),(3,3) [thorough: + (4,), "
        "(2,3,2)], weights 0/0.5/1 and positions -0.5/0/1 per entry [thorough: + 1.5], every defined tracking set of <= 2 pairs per factor "
        "(single, fan-out, chain) and every non-empty proper no-weight set, decorators of 1 collapse on every factor input and of 2 "
        "(thorough: 3) collapses on hand-picked factors) x calling form x input kind.  Intervals: every list of <= 2 (thorough: 3) "
        "intervals with ends in 0..3 (0..4) or unbounded x every such operand x {intersection, union} + inversions, and scripts of 2 (3) "
        "operations over 8 lists; membership compared at every integer and half-integer of the window.  Pair helpers: every list of <= 2 "
        "pairs over 3 (4) values x a second list.  SPELLINGS AND BOUNDARY VALUES (decorators of Transforms.tla): every case whose "
        "canonical replay agrees is replayed a third time in another legal spelling chosen by a deterministic rotation over (emission "
        "line, catalogue entry) -- parameter spelling (python int / numpy float64 / float32 / -0.0 numbers; index as list / ndarray / numpy "
        "ints / set / range / bare int / omitted; tuple / list / one-element / ndarray / reversed containers; +-inf for an open side; "
        "positional / keyword / omitted-default arguments; 0/1 flags; the setter calls f.index / f.samples / f.type / f.digits / f.clip / "
        "f.nearest; dict bounds with index filter; masks with numpy keys, as text with and without blanks, None, omitted; {i: (j,)}, "
        "{i: (j, 1)}, {i: (j, callable)}; one-element list / array targets) x input spelling (python ints in the list, tuple, float32 array, "
        "numpy-scalar list, -0.0 zeros, int64 array when the expected result is integral) x magnitude (scale-free decorators, theorem "
        "ThmScale: the case times 2^e, e in -1073, -1000, -30, 33, 993); plus the configurations MC_TransformsB: edge (0 / 0.0 / () / {} / "
        "(None, None) / lo = hi parameters on every vector of length 0..3 [thorough 0..4] over {-0.5, 0, 0.5, 1}), long (27 [thorough 78] "
        "vectors of length 11..13 with indices 10, 11, 12, -11, -13, 100 and masks / pairs on them), nano (S = 10^9: the default tolerance "
        "1e-8 of suppressed with entries 1e-9 / 1e-8 / 1.1e-8, digits 8 and 9, values with nine decimals; length 0..2 [0..3]).")

# ------------------------------------------------------------------------------------------ TLC side
# (cfg, number of parallel TLC runs the catalogue is split over); the root module is the cfg's name up to the last "_"
CONFIGS = {
    "quick": [("MC_Transforms_quick.cfg", 4), ("MC_Transforms_tens.cfg", 1), ("MC_TransformsAs_quick.cfg", 7)],
    "thorough": [("MC_Transforms_thorough.cfg", 15), ("MC_Transforms_tens.cfg", 1), ("MC_TransformsAs_thorough.cfg", 13),
                 ("MC_TransformsAs5_thorough.cfg", 8)],
}
# the boundary-value configurations (H16): falsy / empty / degenerate parameters, two- and three-digit indices on long
# vectors, the 1e-9 lattice (default tolerance of suppressed, digits 8 / 9, nine decimals), and the theorem ThmScale that
# licenses the replay of scale-free decorators at other magnitudes (no emission: TLC checks the theorem only)
BOUNDARY = {
    "quick": [("MC_TransformsB_edge.cfg", 1), ("MC_TransformsB_long.cfg", 1), ("MC_TransformsB_nano.cfg", 1), ("MC_TransformsB_scale.cfg", 1)],
    "thorough": [("MC_TransformsB_edge_thorough.cfg", 1), ("MC_TransformsB_long_thorough.cfg", 1), ("MC_TransformsB_nano_thorough.cfg", 1),
                 ("MC_TransformsB_scale.cfg", 1)],
}
SCRIPT_CFG = {"quick": "MC_Transforms_script.cfg", "thorough": "MC_Transforms_script_thorough.cfg"}
MODULES = ("MC_TransformsMeasure", "MC_TransformsAs5", "MC_TransformsAs", "MC_TransformsB", "MC_Transforms", "MC_Intervals", "MC_PairTools")
# the further specifications: (kind of replay, cfg, number of parallel TLC runs the start states are split over)
EXTRA = {
    "quick": [("measure", "MC_TransformsMeasure_quick.cfg", 2), ("intervals", "MC_Intervals_quick.cfg", 1), ("pairs", "MC_PairTools_quick.cfg", 1)],
    "thorough": [("measure", "MC_TransformsMeasure_thorough.cfg", 12), ("intervals", "MC_Intervals_thorough.cfg", 8),
                 ("pairs", "MC_PairTools_thorough.cfg", 1), ("vacuity", "vacuity-companions", 1)],
}
NEW_KINDS = ("measure", "intervals", "pairs", "vacuity")
# vacuity companions of the further specifications: deliberately false invariants TLC must VIOLATE (thorough tier)
VACUITY = ["MC_TransformsMeasure_vac_NeverChain.cfg", "MC_TransformsMeasure_vac_NeverRescue.cfg",
           "MC_TransformsMeasure_vac_NeverZeroReceiver.cfg", "MC_TransformsMeasure_vac_NeverNotIdempotent.cfg",
           "MC_Intervals_vac_NeverOpen.cfg", "MC_Intervals_vac_NeverTouching.cfg", "MC_Intervals_vac_NeverNested.cfg",
           "MC_Intervals_vac_NeverUnbounded.cfg", "MC_Intervals_vac_NeverEmpty.cfg",
           "MC_TransformsB_vac_ScaleFreeRounding.cfg"]


def vacuity_job():
    """every companion must be violated (its antecedent is reachable); returns a result record like the replays"""
    res = {"evaluations": 0, "nontrivial": 0, "viol": {}, "nviol": {}, "samples": [], "vacuity": {}}
    gen = dist = 0
    t0 = time.time()
    for cfg in VACUITY:
        r = run_tlc("cons/" + module_of(cfg), cfg=cfg, workers=1, timeout=600, heap="1g")
        name = cfg.split("_vac_")[1].replace(".cfg", "")
        gen += r.generated or 0
        dist += r.distinct or 0
        res["vacuity"][module_of(cfg)[3:] + "." + name] = "reachable (violated as required)" if r.violated == name else "NOT REACHED"
        if r.violated != name:
            res["nviol"]["spec:vacuity:" + name] = 1
            res["viol"]["spec:vacuity:" + name] = [({"cfg": cfg, "tlc": r.out[-1500:]}, "vacuity companion %s of %s was not violated: the class it names is never reached" % (name, cfg))]
    return res, {"distinct": dist, "generated": gen, "depth": None, "wall_s": time.time() - t0, "violated": None, "culprit": None}


def module_of(cfg):
    for m in MODULES:
        if cfg.startswith(m + "_"):
            return m
    raise ValueError(cfg)


def tlc_part(cfg, part, nparts):
    r = run_tlc("cons/" + module_of(cfg), cfg=cfg, workers=1, env={"PART": part, "NPARTS": nparts},
                timeout=3000, heap="3g")
    culprit = None
    if r.violated:
        i = r.out.find('<< "!!"')
        culprit = r.out[i:i + 700] if i >= 0 else r.out[-1500:]
    stats = {"distinct": r.distinct, "generated": r.generated, "depth": r.depth, "wall_s": r.wall_s,
             "violated": r.violated, "culprit": culprit}
    printed = r.printed
    if module_of(cfg) in ("MC_TransformsMeasure", "MC_PairTools"):
        if not printed and not r.violated:
            raise RuntimeError("TLC emitted nothing for %s part %s:\n%s" % (cfg, part, r.out[-2000:]))
        return {"S": 2}, printed, stats                 # (scale of MC_TransformsMeasure: CONSTANT S = 2 in its cfgs)
    if module_of(cfg) == "MC_Intervals":
        if (not printed or "wlo" not in printed[0]) and not r.violated:
            raise RuntimeError("TLC emitted no window header for %s:\n%s" % (cfg, r.out[-2000:]))
        return (printed[0] if printed else {}), printed[1:], stats
    if not printed or not isinstance(printed[0], dict) or "cat" not in printed[0]:
        raise RuntimeError("TLC emitted no catalogue header for %s part %s:\n%s" % (cfg, part, r.out[-2000:]))
    return printed[0], printed[1:], stats


# ------------------------------------------------------------------------------------------ real side
def val(v, S):
    """specification integer -> float (units of 1/S); open interval sides -> None"""
    if v == INF or v == -INF:
        return None
    return v / S


def index_arg(ix, as_int):
    if ix == [NONE]:
        return None
    if len(ix) == 1 and as_int:
        return ix[0]
    return tuple(ix)


def decorator(mc, mt, d, S, kind):
    """catalogue record -> the real mystic decorator object (not yet applied to a function)"""
    k, ix, p, iv = d["k"], d["ix"], d["p"], d["iv"]
    as_int = (kind == "list")           # single selections: plain int for list inputs, 1-tuple for arrays
    if k == "bounds":
        ivs = [(val(a, S), val(b, S)) for a, b in iv]
        arg = ivs[0] if len(ivs) == 1 else ivs
        if p[2] == 1:
            return mc.impose_bounds({i: arg for i in ix}, clip=bool(p[0]), nearest=bool(p[1]))
        return mc.impose_bounds(arg, index=index_arg(ix, as_int), clip=bool(p[0]), nearest=bool(p[1]))
    if k == "discrete":
        return mc.discrete([val(s, S) for s in iv[0]], index=index_arg(ix, as_int))
    if k == "integers":
        return mc.integers(ints=(True if p[0] else float), index=index_arg(ix, as_int))
    if k in ("rounded", "precision"):
        return getattr(mc, k)(digits=None if p[0] == NONE else p[0], index=index_arg(ix, as_int))
    if k == "unique":
        return mc.impose_unique([val(s, S) for s in iv[0]])
    if k in ("monotonic", "sorting"):
        return getattr(mc, k)(ascending=bool(p[0]), outer=bool(p[1]), index=index_arg(ix, False))
    if k == "at":
        return mc.impose_at(list(ix), val(p[0], S))
    if k == "as":
        return mc.impose_as([tuple(m) for m in iv], None if p[0] == NONE else val(p[0], S))
    if k == "mean":
        return mc.with_mean(val(p[0], S))
    if k == "var":
        return mc.with_variance(val(p[0], S))
    if k == "std":
        return mc.with_std(val(p[0], S))
    if k == "spread":
        return mc.with_spread(val(p[0], S))
    if k == "norm":
        return mc.normalized(val(p[0], S))
    if k == "masked":
        return mt.masked({m[0]: val(m[1], S) for m in iv})
    if k == "partial":
        return mt.partial({m[0]: val(m[1], S) for m in iv})
    if k == "sync":
        return mt.synchronized({m[0]: sync_value(m, p, S) for m in iv})
    if k == "clipped":
        return mt.clipped(val(p[0], S), val(p[1], S), exit=bool(p[2]))
    if k == "suppressed":
        return mt.suppressed(val(p[0], S), exit=bool(p[1]))
    raise ValueError(k)


def sync_value(m, p, S):
    """value of one synchronized mask entry <<i, j, c>>: j | (j, c) | (j, lambda t: c*t) | (j, lambda t: t + c/S)"""
    form = p[0] if p else 0
    if m[2] == 0:
        return m[1]
    if form == 1:
        return (m[1], lambda t, c=m[2]: c * t)
    if form == 2:
        return (m[1], lambda t, c=m[2] / S: t + c)
    if form == 3:
        return (m[1], 0)                  # the constant scale 0 (Transforms.tla, SyncVal form 3)
    return (m[1], m[2])


def build(mc, mt, d, S, kind):
    """catalogue record -> the real decorator applied to the real inner function"""
    inner = (lambda x: x) if d["g"] == 0 else (lambda x: [xi + 0.5 for xi in x])
    return decorator(mc, mt, d, S, kind)(inner)


def describe(d, S):
    """human-readable form of a catalogue entry (for replay artefacts and samples)"""
    k, ix, p, iv, g = d["k"], d["ix"], d["p"], d["iv"], d["g"]
    idx = None if ix == [NONE] else tuple(ix)
    f = lambda v: val(v, S)
    inner = "identity" if g == 0 else "x+0.5"
    if k == "bounds":
        ivs = [(f(a), f(b)) for a, b in iv]
        if p[2] == 1:
            return "impose_bounds({%s}, clip=%s, nearest=%s)(%s)" % (", ".join("%d: %s" % (i, ivs) for i in ix), bool(p[0]), bool(p[1]), inner)
        return "impose_bounds(%s, index=%s, clip=%s, nearest=%s)(%s)" % (ivs, idx, bool(p[0]), bool(p[1]), inner)
    if k == "discrete":
        return "discrete(%s, index=%s)(%s)" % ([f(s) for s in iv[0]], idx, inner)
    if k == "integers":
        return "integers(ints=%s, index=%s)(%s)" % ("True" if p[0] else "float", idx, inner)
    if k in ("rounded", "precision"):
        return "%s(digits=%s, index=%s)(%s)" % (k, None if p[0] == NONE else p[0], idx, inner)
    if k == "unique":
        return "impose_unique(%s)(%s)" % ([f(s) for s in iv[0]], inner)
    if k in ("monotonic", "sorting"):
        return "%s(ascending=%s, outer=%s, index=%s)(%s)" % (k, bool(p[0]), bool(p[1]), idx, inner)
    if k == "at":
        return "impose_at(%s, %s)(%s)" % (list(ix), f(p[0]), inner)
    if k == "as":
        return "impose_as(%s, %s)(%s)" % ([tuple(m) for m in iv], None if p[0] == NONE else f(p[0]), inner)
    if k in STAT:
        return "%s(%s)(%s)" % ({"mean": "with_mean", "var": "with_variance", "std": "with_std", "spread": "with_spread", "norm": "normalized"}[k], f(p[0]), inner)
    if k in ("masked", "partial"):
        return "%s(%s)(%s)" % (k, {m[0]: f(m[1]) for m in iv}, inner)
    if k == "sync":
        form = p[0] if p else 0
        sv = lambda m: m[1] if m[2] == 0 else ((m[1], m[2]) if form == 0 else (m[1], 0) if form == 3 else
                                               "(%d, lambda t: %s)" % (m[1], ("%d*t" % m[2]) if form == 1 else ("t+%s" % (m[2] / S))))
        return "synchronized(%s)(%s)" % ({m[0]: sv(m) for m in iv}, inner)
    if k == "clipped":
        return "clipped(%s, %s, exit=%s)(%s)" % (f(p[0]), f(p[1]), bool(p[2]), inner)
    if k == "suppressed":
        return "suppressed(%s, exit=%s)(%s)" % (f(p[0]), bool(p[1]), inner)
    return json.dumps(d)


def addressing(d, n):
    """position (0-based) -> list of the raw python indices of the decorator that address it"""
    k, ix, iv = d["k"], d["ix"], d["iv"]
    raw = []
    if k in ("as",):
        raw = [i for m in iv for i in m]          # roots of a fan-in change as well
    elif k in ("sync", "partial"):
        raw = [m[0] for m in iv]
    elif ix != [NONE]:
        raw = list(ix)
    pos = {}
    for i in raw:
        if -n <= i < n:
            pos.setdefault(i if i >= 0 else n + i, []).append(i)
    return pos, raw


LISTING = {1: "late-root", 2: "late-link"}


def qualifiers(d, n, failing, ascls=None):
    """stable qualifiers that make a violation key name the class of the failing case"""
    q = []
    k, ix, p, iv = d["k"], d["ix"], d["p"], d["iv"]
    if k == "as" and ascls:
        # classes of the mask as computed by the SPECIFICATION (AsClass): chained / several roots / how the list is ordered
        if ascls[0]:
            q.append("chain")
        if ascls[1]:
            q.append("fan-in")
        if p[0] not in (NONE, 0):
            q.append("offset")
    if k == "bounds":
        if len(iv) > 1:
            q.append("multi-interval")
        if p[0] == 0:
            q.append("clip=False")
        if p[1] == 0:
            q.append("nearest=False")
        if p[2] == 1:
            q.append("dict-form")
    if k == "integers" and p[0] == 1:
        q.append("ints=True")
    if k == "sync" and any(m[2] != 0 for m in iv):
        q.append("scaled-form" if not p or p[0] in (0, 3) else "callable-form")
    if d["g"] == 1:
        q.append("inner=x+0.5")
    pos, raw = addressing(d, n)
    others = [m[0] for m in iv] if k == "as" else ([m[1] for m in iv] if k == "sync" else [])
    if n == 0:
        q.append("empty-input")
    else:
        if k == "as" and any(not (-n <= i < n) for i in others):
            q.append("oor-source")
        elif any(not (-n <= i < n) for i in raw + others):
            q.append("oor-index")
        if failing and all(pos.get(e) and all(i < 0 for i in pos[e]) for e in failing):
            q.append("neg-index")
    return q


class CallTimeout(Exception):
    pass


def _on_alarm(signum, frame):
    raise CallTimeout("no result within %s s" % CALL_LIMIT)


CALL_LIMIT = 20.0


def guarded(fn, arg):
    """call fn(arg) under a wall-clock limit: impose_as loops for ever when its offset loop never runs dry"""
    import signal
    signal.signal(signal.SIGALRM, _on_alarm)
    signal.setitimer(signal.ITIMER_REAL, CALL_LIMIT)
    try:
        return fn(arg)
    finally:
        signal.setitimer(signal.ITIMER_REAL, 0)


def make_input(xs, kind, np):
    return list(xs) if kind == "list" else np.array(xs, dtype=float)


def as_floats(out):
    return [float(t) for t in out]


def same_bits(a, b):
    return len(a) == len(b) and all(float(u).hex() == float(w).hex() for u, w in zip(a, b))


def in_ranges(o, ranges, S, unit=1.0):
    for lo, hi in ranges:
        lo_f = float("-inf") if lo == -INF else lo / S * unit
        hi_f = float("inf") if hi == INF else hi / S * unit
        if lo_f <= o <= hi_f:
            return True
    return False


def judge(exp, xs, out, S, loose=False, unit=1.0):
    """compare the real output with what the specification expects -> list of (problem, failing 0-based entries);
    unit = 2^e: the case is replayed at another magnitude (scale-free decorators only: exact results, allowed ranges)"""
    def named(bad, default):
        # a selected entry that simply kept its input value is its own class of failure
        if bad and len(out) == len(xs) and all(float(out[i]).hex() == float(xs[i]).hex() for i in bad):
            return [("no-effect", bad)]
        return [(default, bad)] if bad else []
    if isinstance(exp, list):
        want = [e / S * unit for e in exp]
        if len(out) != len(want):
            return [("wrong-length", [])]
        return named([i for i, (o, w) in enumerate(zip(out, want)) if o != w], "wrong-value")
    if "v" in exp:
        want = [Fraction(e, S * exp["k"]) for e in exp["v"]]
        if len(out) != len(want):
            return [("wrong-length", [])]
        bad = []
        for i, (o, w) in enumerate(zip(out, want)):
            if o != o or o in (float("inf"), float("-inf")):
                bad.append(i)
            elif exp["ex"] and not loose:
                if Fraction(o) != w:
                    bad.append(i)
            elif abs(Fraction(o) - w) > Fraction(1, 10 ** 12) * max(1, abs(w)):
                bad.append(i)
        return named(bad, "wrong-value")
    if "pc" in exp:
        if len(out) != len(xs):
            return [("wrong-length", [])]
        if any(o != o for o in out):
            return [("wrong-value", [])]
        fo = [Fraction(o) for o in out]
        m = sum(fo) / len(fo)
        var = sum((o - m) ** 2 for o in fo) / len(fo)
        tol = Fraction(1, 10 ** 9)
        if abs(m - Fraction(exp["m"][0], exp["m"][1])) > tol or abs(var - Fraction(exp["t"][0], exp["t"][1])) > tol:
            return [("wrong-moment", [])]
        return []
    allowed = exp["a"]
    if len(out) != len(allowed):
        return [("wrong-length", [])]
    probs = named([i for i, (o, ranges) in enumerate(zip(out, allowed)) if not in_ranges(o, ranges, S, unit)], "not-in-target")
    if exp["u"] and len(set(out)) != len(out):
        probs.append(("not-distinct", []))
    return probs


def changes(exp, x):
    """does the specification change (or allow to change) anything?  (non-triviality of a case)"""
    if isinstance(exp, list):
        return exp != x
    if "v" in exp:
        return exp["k"] != 1 or exp["v"] != x
    if "pc" in exp:
        return True
    return any([list(r) for r in ranges] != [[xi, xi]] for ranges, xi in zip(exp["a"], x))


def spelled_call(mc, mt, np, d, S, exp, fp, dec, xin, xu, unit):
    """one call of the real decorator `dec` (a spelling of record d) on the input object `xin` (a spelling of the floats xu):
    -> (problems, output | repr of the exception).  Same judgement as the canonical calls; entries outside the footprint
    are compared by value with the input as given (a -0.0 that comes back as 0 is not a change)."""
    k, n = d["k"], len(xu)
    inner = (lambda z: z) if d["g"] == 0 else (lambda z: [zi + 0.5 for zi in z])
    fn = dec(inner)
    before = as_floats(xin)
    try:
        out = as_floats(guarded(fn, xin) if k == "as" else fn(xin))
    except Exception as ex:
        return [("raises-" + type(ex).__name__, [])], repr(ex)
    # (one name for a wrong value in another spelling, whether the entry kept its input value or left the allowed range)
    probs = [("wrong-value" if pr in ("no-effect", "not-in-target") else pr, es) for pr, es in judge(exp, xu, out, S, unit=unit)]
    plain = d["g"] == 0 and k != "masked"
    if plain and k not in STAT and len(out) == n:
        bad = [i for i in range(n) if (i + 1) not in fp and out[i] != before[i]]
        if bad:
            probs.append(("unselected-changed", bad))
    aliased = k in ("monotonic", "sorting") and d["p"][1] == 1 and d["g"] == 0
    if k not in INPLACE_OK and not aliased and not same_bits(as_floats(xin), before):
        probs.append(("input-mutated", []))
    if plain and not probs:
        try:
            again = np.array(out, dtype=xin.dtype) if isinstance(xin, np.ndarray) else type(xin)(out)
            out2 = as_floats(guarded(fn, again) if k == "as" else fn(again))
            inexact = isinstance(exp, dict) and (("v" in exp and not exp["ex"]) or "pc" in exp)
            if len(out2) != len(out) or any((abs(a - b) > 1e-12 * max(1.0, abs(a))) if inexact else (a != b) for a, b in zip(out, out2)):
                probs.append(("not-idempotent", []))
        except Exception as ex:
            probs.append(("second-application-raises-" + type(ex).__name__, []))
    return probs, out


def spelling_variant(spell, mc, mt, np, d, S, xs, exp, fp, r, di, exps, counts, cache):
    """the abstract case (d, xs, exp) once more, in the spelling the rotation of c16_spell picks: -> None (nothing but the
    canonical spelling exists) | dict(param, input, e, problems, got, culprit)"""
    e = spell.magnitude(r, exps)
    unit = 2.0 ** e
    integral = isinstance(exp, list) and all(float(v / S * unit).is_integer() and abs(v / S * unit) < 2 ** 53 for v in exp)
    pk = spell.pick(mc, mt, np, d, S, xs, r, di, e, integral, cache)
    if pk is None:
        return None
    pname, dec, iname, xin, xu = pk
    label = spell.input_label(xu, iname)
    for c in ("parameters: " + pname, "input: " + label, "magnitude: 2^%d" % e):
        counts[c] = counts.get(c, 0) + 1
    probs, got = spelled_call(mc, mt, np, d, S, exp, fp, dec, xin, xu, unit)
    res = {"param": pname, "input": label, "input_spelling": iname, "e": e, "problems": probs, "got": got, "culprit": None, "xu": xu}
    if probs:
        def fails(pn, inp):
            try:
                dd = spell.build(mc, mt, np, d, S, unit, pn, f32_ok=spell.f32_exact(S, e))
                xx = spell.make_input(xu, inp, np, d, integral, spell.f32_exact(S, e), e)
            except spell.NotApplicable:
                return False
            # (the randomising modes draw again at every call: a single agreeing draw does not clear a spelling)
            tries = 12 if (d["k"] == "unique" or (d["k"] == "bounds" and 0 in d["p"][:2])) else 1
            return any(spelled_call(mc, mt, np, d, S, exp, fp, dd, xx, xu, unit)[0] for _ in range(tries))
        base = "array" if isinstance(xin, np.ndarray) else "list"
        if e != 0 and fails(spell.CANONICAL, base):
            res["culprit"] = "magnitude=2^%d" % e
        elif iname not in ("list", "array") and fails(spell.CANONICAL, iname):
            res["culprit"] = "input=" + label
        elif pname != spell.CANONICAL and fails(pname, base):
            res["culprit"] = pname
        else:
            res["culprit"] = pname + "+input=" + label + ("" if e == 0 else "+magnitude=2^%d" % e)
    return res


def replay_cases(header, lines, mc, mt, np, corrupt=False):
    """replay one TLC run; returns a summary dict (picklable)"""
    from harness import c16_spell as spell
    S = header["S"]
    cat, foot, oor = header["cat"], header["foot"], header["oor"]
    ascls = header.get("ascls")
    fns = {}
    res = {"evaluations": 0, "nontrivial": set(), "undefined": 0, "viol": {}, "nviol": {}, "samples": [],
           "classes": {}, "lines": len(lines), "per_kind": {}, "pair_order": {}, "pair_order_example": None, "spellings": {}}
    sf, ue = header.get("sf"), header.get("ue")
    pow2 = S > 0 and (S & (S - 1)) == 0           # magnitudes 2^e are exact only on a binary lattice
    spell_cache = {}
    turn = {}                                      # kind -> running number of its cases (drives the rotation of the spellings)
    # the mask configurations (hundreds of impose_as records) and the big thorough tables: every third case of a kind
    thin = 3 if (len(cat) > 300 or len(lines) > 1000) else 1

    def add_violation(key, detail, what):
        res["nviol"][key] = res["nviol"].get(key, 0) + 1
        if len(res["viol"].setdefault(key, [])) < 2:
            res["viol"][key].append((detail, what))

    def cls(name):
        res["classes"][name] = res["classes"].get(name, 0) + 1

    for ln_no, ln in enumerate(lines):
        x = ln["x"]
        n = len(x)
        xs = [xi / S for xi in x]
        for di, exp in enumerate(ln["e"]):
            d = cat[di]
            k = d["k"]
            pk = res["per_kind"].setdefault(k, [0, 0, 0])      # cases, non-trivial, premise not met
            if exp == 0:
                res["undefined"] += 1
                pk[2] += 1
                continue
            if corrupt is True and ln_no == len(lines) // 2 and isinstance(exp, list) and exp:
                exp = [exp[0] + 1] + exp[1:]          # self-test: a corrupted expected value must be noticed
            nontriv = changes(exp, x)
            fp = set(foot[di][n])
            per_kind = {}
            got = {}
            for kind in ("list", "array"):
                fn = fns.get((di, kind))
                if fn is None:
                    fn = fns[(di, kind)] = build(mc, mt, d, S, kind)
                res["evaluations"] += 1
                if nontriv:
                    res["nontrivial"].add((di, tuple(x), kind))
                probs = []
                xin = make_input(xs, kind, np)
                try:
                    out = as_floats(guarded(fn, xin) if k == "as" else fn(xin))
                except Exception as ex:
                    per_kind[kind] = [("raises-" + type(ex).__name__, [])]
                    got[kind] = repr(ex)
                    continue
                got[kind] = out
                probs += judge(exp, xs, out, S)
                plain = d["g"] == 0 and k != "masked"
                if plain and k not in STAT and len(out) == n:
                    bad = [i for i in range(n) if (i + 1) not in fp and float(out[i]).hex() != float(xs[i]).hex()]
                    if bad:
                        probs.append(("unselected-changed", bad))
                # output-rewriting monotonic/sorting around the identity receive the input object itself as "output"
                aliased = k in ("monotonic", "sorting") and d["p"][1] == 1 and d["g"] == 0
                if k not in INPLACE_OK and not aliased and not same_bits(as_floats(xin), xs):
                    probs.append(("input-mutated", []))
                if plain and not any(pr == "wrong-length" for pr, _ in probs):
                    try:
                        out2 = as_floats(guarded(fn, make_input(out, kind, np)) if k == "as" else fn(make_input(out, kind, np)))
                        inexact = isinstance(exp, dict) and (("v" in exp and not exp["ex"]) or "pc" in exp)
                        if len(out2) != len(out) or any((abs(a - b) > 1e-12 * max(1.0, abs(a))) if inexact else (a != b)
                                                        for a, b in zip(out, out2)):
                            probs.append(("not-idempotent", []))
                            got[kind + "-twice"] = out2
                    except Exception as ex:
                        probs.append(("second-application-raises-" + type(ex).__name__, []))
                per_kind[kind] = probs
            # ---- the same abstract case once more in ANOTHER legal spelling (parameters x input x magnitude; harness/c16_spell.py)
            acl0 = ascls[di][n] if (k == "as" and ascls) else None
            if OPTS["spell"] and not any(per_kind.values()) and not (acl0 and acl0[2]):
                turn[k] = turn.get(k, -1) + 1
            if OPTS["spell"] and not any(per_kind.values()) and not (acl0 and acl0[2]) and turn[k] % thin == 0:
                vexp = exp
                if corrupt == "spelling" and isinstance(exp, list) and exp and turn[k] % 5 == 0:
                    vexp = [exp[0] + 1] + exp[1:]          # self-test: a corrupted expected value must be noticed by this part too
                exps = ue if (pow2 and sf and sf[di] and ue) else None
                vr = spelling_variant(spell, mc, mt, np, d, S, xs, vexp, fp, turn[k] // thin, di, exps, res["spellings"], spell_cache)
                if vr is not None:
                    res["evaluations"] += 1
                    if nontriv:
                        res["nontrivial"].add((di, tuple(x), "spelling"))
                    for pr in sorted(set(q for q, _ in vr["problems"])):
                        key = ":".join([k, pr, vr["culprit"]])
                        text = "%s [parameters: %s; input: %s %r; magnitude 2^%d]" % (describe(d, S), vr["param"], vr["input"], vr["xu"], vr["e"])
                        add_violation(key, {"decorator": describe(d, S), "record": d, "input": xs, "expected(spec units 1/%d)" % S: vexp,
                                            "spelling": {"parameters": vr["param"], "input": vr["input_spelling"], "magnitude_exponent": vr["e"]},
                                            "got": vr["got"], "footprint(1-based)": sorted(fp), "culprit": vr["culprit"],
                                            "canonical_spelling_agrees": True},
                                      "%s: %s (the canonical spelling agrees with the spec); spec %s x 2^%d, mystic %s" % (
                                          text, pr, json.dumps(vexp)[:200], vr["e"], json.dumps(vr["got"], default=str)[:300]))
            pk[0] += 1
            pk[1] += 1 if nontriv else 0
            if isinstance(exp, dict):
                cls("post-condition (allowed ranges)" if "a" in exp else ("moment: variance post-condition" if "pc" in exp
                    else ("moment: exact" if exp["ex"] else "moment: 1e-12")))
            if nontriv:
                cls("changed")
            else:
                cls("conforming-unchanged")
            if oor[di][n]:
                cls("out-of-range-index")
            acl = ascls[di][n] if (k == "as" and ascls) else None
            if acl:
                cls("impose_as: " + ("chained" if acl[0] else "flat") + (" fan-in" if acl[1] else "") +
                    (" offset" if d["p"][0] not in (NONE, 0) else "") + ("" if acl[2] == 0 else " listed " + LISTING[acl[2]]))
                if any(not (-n <= i < n) for m in d["iv"] for i in m) and any(all(-n <= i < n for i in m) for m in d["iv"]):
                    cls("impose_as: partially out-of-range mask")
            allp = sorted(set(pr for kd in per_kind for pr, _ in per_kind[kd]))
            for pr in allp:
                where = [kd for kd in ("list", "array") if any(q == pr for q, _ in per_kind.get(kd, []))]
                failing = sorted(set(e for kd in where for q, es in per_kind[kd] if q == pr for e in es))
                quals = qualifiers(d, n, failing, acl)
                if len(where) == 1:
                    quals.append(where[0] + "-only")
                # impose_as masks whose list is not "source first" form their own family of classes (as:pair-order:...)
                if acl and acl[2]:
                    key = ":".join([k, "pair-order", LISTING[acl[2]], pr])
                    if OPTS["pair_order_premise"]:
                        res["pair_order"][key] = res["pair_order"].get(key, 0) + 1
                        if res["pair_order_example"] is None and pr == "wrong-value":
                            res["pair_order_example"] = "%s on %s: spec %s, mystic %s" % (describe(d, S), xs, [e / S for e in exp], got.get("list"))
                        continue
                else:
                    key = ":".join([k, pr] + quals)
                add_violation(key, {"decorator": describe(d, S), "record": d, "input": xs, "expected(spec units 1/%d)" % S: exp,
                                    "got": got, "footprint(1-based)": sorted(fp), "failing_entries(0-based)": failing,
                                    "input_kinds_failing": where},
                              "%s on %s (%s): %s; spec %s, mystic %s" % (describe(d, S), xs, "/".join(where), pr,
                                                                           json.dumps(exp)[:200], json.dumps(got, default=str)[:300]))
            if not allp and len(res["samples"]) < 3 and nontriv and (ln_no * 7 + di) % 997 == 0:
                res["samples"].append({"decorator": describe(d, S), "input": xs, "spec_expects(units 1/%d)" % S: exp,
                                       "mystic_returns": got.get("list")})
    res["nontrivial"] = len(res["nontrivial"])
    return res


def replay_scripts(header, lines, mc, mt, np, stride=1, offset=0):
    S = header["S"]
    cat = header["cat"]
    res = {"evaluations": 0, "nontrivial": 0, "viol": {}, "nviol": {}, "samples": [], "traces": 0}

    def add_violation(key, detail, what):
        res["nviol"][key] = res["nviol"].get(key, 0) + 1
        if len(res["viol"].setdefault(key, [])) < 2:
            res["viol"][key].append((detail, what))

    def expect_vec(step):
        return [Fraction(v, S * step[2]) for v in step[1]]

    for no, ln in enumerate(lines):
        if no % stride != offset:
            continue
        s = ln["s"]
        start = [v / S for v in s[0][1]]
        names = [describe(cat[st[0] - 1], S) for st in s[1:]]
        changed = any(s[j][1:] != s[j - 1][1:] for j in range(1, len(s)))
        for kind in ("list", "array"):
            res["evaluations"] += 1
            if changed:
                res["nontrivial"] += 1
            cur = start
            ok = True
            # step by step: every transition of the script on the real decorator
            for j in range(1, len(s)):
                d = cat[s[j][0] - 1]
                try:
                    out = as_floats(guarded(build(mc, mt, d, S, kind), make_input(cur, kind, np)))
                except Exception as ex:
                    add_violation("script:%s:raises-%s" % (d["k"], type(ex).__name__), {"script": names, "start": start, "step": j, "error": repr(ex)},
                                  "script %s from %s: step %d raised %r" % (names, start, j, ex))
                    ok = False
                    break
                want = expect_vec(s[j])
                if len(out) != len(want) or any(abs(Fraction(o) - w) > Fraction(1, 10 ** 12) for o, w in zip(out, want)):
                    add_violation("script:%s:wrong-value" % d["k"], {"script": names, "start": start, "step": j, "input": cur,
                                                                       "expected": [float(w) for w in want], "got": out},
                                  "script %s from %s (%s): step %d spec %s mystic %s" % (names, start, kind, j, [float(w) for w in want], out))
                    ok = False
                    break
                cur = out
            # the same sequence as ONE stack of decorators (moment decorators couple outside, so they must come last)
            kinds = [cat[st[0] - 1]["k"] for st in s[1:]]
            stat_seen, stackable = False, True
            for kk in kinds:
                if kk in STAT:
                    stat_seen = True
                elif stat_seen:
                    stackable = False
            if ok and stackable:
                f = lambda z: z
                for st in reversed(s[1:]):
                    d = cat[st[0] - 1]
                    f = decorator(mc, mt, d, S, kind)(f)
                try:
                    out = as_floats(guarded(f, make_input(start, kind, np)))
                    want = expect_vec(s[-1])
                    if len(out) != len(want) or any(abs(Fraction(o) - w) > Fraction(1, 10 ** 12) for o, w in zip(out, want)):
                        add_violation("script:stacked:wrong-value", {"script": names, "start": start, "expected": [float(w) for w in want], "got": out},
                                      "stack %s on %s (%s): spec %s mystic %s" % (names, start, kind, [float(w) for w in want], out))
                except Exception as ex:
                    add_violation("script:stacked:raises-%s" % type(ex).__name__, {"script": names, "start": start, "error": repr(ex)},
                                  "stack %s on %s raised %r" % (names, start, ex))
                # tools.chain: "chain together decorators into a single decorator" -- chain(d1, d2, ..)(f) is d1(d2(..(f)))
                try:
                    g = mt.chain(*[decorator(mc, mt, cat[st[0] - 1], S, kind) for st in s[1:]])(lambda z: z)
                    out = as_floats(guarded(g, make_input(start, kind, np)))
                    want = expect_vec(s[-1])
                    if len(out) != len(want) or any(abs(Fraction(o) - w) > Fraction(1, 10 ** 12) for o, w in zip(out, want)):
                        add_violation("script:chain:wrong-value", {"script": names, "start": start, "expected": [float(w) for w in want], "got": out},
                                      "chain(%s) on %s (%s): spec %s mystic %s" % (names, start, kind, [float(w) for w in want], out))
                    res["evaluations"] += 1
                    res["nontrivial"] += 1 if changed else 0
                except Exception as ex:
                    add_violation("script:chain:raises-%s" % type(ex).__name__, {"script": names, "start": start, "error": repr(ex)},
                                  "chain %s on %s raised %r" % (names, start, ex))
            res["traces"] += 1
        if len(res["samples"]) < 1 and changed and no % 101 == 0:
            res["samples"].append({"script": names, "start": start, "spec_vectors_after_each_step(units 1/%d)" % S: [st[1] for st in s[1:]]})
    return res


# ------------------------------------------------------------------------------------------ orchestration
CACHE = {}          # (cfg, part, nparts) -> (header, lines, stats): filled by the self-test so TLC runs once
# impose_as masks whose list is not "source first" (classes as:pair-order:*): by default their disagreements are counted and
# printed as a NOTE but not judged (premise: the list names each component's source first, like every docstring example);
# C16_PAIR_ORDER=judge reports them as violations (see new_check and the FINDING in the evidence file)
OPTS = {"corrupt": False, "pair_order_premise": os.environ.get("C16_PAIR_ORDER", "judge") != "judge",
        # C16_SPELL=off: development aid -- the check as it was before the spelling / boundary part (canonical spellings only, and
        # without the edge / long / nano / scale configurations); used by the self-test to show what that part adds
        "spell": os.environ.get("C16_SPELL", "on") != "off"}
FLAGS = {"fixes": False}


def work(job):
    """one pool job: TLC run (or cached emission) + replay on the real code"""
    what, cfg, part, nparts = job
    import numpy as np
    import mystic.constraints as mc, mystic.tools as mt
    import warnings
    warnings.simplefilter("ignore")
    np.random.seed(12345 + part)
    import random
    random.seed(12345 + part)
    key = (cfg, part, nparts)
    if what == "vacuity":
        res, stats = vacuity_job()
        res.update({"stats": stats, "job": [what, cfg, part, nparts], "ndecs": 0})
        return res
    if key in CACHE:
        header, lines, stats = CACHE[key]
    else:
        header, lines, stats = tlc_part(cfg, part, nparts)
    old = np.seterr(all="ignore")
    try:
        if what == "cases":
            res = replay_cases(header, lines, mc, mt, np, corrupt=(OPTS["corrupt"] is True and part == 0) or
                               (OPTS["corrupt"] == "spelling" and "spelling"))
        elif what == "measure":
            from harness.c16_measure import replay_measure
            res = replay_measure(lines, mc, np, header["S"], corrupt=OPTS["corrupt"] == "measure" and part == 0)
        elif what == "intervals":
            from harness.c16_intervals import replay_intervals
            res = replay_intervals(header, lines, mt, corrupt=OPTS["corrupt"] == "intervals" and part == 0)
        elif what == "pairs":
            from harness.c16_intervals import replay_pairtools
            res = replay_pairtools(lines, mt, np, corrupt=OPTS["corrupt"] == "pairs")
        else:
            res = replay_scripts(header, lines, mc, mt, np)
    finally:
        np.seterr(**old)
    res["stats"] = stats
    res["job"] = [what, cfg, part, nparts]
    res["ndecs"] = len(header["cat"]) if "cat" in header else 0
    return res


def jobs_for(tier):
    jobs = []
    for cfg, nparts in CONFIGS[tier]:
        jobs += [("cases", cfg, p, nparts) for p in range(nparts)]
    jobs.append(("scripts", SCRIPT_CFG[tier], 0, 1))
    if OPTS["spell"]:
        for cfg, nparts in BOUNDARY[tier]:
            jobs += [("cases", cfg, p, nparts) for p in range(nparts)]
    extra = []
    for what, cfg, nparts in EXTRA[tier]:
        extra += [(what, cfg, p, nparts) for p in range(nparts)]
    # the pool takes the jobs in this order: the bigger new ones first, the small ones (chains, pair helpers) last
    big = [j for j in extra if j[0] in ("measure", "intervals")]
    return big + jobs + [j for j in extra if j not in big]


def run_all(ck, a, jobs):
    import multiprocessing as mp
    nproc = max(1, min(int(a.jobs), len(jobs)))
    if nproc == 1:
        results = [work(j) for j in jobs]
    else:
        ctx = mp.get_context("fork")
        with ctx.Pool(nproc) as pool:
            results = pool.map(work, jobs, chunksize=1)
    undefined = 0
    classes = {}
    per_kind = {}
    for res in results:
        for k, v in res.get("per_kind", {}).items():
            per_kind[k] = [x + y for x, y in zip(per_kind.get(k, [0, 0, 0]), v)]
        st = res["stats"]
        name = "%s[%d/%d]" % (res["job"][1].replace(".cfg", ""), res["job"][2], res["job"][3])
        ck.mc(st, name)
        if st["violated"]:
            thm = st["violated"]
            if res["job"][0] in NEW_KINDS:
                thm = res["job"][1].split("_")[1] + ":" + str(st["violated"])
            elif st["culprit"] and '"Thm' in st["culprit"]:
                thm = st["culprit"].split('"Thm')[1].split('"')[0]
                thm = "Thm" + thm
            ck.violation("spec:" + thm, {"tlc": st["culprit"], "model": name},
                         "TLC: design theorem %s violated in %s: %s" % (thm, name, (st["culprit"] or "")[:300]))
        n_non = res["nontrivial"]
        ck.case(nontrivial=True, n=n_non)
        ck.case(nontrivial=False, n=res["evaluations"] - n_non)
        ck.trace(res.get("traces", 0))
        undefined += res.get("undefined", 0)
        for k, v in res.get("classes", {}).items():
            classes[k] = classes.get(k, 0) + v
        for s in res["samples"]:
            ck.sample(s, limit=5)
        for key, lst in sorted(res["viol"].items()):
            total = res["nviol"][key]
            counted = 0
            for detail, what in lst:
                ck.violation(key, detail, what)
                counted += 1
            rest = total - counted
            if rest > 0:
                if ck.match_known(key) is not None:
                    kk = ck.match_known(key)["key"]
                    ck.known_hits[kk] = ck.known_hits.get(kk, 0) + rest
                else:
                    ck.violations += rest
                    ck.viol_keys[key] = ck.viol_keys.get(key, 0) + rest
    po, po_ex = {}, None
    for res in results:
        for k, v in res.get("pair_order", {}).items():
            po[k] = po.get(k, 0) + v
        po_ex = po_ex or res.get("pair_order_example")
    if po:
        ck.extra["FINDING impose_as pair order (disagreements observed, NOT judged; C16_PAIR_ORDER=judge makes them violations)"] = {
            "classes": po, "example": po_ex}
        print("NOTE: impose_as depends on the order in which the pairs of a mask are listed (%d disagreements in %d classes as:pair-order:*, "
              "not judged; run with C16_PAIR_ORDER=judge): %s" % (sum(po.values()), len(po), po_ex))
    vac = {}
    for res in results:
        vac.update(res.get("vacuity", {}))
    if vac:
        ck.extra["vacuity_companions"] = vac
    notes = {}
    for res in results:
        for k, v in res.get("notes", {}).items():
            notes[k] = notes.get(k, 0) + v
    if notes:
        ck.extra["NOTES (observed, outside the property as stated, NOT judged)"] = notes
        for k, v in sorted(notes.items()):
            print("NOTE: %s (%d times; not judged)" % (k, v))
    spl = {}
    for res in results:
        for k, v in res.get("spellings", {}).items():
            spl[k] = spl.get(k, 0) + v
    if spl:
        ck.extra["spellings_replayed[cases per spelling; each case also in the canonical spelling as list and as array]"] = dict(sorted(spl.items()))
        rare = sorted(k for k, v in spl.items() if v < 24 and k not in ("input: list", "input: array"))
        if rare:
            ck.extra["spellings_used_fewer_than_24_times"] = rare
            print("NOTE: spellings used fewer than 24 times in this run: %s" % rare)
    ck.extra["interval_test_points_left_open(isolated points at operand ends)"] = sum(r.get("open_points", 0) for r in results)
    ck.extra["premise_not_met_cases(skipped)"] = undefined
    ck.extra["case_classes"] = classes
    ck.extra["per_decorator_kind[vector x decorator pairs, non-trivial, premise not met]"] = per_kind
    ck.extra["catalogue_sizes"] = {"%s[%d]" % (r["job"][1], r["job"][2]): r["ndecs"] for r in results if r["ndecs"]}
    return results


def new_check(a):
    ck = Check("C16", "exploration", a.tier, a.seed, rule=RULE)
    ck.exhaustive = True
    if FLAGS["fixes"]:
        ck.extra["WARNING"] = "run with --with-proposed-fixes: mystic was patched in memory; this is NOT evidence about the tree"
    ck.assumptions = [
        "inputs are float lists and float64 arrays whose entries are halves (quick: -1.5..2.5, thorough: -2..2.5; a side configuration "
        "uses multiples of 5 up to 25 for digits=-1), so the decorators' float arithmetic is exact and compared with ==; the four moment "
        "decorators are compared exactly when all divisors are powers of two and to 1e-12 otherwise (irrational variance scales: mean and "
        "variance of the output to 1e-9)",
        "documented premises are honoured (TLA+ operator Defined): monotonic/sorting index tuples without out-of-range or aliasing members "
        "(the code raises), impose_at without indices below -len(x) (raises), impose_unique input drawn from the allowed set, "
        "synchronized masks star-shaped (no chains: 'operations within a single mask are unordered' says its docstring), masked keys "
        "inside the resulting sequence, non-degenerate spread / variance / sum for with_spread / with_variance / normalized",
        "impose_as (general masks): pairs with an out-of-range member are ignored; the others must admit y[j] = y[i] + offset for all "
        "pairs at once (no directed cycle / self pair, no entry reached at two different depths: operator AsGraded) and must not spell "
        "one position in two ways (0 and -n); outside this premise nothing is judged.  The source of a component is its entry without "
        "incoming pair; of several such entries (fan-in) the one whose pair is listed first (docstring example: (0,1),(3,1) gives "
        "x3 := x0); the source keeps its value, every other entry becomes source + offset * depth; f(f(x)) == f(x) also with offset",
        "impose_as masks are passed as lists; by default a mask is only JUDGED when its list names each component's source first and "
        "every later pair shares a member with an earlier one (as in every docstring example; operator AsListing = 0); the other list "
        "orders are replayed too, their disagreements (mystic's result depends on the list order although the docstring calls the mask "
        "a set) are counted under 'FINDING impose_as pair order' and become violations as:pair-order:* with C16_PAIR_ORDER=judge",
        "an out-of-range member of an index selection is ignored and the remaining members still count (TLA+ operator Sel); a tie of "
        "`discrete` goes to the lower member, `integers/rounded/precision` round halves to even, clip=True goes to an end of a nearest interval",
        "partial and synchronized rewrite the sequence they are given (no copy promised); every other decorator must leave its argument unchanged",
        "randomising modes (impose_unique, impose_bounds with clip=False or nearest=False) are checked against the specification's post-condition, "
        "with numpy/python RNGs seeded per worker",
        "with_std(t) is specified as with_variance(t^2) (its docstring: an outer coupling of impose_std): variance t^2 reached, mean kept; "
        "same premise (non-degenerate sample) and the same exact / 1e-12 / post-condition comparison as with_variance",
        "measure decorators (TransformsMeasure.tla): weights >= 0 with a positive total per factor; tracking pairs inside the factor, no self "
        "pair (not documented), nobody hands its weight on twice, no cycle (single pairs, fan-out, chains); no-weight sets non-empty and "
        "proper ('all indices' is not documented); sets are passed as python sets, dicts and tuples of dicts as documented; unequal factor "
        "sizes ARE supported by product_measure.load/flatten and are replayed ((3,2), (2,3)).  A pair (i,j) moves j to the position of i "
        "and j's weight onto i (docstrings of impose_measure and impose_collapse's example), weight flows to the root of a chain; a no-weight "
        "set leaves the other weights in proportion, or - when nothing remains - gives them equal shares (nullable=False); afterwards the "
        "positions are shifted so the weighted mean is kept.  Compared exactly when every divisor (total weight, remaining weight) is a power "
        "of two, else to 1e-12 relative.  A tuple of dicts is applied member after member (so a decorator with several collapses of ONE "
        "factor need not be idempotent: the second application is compared with the specification's second application)",
        "a chained tracking collapse whose python set iterates a pair before the pair that hands its first member on is keyed "
        "measure:pair-order:late-root:* (tools.connected depends on the order in which pairs are listed - the root cause of the known "
        "finding as:pair-order:* of impose_as)",
        "interval helpers (Intervals.tla): operand lists are non-empty, ascending, lo < hi, successive intervals disjoint or touching, ends "
        "integers or +-inf (given as floats, and as ints when all are finite); [lb, ub] of an inversion contains the set; a list denotes the "
        "union of its CLOSED intervals; isolated points at operand ends are not specified (membership there is not compared: the docstrings "
        "are silent and the code drops l == h in intersections but keeps (a, a) in inversions); the meaning of an EMPTY list is not "
        "documented, so no operation is applied to an empty result; within a script every operation is applied to the REAL previous "
        "result after dropping its degenerate entries (lo >= hi); interval_overlap: the common key carries the intersection / union, "
        "keys of one side pass through an intersection",
        "pair helpers (PairTools.tla): unpair / pairwise / select_params on at least one pair / entry / index (their results for empty "
        "arguments are not documented); pairwise is judged with indices=True (the only form mystic uses); that pairwise(x) with "
        "indices=False returns a 2-tuple (distances, distances) is recorded as a NOTE, not judged",
        "not covered here (they need termination objects or solvers and are outside the transforms of C16): tools.no_mask, _no_mask, "
        "unmasked_collapse, masked_collapse, _masked_collapse, solver_bounds; insert_missing is exercised through masked",
        "spellings (harness/c16_spell.py): only spellings the unchanged tree accepts for a whole decorator kind are in the rotation (ndarray "
        "bounds, set samples, ints=0/1, a bare int through an index setter and tuples for the decorators that assign into their argument "
        "raise and are outside the domain); numpy.float32 parameters and float32 inputs only where single precision holds every number of "
        "the case (binary lattice, magnitudes 2^-30..2^33; not for the moment decorators); an int64 array only when the expected result is "
        "integral (the container can hold it), while a python LIST of ints is replayed whatever the parameters are (a list can hold the "
        "result; the docstrings of impose_at / impose_as / with_mean use int lists); in another spelling an entry outside the footprint is "
        "compared by value (a -0.0 coming back as 0 is no change); a set is passed as impose_as mask only for masks of at most one pair",
        "magnitudes: ThmScale (TLC, configurations MC_TransformsB_scale / _edge) shows that for the kinds bounds, discrete, unique, monotonic, "
        "sorting, at, as, masked, partial, sync, clipped, suppressed (around the identity) input and value parameters times c give the "
        "result times c; the replay uses c = 2^e (exact in binary floating point) on the binary lattices; the rounding decorators (fixed "
        "grid) and the moment decorators (documented tolerances of almostEqual) are replayed at the unit scale only",
        "multi-element target lists of impose_at (docstring: 'or a list of values') are not specified: the docstring's own second and third "
        "example raise under the pinned numpy (shape mismatch), a one-element list / array is replayed as a spelling of the scalar",
        "trusted base: TLC's evaluation of the specifications, the JSON emission, and the harness' construction of the real decorator / call from an emitted record",
    ]
    return ck


# ------------------------------------------------------------------------------------------ proposed fixes
# Textual patches of /repo/mystic (applied IN MEMORY only, with --with-proposed-fixes) for the disagreements this check
# reports on the unchanged tree; they exist to show that the specification is met by a repaired implementation.
PROPOSED_FIXES = [
    # (module, function, old text, new text, violation classes it removes)
    ("constraints", "bounded",
     "    at = at if index is None else intersect1d(at, index)\n",
     "    if index is not None: # python indexing: negative counts from the end, out-of-range is ignored\n"
     "        index = [i + len(seq) if i < 0 else i for i in index if -len(seq) <= i < len(seq)]\n"
     "    at = at if index is None else intersect1d(at, index)\n",
     "bounds:no-effect:*neg-index"),
    ("constraints", "bounded",
     "            seq[at] = _clip(seq_at, *(b[abs(seq_at.reshape(-1,1)-b).argmin(axis=1)] for b in bounds))\n",
     "            near = minimum(*(abs(seq_at.reshape(-1,1)-b) for b in bounds)).argmin(axis=1) # the nearest interval\n"
     "            seq[at] = _clip(seq_at, bounds[0][near], bounds[1][near])\n",
     "bounds:not-in-target:multi-interval*"),
    ("constraints", "discrete",
     "                try: mask[sorted(index[0], key=abs)] = True\n                except IndexError: pass\n",
     "                for i in index[0]: # out-of-range members are ignored\n"
     "                    if -mask.size <= i < mask.size: mask[i] = True\n",
     "discrete:no-effect:oor-index"),
    ("constraints", "discrete",
     "            if isinstance(x, ndarray): xtype = asarray\n            else: xtype = type(x)\n            arglo, arghi = argnear(x)\n",
     "            if isinstance(x, ndarray): xtype = asarray\n            else: xtype = type(x)\n"
     "            if hasattr(x, '__len__') and not len(x): return f(x, *args, **kwds)\n            arglo, arghi = argnear(x)\n",
     "discrete:raises-ValueError:empty-input"),
    ("constraints", "integers",
     "                try: mask[sorted(index[0], key=abs)] = True\n                except IndexError: pass\n",
     "                for i in index[0]: # out-of-range members are ignored\n"
     "                    if -mask.size <= i < mask.size: mask[i] = True\n",
     "integers:no-effect:oor-index"),
    ("constraints", "integers",
     "            xp = choose(mask, (x,xp)).astype(_ints[0])\n",
     "            xp = choose(mask, (x,xp))\n            xi = xp.astype(_ints[0])\n"
     "            if (xi == xp).all(): xp = xi # never truncate entries that were not selected\n",
     "integers:*:ints=True"),
    ("constraints", "rounded",
     "                try: mask[sorted(index[0], key=abs)] = True\n                except IndexError: pass\n",
     "                for i in index[0]: # out-of-range members are ignored\n"
     "                    if -mask.size <= i < mask.size: mask[i] = True\n",
     "rounded:no-effect:oor-index"),
    ("constraints", "precision",
     "                try: mask[sorted(index[0], key=abs)] = True\n                except IndexError: pass\n",
     "                for i in index[0]: # out-of-range members are ignored\n"
     "                    if -mask.size <= i < mask.size: mask[i] = True\n",
     "precision:no-effect:oor-index"),
    ("constraints", "impose_as",
     "            pairs = connected(mask)\n",
     "            n = len(x) # pairs with an out-of-range member are ignored\n"
     "            _mask = [(i,j) for (i,j) in mask if -n <= i < n and -n <= j < n]\n"
     "            pairs = connected(_mask)\n",
     "as:*:oor-source"),
    ("constraints", "impose_as",
     "            pairs = list(mask) #XXX: inefficient\n",
     "            pairs = list(_mask) #XXX: inefficient\n",
     "as:*:oor-source"),
    ("tools", "synchronized",
     "                try: x[i] = x[j]\n"
     "                except TypeError: # value is tuple with f(x) or constant\n"
     "                  j0,j1 = (j[:2] + (1,))[:2]\n"
     "                  try: x[i] = j1(x[j0]) if isinstance(j1, _Callable) else j1*x[j0]\n"
     "                  except IndexError: pass\n"
     "                except IndexError: pass\n",
     "                try:\n"
     "                  if isinstance(j, tuple): # value is tuple with f(x) or constant\n"
     "                    j0,j1 = (j[:2] + (1,))[:2]\n"
     "                    x[i] = j1(x[j0]) if isinstance(j1, _Callable) else j1*x[j0]\n"
     "                  else: x[i] = x[j]\n"
     "                except IndexError: pass\n",
     "sync:no-effect:scaled-form*"),
]


def apply_proposed_fixes():
    import inspect, importlib
    srcs = {}
    for mod, name, old, new, _ in PROPOSED_FIXES:
        m = importlib.import_module("mystic." + mod)
        src = srcs.get((mod, name)) or inspect.getsource(getattr(m, name))
        if old not in src:
            raise RuntimeError("proposed fix for %s.%s does not apply (source changed?)" % (mod, name))
        srcs[(mod, name)] = src.replace(old, new)
    for (mod, name), src in srcs.items():
        m = importlib.import_module("mystic." + mod)
        exec(compile(src, "<proposed fix %s.%s>" % (mod, name), "exec"), m.__dict__)
    print("NOTE: running with %d proposed in-memory fixes of mystic (not the tree under test)" % len(PROPOSED_FIXES))


# ------------------------------------------------------------------------------------------ self-test
def selftest(a):
    import numpy as np
    import mystic.constraints as mc, mystic.tools as mt
    import io, contextlib
    tier = "quick"
    jobs = jobs_for(tier)
    from concurrent.futures import ThreadPoolExecutor
    with ThreadPoolExecutor(max_workers=min(int(a.jobs), len(jobs))) as tp:
        for job, data in zip(jobs, tp.map(lambda j: tlc_part(j[1], j[2], j[3]), jobs)):
            CACHE[(job[1], job[2], job[3])] = data

    import mystic.math.measures as mm
    orig = {"bounded": mc.bounded, "discrete": mc.discrete, "integers": mc.integers, "impose_at": mc.impose_at,
            "sorting": mc.sorting, "suppress": mt.suppress, "rounded": mc.rounded, "impose_bounds": mc.impose_bounds, "impose_as": mc.impose_as, "clipped": mt.clipped,
            "insert_missing": mt.insert_missing, "monotonic": mc.monotonic, "partial": mt.partial,
            "synchronized": mt.synchronized,
            "with_std": mc.with_std, "impose_measure": mc.impose_measure, "impose_collapse": mc.impose_collapse,
            "chain": mt.chain, "_interval_invert": mt._interval_invert, "_interval_intersection": mt._interval_intersection,
            "_interval_union": mt._interval_union, "indicator_overlap": mt.indicator_overlap, "_inverted": mt._inverted,
            "pairwise": mt.pairwise, "unpair": mt.unpair}
    TOOLS = ("suppress", "clipped", "insert_missing", "partial", "synchronized", "chain", "_interval_invert", "_interval_intersection",
             "_interval_union", "indicator_overlap", "_inverted", "pairwise", "unpair")
    mm_collapse = mm.impose_collapse
    orig_aliases = (mc.impose_position, mc.impose_weight)

    def src_mutant(module, name, old, new, count=1):
        """re-exec the source of module.name with one textual change (in memory only)"""
        import inspect, textwrap
        src = textwrap.dedent(inspect.getsource(orig[name]))
        assert src.count(old) >= count, (name, old)
        ns = module.__dict__
        exec(compile(src.replace(old, new), "<mutant %s>" % name, "exec"), ns)

    def m_clip_far():
        # clip into the interval that is FARTHEST from the point
        src_mutant(mc, "bounded", "near = minimum(*(abs(seq_at.reshape(-1,1)-b) for b in bounds)).argmin(axis=1)",
                   "near = minimum(*(abs(seq_at.reshape(-1,1)-b) for b in bounds)).argmax(axis=1)")

    def m_discrete_tie():
        src_mutant(mc, "discrete", "if hi - xi < xi - lo:", "if hi - xi <= xi - lo:")

    def m_oor_wraps():
        # an out-of-range index wraps around instead of being ignored
        src_mutant(mc, "integers", "if -mask.size <= i < mask.size: mask[i] = True", "if mask.size: mask[i % mask.size] = True")

    def m_inplace():
        # impose_as works on the caller's object
        src_mutant(mc, "impose_as", "x = copy.copy(x) #XXX: inefficient", "pass")

    def m_at_shift():
        src_mutant(mc, "impose_at", "x[[i for i in index if i < len(x)]] = target", "x[[i+1 for i in index if i+1 < len(x)]] = target")

    def m_sort_desc():
        src_mutant(mc, "sorting", "return xtype(sorted(x, reverse=(not ascending)))", "return xtype(sorted(x, reverse=ascending))")

    def m_suppress_wrong():
        src_mutant(mt, "suppress", "mask = abs(x) < tol", "mask = abs(x) <= tol")

    def m_half_up():
        # integers rounds halves up instead of to even
        src_mutant(mc, "integers", "xp = round(x)", "xp = __import__('numpy').floor(__import__('numpy').asarray(x) + 0.5)")

    def m_clipped_open():
        src_mutant(mt, "clipped", "return f(clip(x, min, max).tolist(), *args, **kwds)", "return f(clip(x, min, None).tolist(), *args, **kwds)")

    def m_mono_all():
        # monotonic ignores its index and accumulates over the whole vector
        src_mutant(mc, "monotonic", "if idx is None: return _mono(x, ascending=ascending)", "if True: return _mono(x, ascending=ascending)")

    def m_masked_order():
        src_mutant(mt, "insert_missing", "for (k,v) in sorted(_mask.items()):", "for (k,v) in sorted(_mask.items(), reverse=True):")

    def m_as_wrong_end():
        # the seeded slip C16b: the next round keeps the pairs whose TARGET was offset -> offsets pile up at the wrong end of a chain
        src_mutant(mc, "impose_as", "pairs = [m for m in pairs if m[0] in indx]", "pairs = [m for m in pairs if m[1] in indx]")

    def m_as_offset_first():
        # the offset is applied to the first member of the tuple
        src_mutant(mc, "impose_as", "indx,trac = zip(*pairs)", "trac,indx = zip(*pairs)")

    def m_as_no_accumulate():
        # the offset is added once, it does not accumulate along a chain
        src_mutant(mc, "impose_as", "pairs = [m for m in pairs if m[0] in indx]", "pairs = []")

    def m_as_backwards():
        # a component is resolved in the wrong direction: the source takes the value of its trackers
        src_mutant(mc, "impose_as", "try: x[k] = x[i]", "try: x[i] = x[k]")

    def m_as_offset_none_is_one():
        # offset=None behaves like offset=1
        src_mutant(mc, "impose_as", "if offset is None: offset = 0", "if offset is None: offset = 1")

    def m_sync_callable_ignored():
        # synchronized applies a callable scale as if it were the constant 1
        src_mutant(mt, "synchronized", "x[i] = j1(x[j0]) if isinstance(j1, _Callable) else j1*x[j0]",
                   "x[i] = x[j0] if isinstance(j1, _Callable) else j1*x[j0]")

    def m_corrupt():
        OPTS["corrupt"] = True

    # ---- the further specifications (measure decorators, interval algebra, pair helpers, with_std, chain)
    def m_std_not_squared():
        mc.with_std = lambda target: mc.with_variance(target)

    def m_collapse_reversed():
        # the weight of the FIRST index is moved onto the second
        mc.impose_collapse = lambda pairs, samples, weights: mm_collapse(set((j, i) for i, j in pairs), samples, weights)

    def m_collapse_keeps_positions():
        # the pair's weight is merged but the second member stays where it was
        import inspect, textwrap
        src = textwrap.dedent(inspect.getsource(mm_collapse))
        assert "samples[k] = samples[i]" in src
        ns = dict(mm.__dict__)
        exec(compile(src.replace("samples[k] = samples[i]", "pass"), "<mutant impose_collapse>", "exec"), ns)
        mc.impose_collapse = ns["impose_collapse"]

    def m_noweight_nullable():
        # no-weight collapse without the rescue (nullable=True): a factor whose remaining weight is zero loses its norm
        src_mutant(mc, "impose_measure", "impose_unweighted(v, c[k].positions, c[k].weights, False)",
                   "impose_unweighted(v, c[k].positions, c[k].weights, True)")
        mc.impose_position = lambda npts, tracking: mc.impose_measure(npts, tracking, {})
        mc.impose_weight = lambda npts, noweight: mc.impose_measure(npts, {}, noweight)

    def m_measure_shape_reversed():
        # the parameter vector is loaded with the factor sizes in reverse order
        src_mutant(mc, "impose_measure", "c.load(x, npts)", "c.load(x, npts[::-1])")
        mc.impose_position = lambda npts, tracking: mc.impose_measure(npts, tracking, {})
        mc.impose_weight = lambda npts, noweight: mc.impose_measure(npts, {}, noweight)

    def m_weight_alias_swapped():
        # impose_weight hands its collapses to the tracking slot
        mc.impose_weight = lambda npts, noweight: mc.impose_measure(npts, {}, {})

    def m_intersection_partial():
        src_mutant(mt, "_interval_intersection", "if l < h:", "if l < h and lb <= lo:")

    def m_invert_ignores_lb():
        src_mutant(mt, "_interval_invert", "lb = _a if lb is None else lb", "lb = _a")

    def m_union_hull_of_first():
        # (pattern follows the repaired _interval_union of /repo: the union is built from the first operand alone)
        src_mutant(mt, "_interval_union", "list(bounds1)+list(bounds2)", "list(bounds1)")

    def m_indicator_swapped():
        src_mutant(mt, "indicator_overlap", "if union:", "if not union:")

    def m_inverted_identity():
        mt._inverted = lambda pairs: list(map(tuple, pairs))

    def m_pairwise_signed():
        src_mutant(mt, "pairwise", "return abs(z),list(zip(*idx)) if indices else abs(z)", "return z,list(zip(*idx)) if indices else z")

    def m_unpair_swapped():
        mt.unpair = lambda pairs: orig["unpair"](pairs)[::-1]

    def m_chain_reversed():
        src_mutant(mt, "chain", "for _dec in reversed(decorators):", "for _dec in decorators:")

    def m_corrupt_measure():
        OPTS["corrupt"] = "measure"

    # ---- mutants only the spelling / boundary part (H16) can see: the canonical spellings and the old catalogues agree with them
    def m_sp_tol_or_default():
        # `x or default`: a legal tolerance 0 is taken for "not given" (only entries below 1e-8 tell: the 1e-9 lattice)
        src_mutant(mt, "suppress", "mask = abs(x) < tol", "mask = abs(x) < (tol or 1e-8)")

    def m_sp_as_int_array():
        # impose_as works on numpy.array(x): an all-integer list becomes an integer array that truncates the offset
        src_mutant(mc, "impose_as", "x = copy.copy(x) #XXX: inefficient", "x = __import__('numpy').array(x)")

    def m_sp_two_digit_index():
        # off by a digit: indices >= 10 are dropped (only vectors longer than 10 tell)
        src_mutant(mc, "discrete", "if -mask.size <= i < mask.size: mask[i] = True", "if -mask.size <= i < min(mask.size, 10): mask[i] = True")

    def m_sp_index_setter_noop():
        # f.index(...) of rounded does nothing (only the setter spelling tells)
        src_mutant(mc, "rounded", "index[0] = alist", "pass")

    def m_sp_clip_setter_noop():
        # f.clip(...) of impose_bounds does nothing
        src_mutant(mc, "impose_bounds", "clip[0] = clipped", "pass")

    def m_sp_abs_tolerance():
        # the in-bounds test gets an absolute tolerance 1e-12 (only magnitudes below it tell)
        src_mutant(mc, "bounded", "(lo <= seq)&(seq <= hi)", "(lo - 1e-12 <= seq)&(seq <= hi + 1e-12)")

    def m_sp_digits_capped():
        # rounding precision silently capped at 7 digits (only digits=8 on nine-decimal values tells)
        src_mutant(mc, "rounded", "xp = round(x, digits[0])", "xp = round(x, min(digits[0], 7))")

    def m_sp_sync_zero_scale():
        # `x or default` again: a legal scale 0 in {i: (j, 0)} is taken for "no scale"
        src_mutant(mt, "synchronized", "j0,j1 = (j[:2] + (1,))[:2]", "j0,j1 = (j[:2] + (1,))[:2]; j1 = j1 or 1")

    def m_corrupt_spelling():
        OPTS["corrupt"] = "spelling"

    def m_corrupt_intervals():
        OPTS["corrupt"] = "intervals"

    def m_corrupt_pairs():
        OPTS["corrupt"] = "pairs"

    mutants = [("impose_bounds clips into the far interval", m_clip_far),
               ("discrete tie rule flipped (tie goes to the higher member)", m_discrete_tie),
               ("integers: out-of-range index wraps around instead of being ignored", m_oor_wraps),
               ("impose_as mutates its input in place", m_inplace),
               ("impose_at pins index+1", m_at_shift),
               ("sorting sorts descending when ascending is asked", m_sort_desc),
               ("suppressed zeroes |x| <= tol instead of |x| < tol", m_suppress_wrong),
               ("integers rounds halves up instead of to even", m_half_up),
               ("clipped forgets the upper bound", m_clipped_open),
               ("monotonic ignores index=", m_mono_all),
               ("masked inserts in reverse key order", m_masked_order),
               ("impose_as: chained offsets accumulate at the wrong end (m[1] slip)", m_as_wrong_end),
               ("impose_as: offset applied to the first member of the tuple", m_as_offset_first),
               ("impose_as: offset does not accumulate along a chain", m_as_no_accumulate),
               ("impose_as: component resolved in the wrong direction", m_as_backwards),
               ("impose_as: offset=None adds 1", m_as_offset_none_is_one),
               ("synchronized ignores a callable scale", m_sync_callable_ignored),
               ("one expected value from TLC corrupted", m_corrupt),
               ("with_std: target not squared (with_variance(target))", m_std_not_squared),
               ("chain applies the decorators in reverse order", m_chain_reversed),
               ("measure: collapse moves the weight of the FIRST index onto the second", m_collapse_reversed),
               ("measure: collapse merges the weights but leaves the positions", m_collapse_keeps_positions),
               ("measure: no-weight collapse with nullable=True (no rescue)", m_noweight_nullable),
               ("measure: vector loaded with the shape reversed", m_measure_shape_reversed),
               ("measure: impose_weight drops its collapses", m_weight_alias_swapped),
               ("measure: one expected value from TLC corrupted", m_corrupt_measure),
               ("spell: suppressed takes tol=0 for missing (tol or 1e-8)", m_sp_tol_or_default),
               ("spell: impose_as works on an integer array for an all-integer list", m_sp_as_int_array),
               ("spell: discrete drops indices >= 10", m_sp_two_digit_index),
               ("spell: rounded's index setter does nothing", m_sp_index_setter_noop),
               ("spell: impose_bounds' clip setter does nothing", m_sp_clip_setter_noop),
               ("spell: bounded tests membership with an absolute tolerance 1e-12", m_sp_abs_tolerance),
               ("spell: rounded caps digits at 7", m_sp_digits_capped),
               ("spell: synchronized takes the scale 0 for missing (j1 or 1)", m_sp_sync_zero_scale),
               ("spell: one expected value from TLC corrupted (seen by the spelling replay only)", m_corrupt_spelling),
               ("new: _interval_intersection drops pieces", m_intersection_partial),
               ("new: _interval_invert ignores lb", m_invert_ignores_lb),
               ("new: _interval_union ignores its second operand", m_union_hull_of_first),
               ("new: indicator_overlap union/intersection swapped", m_indicator_swapped),
               ("new: _inverted returns the pairs unchanged", m_inverted_identity),
               ("new: pairwise returns signed differences", m_pairwise_signed),
               ("new: unpair returns the two arrays swapped", m_unpair_swapped),
               ("new: one expected interval membership from TLC corrupted", m_corrupt_intervals),
               ("new: one expected pair list from TLC corrupted", m_corrupt_pairs)]
    missed = 0
    # baseline: which violation classes exist without any mutation (must not count as 'caught')
    scratch = os.path.join(os.path.dirname(os.path.dirname(os.path.abspath(__file__))), "out", "C16_selftest")
    base = Check("C16", "exploration", tier, a.seed, rule=RULE)
    base.outdir = scratch
    with contextlib.redirect_stdout(io.StringIO()):
        run_all(base, a, jobs)
    base_keys = dict(base.viol_keys)
    print("SELFTEST baseline (no mutation): %d violations in %d classes" % (base.violations, len(base_keys)))
    # a mutant of impose_as is looked for in the mask configurations (+ scripts), every other one in the rest
    as_jobs = [j for j in jobs if "TransformsAs" in j[1] or j[0] == "scripts"]
    other_jobs = [j for j in jobs if "TransformsAs" not in j[1] and j[0] not in NEW_KINDS]
    measure_jobs = [j for j in jobs if j[0] == "measure"]
    new_jobs = [j for j in jobs if j[0] in ("intervals", "pairs")]
    spell_jobs = [j for j in jobs if j[0] == "cases" and "TransformsAs" not in j[1]]
    spell_as_jobs = [j for j in jobs if j[0] == "cases" and ("TransformsAs" in j[1] or "TransformsB" in j[1])]
    only = os.environ.get("C16_SELFTEST_ONLY")          # development aid: run the mutants whose name contains this text
    for name, mut in mutants:
        if only and only not in name:
            continue
        mut()
        ck = Check("C16", "exploration", tier, a.seed, rule=RULE)
        ck.outdir = scratch
        buf = io.StringIO()
        before = None
        try:
            with contextlib.redirect_stdout(buf):
                js = (as_jobs if name.startswith("impose_as:") else measure_jobs if name.startswith("measure:")
                      else new_jobs if name.startswith("new:") else (spell_as_jobs if "impose_as" in name else spell_jobs)
                      if name.startswith("spell:") else other_jobs)
                run_all(ck, a, js)
            new = {k: v - base_keys.get(k, 0) for k, v in ck.viol_keys.items() if v > base_keys.get(k, 0)}
            if name.startswith("spell:"):
                # the same mutant against the check as it was BEFORE this part: canonical spellings, old configurations only
                OPTS["spell"] = False
                ck0 = Check("C16", "exploration", tier, a.seed, rule=RULE)
                ck0.outdir = scratch
                with contextlib.redirect_stdout(io.StringIO()):
                    run_all(ck0, a, [j for j in js if "TransformsB" not in j[1]])
                before = {k: v - base_keys.get(k, 0) for k, v in ck0.viol_keys.items() if v > base_keys.get(k, 0)}
        except Exception as ex:
            new = {"harness-raised:" + repr(ex)[:80]: 1}
        finally:
            for k, v in orig.items():
                setattr(mt if k in TOOLS else mc, k, v)
            mc.impose_position, mc.impose_weight = orig_aliases
            OPTS["corrupt"] = False
            OPTS["spell"] = True
        caught = bool(new)
        ex_keys = sorted(new)[:3]
        print("SELFTEST %s: %s (%d new violations; e.g. %s)%s" % (name, "caught" if caught else "MISSED", sum(new.values()), ex_keys,
              "" if not name.startswith("spell:") else "  [canonical spellings and old configurations alone: %s]" % (
                  "n/a" if before is None else ("also caught" if before else "missed"))))
        sys.stdout.flush()
        missed += 0 if caught else 1
    import shutil
    shutil.rmtree(scratch, ignore_errors=True)
    return 1 if missed else 0


def replay_artefact(path):
    """re-run one recorded case (out/C16/replay_*.json) on the current tree and print what happens"""
    import numpy as np
    import mystic.constraints as mc, mystic.tools as mt
    art = json.load(open(path))
    det = art["detail"]
    if "ops" in det and "npts" in det:            # a measure-decorator case (c16_measure)
        from harness.c16_measure import forms, compare, describe as mdescribe
        bad = 0
        for form, dec in forms(mc, tuple(det["npts"]), det["ops"]).items():
            for kind in ("list", "array"):
                try:
                    out = as_floats(dec(lambda z: z)(make_input(det["input"], kind, np)))
                    diff = compare(out, det["expected_exact"], False)
                    verdict = "agrees" if diff == [] else "differs at entries %s" % diff
                except Exception as ex:
                    out, diff, verdict = repr(ex), None, "raises"
                print("%s [%s/%s] on %s -> %s   spec: %s   %s" % (mdescribe(det["npts"], det["ops"]), form, kind, det["input"], out, det["expected"], verdict))
                bad += verdict != "agrees"
        if bad:
            print("VIOLATION property=C16 replay=%s" % path)
        return 1 if bad else 0
    if str(det.get("function", "")).startswith("_interval"):      # one step of an interval script (c16_intervals)
        from harness.c16_intervals import membership, differences, wellformed
        args = det["args"]
        fix = lambda B: [(float(a), float(b)) for a, b in B]
        hdr = {"wlo": int(2 * det["test_points"][0]), "whi": int(2 * det["test_points"][-1])}
        exp = det["expected_membership(1 in,0 out,2 open)"]
        try:
            R = getattr(mt, det["function"])(fix(args[0]), *([fix(args[1])] if det["function"] != "_interval_invert"
                                                                    else [None if v is None else float(v) for v in args[1:]]))
            missing, extra = differences(membership(R, hdr), exp) if wellformed(R) else ([-1], [])
            print("%s%s -> %s   membership %s   spec %s   %s" % (det["function"], tuple(args), R, "".join(map(str, membership(R, hdr))) if wellformed(R) else "?",
                                                              "".join(map(str, exp)), "agrees" if not (missing or extra) else "differs"))
            bad = bool(missing or extra)
        except Exception as ex:
            print("%s%s raised %r" % (det["function"], tuple(args), ex))
            bad = True
        if bad:
            print("VIOLATION property=C16 replay=%s" % path)
        return 1 if bad else 0
    if "record" not in det:
        print("artefact %s is not a single case (%s)" % (path, art.get("key")))
        return 2
    d, xs = det["record"], det["input"]
    S = 2
    for kk in det:
        if kk.startswith("expected(spec units 1/"):
            S = int(kk.split("1/")[1].rstrip(")"))
    exp = det.get("expected(spec units 1/%d)" % S)
    bad = 0
    if "spelling" in det:                         # a case that fails in a non-canonical spelling only (harness/c16_spell.py)
        from harness import c16_spell as spell
        sp = det["spelling"]
        e = sp["magnitude_exponent"]
        unit = 2.0 ** e
        xu = [v * unit for v in xs]
        integral = isinstance(exp, list) and all(float(v / S * unit).is_integer() and abs(v / S * unit) < 2 ** 53 for v in exp)
        try:
            dec = spell.build(mc, mt, np, d, S, unit, sp["parameters"], f32_ok=spell.f32_exact(S, e))
            xin = spell.make_input(xu, sp["input"], np, d, integral, spell.f32_exact(S, e), e)
            probs, out = spelled_call(mc, mt, np, d, S, exp, set(det["footprint(1-based)"]), dec, xin, xu, unit)
        except spell.NotApplicable as ex:
            print("spelling %s does not exist for this record (%r)" % (sp, ex))
            return 2
        print("%s [parameters: %s; input: %s %r; magnitude 2^%d] -> %s   spec: %s x 2^%d   %s" % (
            describe(d, S), sp["parameters"], sp["input"], xin, e, out, json.dumps(exp)[:200], e, [q for q, _ in probs] or "agrees"))
        if probs:
            print("VIOLATION property=C16 replay=%s" % path)
        return 1 if probs else 0
    for kind in ("list", "array"):
        try:
            out = as_floats(build(mc, mt, d, S, kind)(make_input(xs, kind, np)))
            probs = [p for p, _ in judge(exp, xs, out, S)]
        except Exception as ex:
            out, probs = repr(ex), ["raises-" + type(ex).__name__]
        print("%s on %s as %s -> %s   spec: %s   %s" % (describe(d, S), xs, kind, out, json.dumps(exp)[:200], probs or "agrees (values)"))
        bad += bool(probs)
    if bad:
        print("VIOLATION property=C16 replay=%s" % path)
    return 1 if bad else 0


def main():
    fixes = "--with-proposed-fixes" in sys.argv
    if fixes:
        sys.argv.remove("--with-proposed-fixes")
    a = tier_seed()
    assert_repo()
    if fixes:
        apply_proposed_fixes()
    FLAGS["fixes"] = fixes
    if a.selftest:
        return selftest(a)
    if a.replay:
        return replay_artefact(a.replay)
    ck = new_check(a)
    run_all(ck, a, jobs_for(a.tier))
    return ck.finish()


if __name__ == "__main__":
    main_guard(main)
