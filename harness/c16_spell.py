"""C16 -- concrete SPELLINGS of one abstract case of specs/cons/Transforms.tla (spec -> code).

The specification fixes an abstract case: a decorator record (kind, index selection, value parameters), a start vector and
the expected result, all as integers on a lattice.  check_C16.py replays every case in its canonical spelling (python floats,
keyword arguments, tuples; input as list and as float64 array).  This module produces the OTHER legal ways of writing the very
same case, so that code which branches on the spelling is exercised with the expected values TLC emitted for the abstract case:

  * PARAMETER spellings (one aspect changed at a time, table VARIANTS): numbers as python ints / numpy float64 / float32 /
    -0.0 for zero; an index selection as list / ndarray(int64) / tuple of numpy int64 / set / range / bare int / numpy int /
    omitted for None; containers as tuple / list / one-element list / ndarray / reversed order; an open interval side as
    +-inf instead of None; keyword vs positional vs omitted-default arguments; bools as 0/1; the decorators' SETTER calls
    (f.index, f.samples, f.type, f.digits, f.clip, f.nearest) instead of the constructor argument; bounds as dict with an
    index filter; masks with numpy keys / as text (with and without blanks) / None / omitted / reversed insertion order;
    synchronized {i: j} as {i: (j,)}, {i: (j, 1)}, {i: (j, callable)}; a pinned value as a one-element list / array;
  * INPUT spellings: list with python ints for the integral entries (an all-integer list when every entry is integral),
    tuple, float32 array, list of numpy float64 scalars, -0.0 for the zero entries (list and array), int64 array (only when
    the expected result is integral: the container can hold it);
  * MAGNITUDES (scale-free decorators, theorem ThmScale of the specification): the case times 2^e for the exponents the
    specification's header lists (5e-324 .. 1e-9 .. 1e10 .. 4e299), exact in binary floating point.

Every spelling listed here was tried on the unchanged tree: a spelling mystic rejects with an exception for a whole kind is
not in the table (ndarray bounds, set samples, ints=0/1, a bare int through the index setter, tuples for the decorators that
assign into their argument).  pick() chooses by a deterministic rotation over (emission line, catalogue entry), so one quick
run uses every spelling many times; run counts are written to the evidence file.
"""
NONE = 999999
INF = 1000000
STAT = ("mean", "var", "std", "spread", "norm")
INDEXED = ("bounds", "discrete", "integers", "rounded", "precision", "monotonic", "sorting", "at")


class NotApplicable(Exception):
    """this spelling does not exist for this record (e.g. an int spelling of 0.5)"""


def val(v, S, unit=1.0):
    """specification integer -> float; open interval sides -> None.  (v / S) * 2^e is exact for S a power of two."""
    if v == INF or v == -INF:
        return None
    return v / S * unit


def num(f, style, np):
    """one value parameter in the given number spelling (falls back to the python float when the spelling cannot hold it)"""
    if f is None:
        return None
    if style == "int":
        return int(f) if (float(f).is_integer() and abs(f) < 2 ** 53) else f
    if style == "np64":
        return np.float64(f)
    if style == "np32":
        return np.float32(f) if float(np.float32(f)) == f else f
    if style == "negzero":
        return -0.0 if f == 0 else f
    return f


def changed_by_num(values, style, np):
    """does the number spelling change the way any of these floats is written?"""
    for f in values:
        if f is None:
            continue
        g = num(f, style, np)
        if type(g) is not type(f) or (style == "negzero" and f == 0):
            return True
    return False


def index_spell(ix, style, np):
    """the index selection of a record (list; [NONE] = None) in the given spelling"""
    if ix == [NONE]:
        if style in ("none", "tuple"):
            return None
        raise NotApplicable(style)
    t = tuple(ix)
    if style == "tuple":
        return t
    if style == "list":
        return list(t)
    if style == "ndarray":
        return np.array(t, dtype=np.int64)
    if style == "npints":
        if not t:
            raise NotApplicable(style)
        return tuple(np.int64(i) for i in t)
    if style == "set":
        if len(set(t)) != len(t) or not t:
            raise NotApplicable(style)
        return set(t)
    if style == "range":
        if len(t) >= 1 and all(b == a + 1 for a, b in zip(t, t[1:])) and (t[0] >= 0 or t[-1] < 0):
            return range(t[0], t[-1] + 1)
        raise NotApplicable(style)
    if style in ("int", "npint"):
        if len(t) != 1:
            raise NotApplicable(style)
        return t[0] if style == "int" else np.int64(t[0])
    raise NotApplicable(style)


def with_setters(dec, calls):
    """decorator `dec`, followed by the setter calls [(attribute, args)] on the decorated function"""
    def deco(f):
        g = dec(f)
        for attr, args in calls:
            getattr(g, attr)(*args)
        return g
    return deco


def sync_value(m, p, S, unit, opt, np):
    """value of one synchronized mask entry <<i, j, c>> (see Transforms.tla, SyncVal)"""
    form = p[0] if p else 0
    i, j, c = m
    sy = opt.get("sync")
    jj = np.int64(j) if opt.get("keys") == "np" else j
    if c == 0:                                   # plain {i: j}
        if sy == "tuple1":
            return (jj,)
        if sy == "tuple11":
            return (jj, 1)
        if sy == "tuple1f":
            return (jj, 1.0)
        if sy == "callable-id":
            return (jj, lambda t: t)
        return jj
    if form == 3:                                # the constant scale 0
        if sy == "callable-id":
            return (jj, lambda t: 0 * t)
        return (jj, num(0.0, opt.get("num", "int"), np))
    if form == 1:
        return (jj, lambda t, c=c: c * t)
    if form == 2:
        return (jj, lambda t, c=c / S * unit: t + c)
    cc = num(float(c), opt.get("num", "int"), np)
    if sy == "tuple3":
        return (jj, cc, None)
    return (jj, cc)


def construct(mc, mt, np, d, S, unit, opt, as_int=False, f32_ok=True):
    """catalogue record -> the real mystic decorator (not yet applied to a function), written as `opt` says.
    opt = {} is the canonical spelling of check_C16.decorator()."""
    k, ix, p, iv = d["k"], d["ix"], d["p"], d["iv"]
    style = opt.get("num", "float")
    if style == "np32" and not f32_ok:
        # a numpy.float32 parameter makes numpy compute in single precision (python floats are "weak" operands): the caller's
        # choice, exact only where every number of the case is a float32 (binary lattice, magnitudes 2^-30 .. 2^33)
        raise NotApplicable("num")
    f = lambda v: num(val(v, S, unit), style, np)
    call = opt.get("call", "kw")
    ixs = opt.get("ix")
    used = set()                               # which options this kind honoured (an unused option = not applicable)

    def IX(default="tuple"):
        used.add("ix")
        if ixs is None:
            if ix != [NONE] and len(ix) == 1 and as_int and default == "tuple":
                return ix[0]
            return index_spell(ix, default, np)
        return index_spell(ix, ixs, np)

    def flag(b):
        used.add("flags")
        return int(bool(b)) if opt.get("flags") == "int" else bool(b)

    def finish(dec):
        for key in opt:
            if key not in used:
                raise NotApplicable(key)
        return dec

    def other_index():
        return (0,) if ix == [NONE] else None

    if k == "bounds":
        used.update(("num", "open", "seq", "call", "bform"))
        inf = float("inf")

        def end(v):
            if v in (INF, -INF):
                if opt.get("open") == "inf":
                    return inf if v == INF else -inf
                return None
            return f(v)
        if opt.get("open") == "inf" and not any(e in (INF, -INF) for I in iv for e in I):
            raise NotApplicable("open")
        if "num" in opt and not changed_by_num([val(e, S, unit) for I in iv for e in I], style, np):
            raise NotApplicable("num")
        seq = opt.get("seq", "canon")
        ivs = [[end(a), end(b)] if seq == "list" else (end(a), end(b)) for a, b in iv]
        if seq == "tuple":
            arg = tuple(ivs) if len(ivs) > 1 else (ivs[0],)
        elif seq == "wrap1":
            if len(ivs) != 1:
                raise NotApplicable("seq")
            arg = [ivs[0]]
        else:
            arg = ivs[0] if len(ivs) == 1 else ivs
        clip, near = flag(p[0]), flag(p[1])
        bform = opt.get("bform")
        if p[2] == 1:                           # bounds given as dict {i: intervals}
            used.add("ix")
            if ixs not in (None, "npints"):
                raise NotApplicable("ix")
            keys = [np.int64(i) for i in ix] if ixs == "npints" else list(ix)
            b = dict((i, arg) for i in keys)
            if bform == "dict+index":
                b[7] = arg
                return finish(mc.impose_bounds(b, index=tuple(ix), clip=clip, nearest=near))
            if bform is not None or call != "kw":
                raise NotApplicable("bform")
            return finish(mc.impose_bounds(b, clip=clip, nearest=near))
        if bform == "dict+index":
            if ix == [NONE]:
                raise NotApplicable("bform")
            b = dict((i, arg) for i in ix)
            b[7] = arg
            return finish(mc.impose_bounds(b, index=tuple(ix), clip=clip, nearest=near))
        if bform == "dictNone":
            return finish(mc.impose_bounds({None: arg}, index=IX(), clip=clip, nearest=near))
        if call == "pos":
            return finish(mc.impose_bounds(arg, IX(), clip, near))
        if call == "omit":
            kw = {}
            if ix != [NONE]:
                kw["index"] = IX()
            if not p[0]:
                kw["clip"] = clip
            if not p[1]:
                kw["nearest"] = near
            if len(kw) == 3:
                raise NotApplicable("call")
            return finish(mc.impose_bounds(arg, **kw))
        if call == "setter":
            return finish(with_setters(mc.impose_bounds(arg, index=IX(), clip=not p[0], nearest=not p[1]),
                                       [("clip", (clip,)), ("nearest", (near,))]))
        return finish(mc.impose_bounds(arg, index=IX(), clip=clip, nearest=near))

    if k == "discrete":
        used.update(("num", "seq", "call"))
        samples = [f(s) for s in iv[0]]
        if "num" in opt and not changed_by_num([val(s, S, unit) for s in iv[0]], style, np):
            raise NotApplicable("num")
        seq = opt.get("seq", "canon")
        if seq == "tuple":
            samples = tuple(samples)
        elif seq == "ndarray":
            samples = np.array(samples)
        elif seq == "reversed":
            samples = samples[::-1]
        elif seq == "range":
            vs = [val(s, S, unit) for s in iv[0]]
            if not (all(float(v).is_integer() for v in vs) and all(b == a + 1 for a, b in zip(vs, vs[1:]))):
                raise NotApplicable("seq")
            samples = range(int(vs[0]), int(vs[-1]) + 1)
        elif seq != "canon":
            raise NotApplicable("seq")
        if call == "pos":
            return finish(mc.discrete(samples, IX()))
        if call == "omit":
            if ix != [NONE]:
                raise NotApplicable("call")
            return finish(mc.discrete(samples))
        if call == "setter":
            return finish(with_setters(mc.discrete([12345.0], index=IX()), [("samples", (samples,))]))
        if call == "setter-index":
            i = IX()
            if i is not None and not hasattr(i, "__len__"):
                raise NotApplicable("call")
            return finish(with_setters(mc.discrete(samples, index=other_index()), [("index", (i,))]))
        return finish(mc.discrete(samples=samples, index=IX()) if call == "kwall" else mc.discrete(samples, index=IX()))

    if k == "integers":
        used.update(("call", "ints"))
        ints = True if p[0] else float
        sp = opt.get("ints")
        if sp is not None:
            table = {True: {"int": int, "npint": np.int64}, float: {"false": False, "npfloat": np.float64}}[ints]
            if sp not in table:
                raise NotApplicable("ints")
            ints = table[sp]
        if call == "pos":
            return finish(mc.integers(ints, IX()))
        if call == "omit":
            if not p[0] and ix != [NONE]:
                raise NotApplicable("call")
            kw = {}
            if not p[0]:
                kw["ints"] = ints
            if ix != [NONE]:
                kw["index"] = IX()
            return finish(mc.integers(**kw))
        if call == "setter":
            return finish(with_setters(mc.integers(ints=(float if p[0] else True), index=IX()), [("type", (ints,))]))
        if call == "setter-index":
            i = IX()
            if i is not None and not hasattr(i, "__len__"):
                raise NotApplicable("call")
            return finish(with_setters(mc.integers(ints=ints, index=other_index()), [("index", (i,))]))
        return finish(mc.integers(ints=ints, index=IX()))

    if k in ("rounded", "precision"):
        used.update(("call", "digits"))
        fn = getattr(mc, k)
        digits = None if p[0] == NONE else p[0]
        sp = opt.get("digits")
        if sp == "zero-for-none":
            if digits is not None:
                raise NotApplicable("digits")
            digits = 0
        elif sp == "none-for-zero":
            if digits != 0:
                raise NotApplicable("digits")
            digits = None
        elif sp == "npint":
            if digits is None:
                raise NotApplicable("digits")
            digits = np.int64(digits)
        if call == "pos":
            return finish(fn(digits, IX()))
        if call == "omit":
            kw = {}
            if digits is not None:
                kw["digits"] = digits
            if ix != [NONE]:
                kw["index"] = IX()
            if len(kw) == 2:
                raise NotApplicable("call")
            return finish(fn(**kw))
        if call == "setter":
            return finish(with_setters(fn(digits=5, index=IX()), [("digits", (digits,) if digits is not None or sp else ())]))
        if call == "setter-index":
            i = IX()
            if i is not None and not hasattr(i, "__len__"):
                raise NotApplicable("call")
            return finish(with_setters(fn(digits=digits, index=other_index()), [("index", (i,))]))
        return finish(fn(digits=digits, index=IX()))

    if k == "unique":
        used.update(("num", "seq", "call"))
        full = [f(s) for s in iv[0]]
        if "num" in opt and not changed_by_num([val(s, S, unit) for s in iv[0]], style, np):
            raise NotApplicable("num")
        seq = opt.get("seq", "canon")
        if seq == "tuple":
            full = tuple(full)
        elif seq == "set":
            full = set(full)
        elif seq == "reversed":
            full = full[::-1]
        elif seq != "canon":
            raise NotApplicable("seq")
        return finish(mc.impose_unique(seq=full) if call == "kwall" else mc.impose_unique(full))

    if k in ("monotonic", "sorting"):
        used.update(("call",))
        fn = getattr(mc, k)
        asc, outer = flag(p[0]), flag(p[1])
        if call == "pos":
            return finish(fn(asc, outer, IX()))
        if call == "omit":
            kw = {}
            if not p[0]:
                kw["ascending"] = asc
            if p[1]:
                kw["outer"] = outer
            if ix != [NONE]:
                kw["index"] = IX()
            if len(kw) == 3:
                raise NotApplicable("call")
            return finish(fn(**kw))
        if call == "setter-index":
            i = IX()
            return finish(with_setters(fn(ascending=asc, outer=outer, index=other_index()), [("index", (i,))]))
        return finish(fn(ascending=asc, outer=outer, index=IX()))

    if k == "at":
        used.update(("num", "call", "target"))
        if "num" in opt and not changed_by_num([val(p[0], S, unit)], style, np):
            raise NotApplicable("num")
        idx = IX("list")
        t = f(p[0])
        tg = opt.get("target")
        if tg == "list1":
            t = [t]
        elif tg == "array1":
            t = np.array([t])
        elif tg is not None:
            raise NotApplicable("target")
        if call == "omit":
            if p[0] != 0 or tg:
                raise NotApplicable("call")
            return finish(mc.impose_at(idx))
        if call == "kwall":
            return finish(mc.impose_at(index=idx, target=t))
        return finish(mc.impose_at(idx, t))

    if k == "as":
        used.update(("num", "seq", "call", "offset"))
        seq = opt.get("seq", "canon")
        if seq == "canon":
            mask = [tuple(m) for m in iv]
        elif seq == "tuple":
            mask = tuple(tuple(m) for m in iv)
        elif seq == "lists":
            mask = [list(m) for m in iv]
        elif seq == "npints":
            if not iv:
                raise NotApplicable("seq")
            mask = [tuple(np.int64(i) for i in m) for m in iv]
        elif seq == "ndarray":
            if not iv:
                raise NotApplicable("seq")
            mask = np.array(iv, dtype=np.int64)
        elif seq == "set":
            if len(iv) > 1:
                raise NotApplicable("seq")           # (a set has no list order: only masks of at most one pair)
            mask = set(tuple(m) for m in iv)
        else:
            raise NotApplicable("seq")
        off = None if p[0] == NONE else f(p[0])
        osp = opt.get("offset")
        if osp == "zero-for-none":
            if off is not None:
                raise NotApplicable("offset")
            off = 0
        elif osp == "zerof-for-none":
            if off is not None:
                raise NotApplicable("offset")
            off = 0.0
        elif osp == "none-for-zero":
            if p[0] != 0:
                raise NotApplicable("offset")
            off = None
        if "num" in opt and (p[0] == NONE or not changed_by_num([val(p[0], S, unit)], style, np)):
            raise NotApplicable("num")
        if call == "omit":
            if off is not None:
                raise NotApplicable("call")
            return finish(mc.impose_as(mask))
        if call == "kwall":
            return finish(mc.impose_as(mask=mask, offset=off))
        return finish(mc.impose_as(mask, off))

    if k in STAT:
        used.update(("num", "call"))
        fn = {"mean": mc.with_mean, "var": mc.with_variance, "std": mc.with_std, "spread": mc.with_spread, "norm": mc.normalized}[k]
        if "num" in opt and not changed_by_num([val(p[0], S, unit)], style, np):
            raise NotApplicable("num")
        t = f(p[0])
        if call == "omit":
            if k != "norm" or val(p[0], S, unit) != 1.0:
                raise NotApplicable("call")
            return finish(fn())
        if call == "kwall":
            return finish(fn(mass=t) if k == "norm" else fn(target=t))
        return finish(fn(t))

    if k in ("masked", "partial"):
        used.update(("num", "call", "keys", "mask"))
        fn = mt.masked if k == "masked" else mt.partial
        if "num" in opt and not changed_by_num([val(m[1], S, unit) for m in iv], style, np):
            raise NotApplicable("num")
        items = [((np.int64(m[0]) if opt.get("keys") == "np" else m[0]), f(m[1])) for m in iv]
        if opt.get("keys") == "np" and not iv:
            raise NotApplicable("keys")
        msp = opt.get("mask")
        if msp == "reversed":
            if len(items) < 2:
                raise NotApplicable("mask")
            items = items[::-1]
        mask = dict(items)
        if msp in ("str", "str-blanks"):
            if k != "masked":
                raise NotApplicable("mask")
            mask = (" , " if msp == "str-blanks" else ",").join(("%d : %r" if msp == "str-blanks" else "%d:%r") % (m[0], float(val(m[1], S, unit))) for m in iv)
            if msp == "str-blanks":
                mask = " " + mask + " "
        elif msp in ("none", "omit"):
            if k != "masked" or iv:
                raise NotApplicable("mask")
            return finish(fn(None) if msp == "none" else fn())
        elif msp not in (None, "reversed"):
            raise NotApplicable("mask")
        return finish(fn(mask=mask) if call == "kwall" else fn(mask))

    if k == "sync":
        used.update(("num", "keys", "sync", "mask", "call"))
        form = p[0] if p else 0
        sy = opt.get("sync")
        if sy in ("tuple1", "tuple11", "tuple1f") and not any(m[2] == 0 for m in iv):
            raise NotApplicable("sync")
        if sy == "callable-id" and not any(m[2] == 0 or form == 3 for m in iv):
            raise NotApplicable("sync")
        if sy == "tuple3" and not (form == 0 and any(m[2] != 0 for m in iv)):
            raise NotApplicable("sync")
        if "num" in opt and not (form in (0, 3) and any(m[2] != 0 for m in iv)):
            raise NotApplicable("num")
        if opt.get("keys") == "np" and not iv:
            raise NotApplicable("keys")
        items = [((np.int64(m[0]) if opt.get("keys") == "np" else m[0]), sync_value(m, p, S, unit, opt, np)) for m in iv]
        if opt.get("mask") == "reversed":
            if len(items) < 2:
                raise NotApplicable("mask")
            items = items[::-1]
        elif opt.get("mask") is not None:
            raise NotApplicable("mask")
        return finish(mt.synchronized(mask=dict(items)) if call == "kwall" else mt.synchronized(dict(items)))

    if k == "clipped":
        used.update(("num", "open", "call"))
        inf = float("inf")
        if "num" in opt and not changed_by_num([val(p[0], S, unit), val(p[1], S, unit)], style, np):
            raise NotApplicable("num")
        if opt.get("open") == "inf" and not (p[0] == -INF or p[1] == INF):
            raise NotApplicable("open")
        lo = (-inf if opt.get("open") == "inf" else None) if p[0] == -INF else f(p[0])
        hi = (inf if opt.get("open") == "inf" else None) if p[1] == INF else f(p[1])
        ex = flag(p[2])
        if call == "pos":
            return finish(mt.clipped(lo, hi, ex))
        if call == "omit":
            kw = {}
            if lo is not None:
                kw["min"] = lo
            if hi is not None:
                kw["max"] = hi
            if p[2]:
                kw["exit"] = ex
            if len(kw) == 3:
                raise NotApplicable("call")
            return finish(mt.clipped(**kw))
        if call == "kwall":
            return finish(mt.clipped(min=lo, max=hi, exit=ex))
        return finish(mt.clipped(lo, hi, exit=ex))

    if k == "suppressed":
        used.update(("num", "call"))
        if "num" in opt and not changed_by_num([val(p[0], S, unit)], style, np):
            raise NotApplicable("num")
        tol = f(p[0])
        ex = flag(p[1])
        if call == "pos":
            return finish(mt.suppressed(tol, ex))
        if call == "omit":                      # the default tolerance 1e-8 (reachable on the nano lattice only)
            if val(p[0], S, unit) != 1e-8:
                raise NotApplicable("call")
            return finish(mt.suppressed(exit=ex) if p[1] else mt.suppressed())
        if call == "kwall":
            return finish(mt.suppressed(tol=tol, exit=ex, clip=True))
        return finish(mt.suppressed(tol, exit=ex))
    raise ValueError(k)


# ------------------------------------------------------------------------------------------ the tables
_IX = [("index=list", {"ix": "list"}), ("index=ndarray", {"ix": "ndarray"}), ("index=numpy-int-members", {"ix": "npints"}),
       ("index=set", {"ix": "set"}), ("index=range", {"ix": "range"}), ("index=bare-int", {"ix": "int"}),
       ("index=numpy-int", {"ix": "npint"})]
_NUM = [("numbers=int", {"num": "int"}), ("numbers=numpy-float64", {"num": "np64"}), ("numbers=numpy-float32", {"num": "np32"}),
        ("numbers=negative-zero", {"num": "negzero"})]
_CALL = [("call=positional", {"call": "pos"}), ("call=defaults-omitted", {"call": "omit"})]
VARIANTS = {
    "bounds": _IX + _NUM + _CALL + [
        ("call=setters(clip,nearest)", {"call": "setter"}), ("flags=0/1", {"flags": "int"}), ("open-side=inf", {"open": "inf"}),
        ("interval=list", {"seq": "list"}), ("intervals=tuple", {"seq": "tuple"}), ("intervals=one-element-list", {"seq": "wrap1"}),
        ("bounds=dict+index-filter", {"bform": "dict+index"}), ("bounds=dict{None:..}", {"bform": "dictNone"})],
    "discrete": _IX + _NUM + _CALL + [
        ("call=setter(samples)", {"call": "setter"}), ("call=setter(index)", {"call": "setter-index"}), ("call=all-keywords", {"call": "kwall"}),
        ("samples=tuple", {"seq": "tuple"}), ("samples=ndarray", {"seq": "ndarray"}), ("samples=reversed", {"seq": "reversed"}),
        ("samples=range", {"seq": "range"})],
    "integers": _IX + _CALL + [
        ("call=setter(type)", {"call": "setter"}), ("call=setter(index)", {"call": "setter-index"}), ("ints=int", {"ints": "int"}),
        ("ints=numpy.int64", {"ints": "npint"}), ("ints=False", {"ints": "false"}), ("ints=numpy.float64", {"ints": "npfloat"})],
    "rounded": _IX + _CALL + [
        ("call=setter(digits)", {"call": "setter"}), ("call=setter(index)", {"call": "setter-index"}), ("digits=0-for-None", {"digits": "zero-for-none"}),
        ("digits=None-for-0", {"digits": "none-for-zero"}), ("digits=numpy-int", {"digits": "npint"})],
    "unique": _NUM + [("set=tuple", {"seq": "tuple"}), ("set=set", {"seq": "set"}), ("set=reversed", {"seq": "reversed"}),
                      ("call=all-keywords", {"call": "kwall"})],
    "monotonic": _IX + _CALL + [("call=setter(index)", {"call": "setter-index"}), ("flags=0/1", {"flags": "int"})],
    "at": [("index=tuple", {"ix": "tuple"}), ("index=ndarray", {"ix": "ndarray"}), ("index=numpy-int-members", {"ix": "npints"}),
           ("index=set", {"ix": "set"}), ("index=range", {"ix": "range"})] + _NUM + [
        ("target=one-element-list", {"target": "list1"}), ("target=one-element-array", {"target": "array1"}),
        ("call=defaults-omitted", {"call": "omit"}), ("call=all-keywords", {"call": "kwall"})],
    "as": _NUM + [("mask=tuple", {"seq": "tuple"}), ("mask=list-of-lists", {"seq": "lists"}), ("mask=numpy-int-members", {"seq": "npints"}),
                  ("mask=ndarray", {"seq": "ndarray"}), ("mask=set", {"seq": "set"}), ("offset=0-for-None", {"offset": "zero-for-none"}),
                  ("offset=0.0-for-None", {"offset": "zerof-for-none"}), ("offset=None-for-0", {"offset": "none-for-zero"}),
                  ("call=defaults-omitted", {"call": "omit"}), ("call=all-keywords", {"call": "kwall"})],
    "stat": _NUM + [("call=defaults-omitted", {"call": "omit"}), ("call=all-keywords", {"call": "kwall"})],
    "masked": _NUM + [("keys=numpy-int", {"keys": "np"}), ("mask=text", {"mask": "str"}), ("mask=text-with-blanks", {"mask": "str-blanks"}),
                      ("mask=reversed-insertion-order", {"mask": "reversed"}), ("mask=None", {"mask": "none"}), ("mask=omitted", {"mask": "omit"}),
                      ("call=all-keywords", {"call": "kwall"})],
    "partial": _NUM + [("keys=numpy-int", {"keys": "np"}), ("mask=reversed-insertion-order", {"mask": "reversed"}), ("call=all-keywords", {"call": "kwall"})],
    "sync": [("scale=float", {"num": "float"}), ("scale=numpy-float32", {"num": "np32"}), ("keys=numpy-int", {"keys": "np"}),
             ("plain=(j,)", {"sync": "tuple1"}), ("plain=(j,1)", {"sync": "tuple11"}), ("plain=(j,1.0)", {"sync": "tuple1f"}),
             ("plain=(j,callable)", {"sync": "callable-id"}), ("scaled=3-tuple", {"sync": "tuple3"}),
             ("mask=reversed-insertion-order", {"mask": "reversed"}), ("call=all-keywords", {"call": "kwall"})],
    "clipped": _NUM + _CALL + [("flags=0/1", {"flags": "int"}), ("open-side=inf", {"open": "inf"}), ("call=all-keywords", {"call": "kwall"})],
    "suppressed": _NUM + _CALL + [("flags=0/1", {"flags": "int"}), ("call=all-keywords", {"call": "kwall"})],
}
VARIANTS["precision"] = VARIANTS["rounded"]
VARIANTS["sorting"] = VARIANTS["monotonic"]
for _k in STAT:
    VARIANTS[_k] = VARIANTS["stat"]
BY_NAME = dict((k, dict(v)) for k, v in VARIANTS.items())
CANONICAL = "canonical"

# input spellings (the canonical two -- list of python floats, float64 array -- are replayed for every case anyway)
INPUTS = ("ints-in-list", "tuple", "float32-array", "numpy-float64-list", "negative-zero-list", "negative-zero-array", "int64-array")
ASSIGNS_INTO_ARGUMENT = ("as", "partial", "sync")          # a tuple cannot be assigned into: TypeError on the unchanged tree


def make_input(xs, spelling, np, d=None, expected_integral=False, f32_ok=True, e=0):
    """the start vector `xs` (python floats) written as `spelling`; NotApplicable when it cannot be written that way"""
    if spelling == "list":
        return list(xs)
    if spelling == "array":
        return np.array(xs, dtype=float)
    if spelling == "ints-in-list":
        if not any(float(v).is_integer() and abs(v) < 2 ** 53 for v in xs):
            raise NotApplicable(spelling)
        if not -30 <= e <= 33 and all(float(v).is_integer() for v in xs):
            # an ALL-integer list only at the magnitudes 2^-30 .. 2^33 (an all-zero list at 2^993 adds nothing but overflows)
            raise NotApplicable(spelling)
        return [int(v) if (float(v).is_integer() and abs(v) < 2 ** 53) else v for v in xs]
    if spelling == "tuple":
        if d is not None and (d["k"] in ASSIGNS_INTO_ARGUMENT or (d["k"] in ("monotonic", "sorting") and d["ix"] != [NONE])):
            raise NotApplicable(spelling)
        return tuple(xs)
    if spelling == "float32-array":
        if not f32_ok or (d is not None and d["k"] in STAT) or not xs or any(float(np.float32(v)) != v for v in xs):
            raise NotApplicable(spelling)
        return np.array(xs, dtype=np.float32)
    if spelling == "numpy-float64-list":
        if not xs:
            raise NotApplicable(spelling)
        return [np.float64(v) for v in xs]
    if spelling in ("negative-zero-list", "negative-zero-array"):
        if not any(v == 0 for v in xs):
            raise NotApplicable(spelling)
        z = [-0.0 if v == 0 else v for v in xs]
        return z if spelling.endswith("list") else np.array(z, dtype=float)
    if spelling == "int64-array":
        if not xs or not expected_integral or not all(float(v).is_integer() and abs(v) < 2 ** 53 for v in xs):
            raise NotApplicable(spelling)
        return np.array([int(v) for v in xs], dtype=np.int64)
    raise NotApplicable(spelling)


def input_label(xs, spelling):
    if spelling == "ints-in-list" and xs and all(float(v).is_integer() for v in xs):
        return "int-list"
    return spelling


def f32_exact(S, e):
    """single precision holds every number of a case on a binary lattice at the magnitudes 2^-30 .. 2^33"""
    return S > 0 and (S & (S - 1)) == 0 and -30 <= e <= 33


def build(mc, mt, np, d, S, unit, name, as_int=False, f32_ok=True):
    """decorator for record d in the parameter spelling `name` (NotApplicable if it does not exist for d)"""
    if name == CANONICAL:
        return construct(mc, mt, np, d, S, unit, {}, as_int=as_int)
    return construct(mc, mt, np, d, S, unit, BY_NAME[d["k"]][name], as_int=as_int, f32_ok=f32_ok)


def magnitude(r, exps):
    """the exponent e of the magnitude 2^e at which the r-th case of a kind is replayed: every third case of a scale-free
    decorator (exps = the exponents the specification's header lists; None / empty: not scale-free) leaves the unit scale"""
    if exps and r % 3 == 0:
        return exps[(r // 3) % len(exps)]
    return 0


def pick(mc, mt, np, d, S, xs, r, di, e, expected_integral, cache=None):
    """deterministic rotation (r = running number of the case among the cases of its kind in this TLC run: the parameter
    spellings of the kind in turn, the input spellings once per round of those) -> (parameter spelling, decorator, input
    spelling, input object, xs * 2^e) or None when nothing but the canonical spelling exists for this case.  `cache` (a dict owned by the caller, one per
    TLC run) keeps the decorators already built: (di, e, spelling) -> decorator | None (not applicable)"""
    k = d["k"]
    unit = 2.0 ** e
    xu = [v * unit for v in xs]
    f32_ok = f32_exact(S, e)
    names = [CANONICAL] + [n for n, _ in VARIANTS[k]]
    start = r % len(names)
    pname = dec = None
    for j in range(len(names)):
        cand = names[(start + j) % len(names)]
        ck = (di, e, cand)
        if cache is not None and ck in cache:
            dec = cache[ck]
        else:
            try:
                dec = build(mc, mt, np, d, S, unit, cand, f32_ok=f32_ok)
            except NotApplicable:
                dec = None
            if cache is not None:
                cache[ck] = dec
        if dec is not None:
            pname = cand
            break
    istart = (r // len(names) + r) % len(INPUTS)
    iname = xin = None
    for j in range(len(INPUTS)):
        cand = INPUTS[(istart + j) % len(INPUTS)]
        try:
            xin = make_input(xu, cand, np, d, expected_integral, f32_ok, e)
            iname = cand
            break
        except NotApplicable:
            continue
    if iname is None:
        if pname == CANONICAL and e == 0:
            return None
        iname = "list" if r % 2 == 0 else "array"
        xin = make_input(xu, iname, np)
    return pname, dec, iname, xin, xu
