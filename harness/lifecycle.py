"""Shared pipeline for the solver-protocol properties (C04, C05, ...):

  scripts (random driver or TLC-generated)  ->  real solver under harness.record.Recorder  ->  event traces
  ->  TLC validates every trace against specs/solver/Trace_Lifecycle.tla (all invariants in every state)
  ->  rejected traces are re-validated one by one to find the first unexplainable event.
"""
import json, os, random, shutil, io, contextlib, math
from harness.tlc import run_tlc, scratch_dir, TLCError
from harness.record import Recorder, NONE, InjectedFault

KINDS = ["DE", "DE2", "NM", "PW"]


# ------------------------------------------------------------------------------------------------
# script alphabet (lists so they serialise):  ["step"] ["solve"] ["limits", g, e, new] ["cfg", what]
# ["evalmon", new, on] ["stepmon", kind] ["term", [gens...]] ["exit"] ["exit_in", k] ["finalize"]

def _reconf(rng):
    """one configuration call, the families equally likely"""
    fam = rng.choice(["limits", "cfg", "evalmon", "term", "exit", "exit_in", "finalize", "stepmon", "query"])
    if fam == "limits":
        return ["limits", rng.choice([NONE, 0, 1, 2, 3, 5]), rng.choice([NONE, 0, 1, 3, 7, 12, 30]), rng.random() < 0.5]
    if fam == "cfg":
        return ["cfg", rng.choice(["pen", "objchange", "cons", "ranges", "reducer"])]
    if fam == "evalmon":
        return ["evalmon", rng.random() < 0.5, rng.random() < 0.8]
    if fam == "term":
        return ["term", sorted(rng.sample(range(0, 9), rng.randint(0, 3)))]
    if fam == "exit_in":
        return ["exit_in", rng.randint(1, 3)]
    if fam == "stepmon":
        return ["stepmon", rng.choice(["plain", "verbose", "none", "null", "nullclass"])]
    return [fam]


def random_script(rng, kind, maxlen=8):
    """config prefix, then runs (Step/Solve) interleaved with re-configuration calls: every script
    re-configures a solver that already ran at least once"""
    ops = []
    n = rng.randint(3, maxlen)
    if rng.random() < 0.6:
        ops.append(["term", sorted(rng.sample(range(0, 7), rng.randint(0, 2)))])
    if rng.random() < 0.5:
        ops.append(["limits", rng.choice([NONE, 0, 1, 2, 3, 5]), rng.choice([NONE, 0, 1, 3, 7, 12, 30]), False])
    if rng.random() < 0.2:
        ops.append(["stepmon", rng.choice(["plain", "verbose", "none", "null"])])
    ops.append(["step"] if rng.random() < 0.8 else ["solve"])
    ops.append(_reconf(rng))
    while len(ops) < n:
        r = rng.random()
        if r < 0.50:
            ops.append(["step"])
        elif r < 0.60:
            ops.append(["solve"])
        else:
            ops.append(_reconf(rng))
    if ops[-1][0] not in ("step", "solve"):
        ops.append(["step"])
    # a Solve must be able to end: make sure a finite limit exists before it
    out = []
    bounded = False
    for op in ops:
        if op[0] == "limits":
            bounded = op[1] != NONE or op[2] != NONE
        if op[0] == "solve" and not bounded:
            out.append(["limits", 4, NONE, True])
            bounded = False
        out.append(op)
    return out


def kwify(script, phase=0):
    """the same script with configuration calls that immediately precede a Step / Solve handed over as keywords of
    that call (EvaluationMonitor= / StepMonitor= / penalty= / constraints=), every `phase`-th opportunity skipped;
    returns None if the script offers no opportunity"""
    def mergeable(op):
        return (op[0] == "evalmon" and not op[1]) or op[0] == "stepmon" or (op[0] == "cfg" and op[1] in ("pen", "cons"))
    def slot(op):
        return op[1] if op[0] == "cfg" else op[0]
    out, i, n, changed = [], 0, len(script), False
    while i < n:
        j = i
        seen = set()
        while j < n and mergeable(script[j]) and slot(script[j]) not in seen:
            seen.add(slot(script[j]))
            j += 1
        if j > i and j < n and script[j][0] in ("step", "solve") and len(script[j]) == 1 and (phase == 0 or (len(out) + phase) % 3):
            out.append([script[j][0], [list(o) for o in script[i:j]]])
            changed = True
            i = j + 1
        else:
            out.append(script[i])
            i += 1
    return out if changed else None


def _rounded(x):        # plateaus; exactly 0.0 on the unit cell around the origin
    return float(sum(round(float(xi)) ** 2 for xi in x))


def _shifted(x):        # negative energies: the minimum is -5.0
    return float(sum((float(xi) - 0.25) ** 2 for xi in x)) - 5.0


def _steps(x):          # integer-valued, zero on a half-space
    return float(sum(max(0, math.floor(float(xi))) for xi in x))


COSTS = {"sphere": None, "rounded": _rounded, "shifted": _shifted, "steps": _steps}


def run_script(kind, script, seed=0, dim=2, npop=4, cost=None, scripted_term=False):
    """execute a script on a real solver; returns the recorded event list (never raises for mystic errors);
    `cost` may name a member of COSTS (energies that are exactly zero, negative, integer-valued)"""
    if isinstance(cost, str):
        cost = COSTS[cost]
    rec = Recorder(kind, dim=dim, npop=npop, seed=seed, cost=cost, scripted_term=scripted_term)
    buf = io.StringIO()
    with contextlib.redirect_stdout(buf):
        for op in script:
            try:
                name = op[0]
                if name == "step":
                    rec.step(kw=op[1] if len(op) > 1 else None)
                elif name == "solve":
                    rec.solve(kw=op[1] if len(op) > 1 else None)
                elif name == "limits":
                    rec.limits(op[1], op[2], op[3])
                elif name == "cfg":
                    rec.cfg(op[1])
                elif name == "evalmon":
                    rec.evalmon(op[1], op[2])
                elif name == "stepmon":
                    rec.stepmon(op[1])
                elif name == "term":
                    rec.term(at=op[1])
                elif name == "exit":
                    rec.exit()
                elif name == "exit_in":
                    rec.exit_in(op[1])
                elif name == "finalize":
                    rec.finalize()
                elif name == "query":
                    rec.query()
                elif name == "fault_in":
                    rec.fault_in(op[1])
                else:
                    raise ValueError(op)
            except InjectedFault:
                break
            except Exception as ex:
                if not rec.events or rec.events[-1].get("ev") != "Raise":
                    rec.events.append({"ev": "Raise", "what": repr(ex)[:300], "op": op})
                break
    return rec.events


# ------------------------------------------------------------------------------------------------
TRACE_CFG = """SPECIFICATION TraceSpec
CONSTANTS Kinds = {"DE"}
  NP = 1
  Dim = 1
  DefG = 1
  DefE = 1
  MaxK = 1000000
  MaxCfg = 1000000
  MaxCalls = 1000000
  AsIs = FALSE
CONSTRAINT Accept
INVARIANT CounterFaithful
INVARIANT EvalMonFaithful
INVARIANT GensAreIterations
INVARIANT StoppedMonitorComplete
INVARIANT OneCallbackPerStep
INVARIANT NoOvershoot
INVARIANT GensNeverExceed
INVARIANT MsgTruthful
PROPERTY TraceIterOnlyIfAllowed
POSTCONDITION AllAccepted
CHECK_DEADLOCK FALSE
"""


LIFECYCLE = {"module": "solver/Trace_Lifecycle", "cfg": None}   # cfg filled below
OBJECTIVE_CFG = """SPECIFICATION TraceSpec
CONSTRAINT Accept
POSTCONDITION AllAccepted
CHECK_DEADLOCK FALSE
"""
OBJECTIVE = {"module": "solver/Trace_Objective", "cfg": OBJECTIVE_CFG}


PROP_INVARIANTS = {"C04": ("CounterFaithful", "EvalMonFaithful", "GensAreIterations", "StoppedMonitorComplete",
                           "OneCallbackPerStep"),
                   "C05": ("NoOvershoot", "GensNeverExceed", "MsgTruthful", "TraceIterOnlyIfAllowed")}


def waived(prop):
    """the lifecycle trace specification with the clauses and invariants of `prop` waived (Trace_Lifecycle.Waive):
    used to judge the rest of a trace on the other property once the faithful specification rejected it on `prop`"""
    cfg = "\n".join(l for l in TRACE_CFG.splitlines() if not any(l.split()[-1:] == [n] for n in PROP_INVARIANTS[prop])) + "\n"
    return {"module": "solver/Trace_Lifecycle", "cfg": cfg, "waive": prop}


def _validate_batch(traces, diag=False, timeout=1800, spec=None):
    spec = spec or LIFECYCLE
    d = scratch_dir()
    try:
        path = os.path.join(d, "traces.json")
        with open(path, "w") as f:
            json.dump(traces, f)
        cfgp = os.path.join(d, "Trace.cfg")
        with open(cfgp, "w") as f:
            f.write(spec["cfg"] or TRACE_CFG)
        env = {"TRACE_FILE": path}
        if diag:
            env["DIAG"] = "1"
        if spec.get("waive"):
            env["WAIVE"] = spec["waive"]
        try:
            r = run_tlc(spec["module"], cfg=cfgp, env=env, workers=1, timeout=timeout, heap="4g")
        except TLCError as ex:
            # TLC could not EVALUATE a trace (a recorded field has a value of a kind the specification cannot compare:
            # None where a number belongs, a float counter, ...).  That is a property of the recorded run, not of the
            # machinery: treat the batch as violated so that it is bisected down to the offending trace, which is then
            # reported as not evaluable.  (A time-out or a parse error of the specification is still a machinery failure.)
            msg = str(ex)
            if "timeout" in msg or "Parsing or semantic analysis failed" in msg or len(traces) == 0:
                raise
            from harness.tlc import TLCResult
            r = TLCResult(out=msg, wall_s=0.0, rc=1, cmd="")
            r.update(generated=0, distinct=0, depth=None, violated="TRACE-NOT-EVALUABLE", kind="invariant", ok=False, printed=[])
        return r
    finally:
        shutil.rmtree(d, ignore_errors=True)


MAX_DIAG = 24      # rejected traces diagnosed one by one per batch (each costs a TLC start)


def validate(traces, ck=None, name="Trace_Lifecycle", spec=None):
    """returns list of verdicts, one per trace: None (accepted) or dict(reason, at, event, invariant)"""
    verdicts = [None] * len(traces)
    if not traces:
        return verdicts
    r = _validate_batch(traces, spec=spec)
    if ck is not None:
        ck.mc(r, name)
    if r.violated and r.kind in ("invariant", "action-property"):
        # an invariant failed in some state of some trace: find which traces by validating singly
        rejected = list(range(len(traces)))
        inv_fail = True
    else:
        summ = [p for p in r.printed if isinstance(p, dict) and "accepted" in p]
        if not summ:
            raise TLCError("no acceptance summary from trace validation:\n" + r.out[-3000:])
        rejected = [i - 1 for i in summ[-1]["rejected"]]
        inv_fail = False
    if inv_fail:
        # bisect cheaply: validate each trace alone only when few, else chunks
        rejected = _bisect(traces, list(range(len(traces))), spec)
    for n, i in enumerate(rejected):
        if n < MAX_DIAG:
            verdicts[i] = diagnose(traces[i], spec)
        else:
            verdicts[i] = {"reason": "rejected", "at": None, "event": None, "prev": None,
                           "failing": ["rejected-not-diagnosed(more-than-%d-in-batch)" % MAX_DIAG]}
    return verdicts


def _bisect(traces, idxs, spec=None):
    """indices of traces that are not cleanly accepted (invariant violation or rejection)"""
    if not idxs:
        return []
    r = _validate_batch([traces[i] for i in idxs], spec=spec)
    bad_here = bool(r.violated)
    summ = [p for p in r.printed if isinstance(p, dict) and "accepted" in p]
    if not bad_here:
        return [idxs[j - 1] for j in summ[-1]["rejected"]] if summ else idxs
    if len(idxs) == 1:
        return idxs
    m = len(idxs) // 2
    return _bisect(traces, idxs[:m], spec) + _bisect(traces, idxs[m:], spec)


def diagnose(trace, spec=None):
    """validate one trace alone: longest matched prefix, the first unexplainable event and the names of
    the specification clauses that are false for it (or the violated invariant)"""
    r = _validate_batch([trace], diag=True, spec=spec)
    if r.violated == "TRACE-NOT-EVALUABLE":
        import re
        m = re.search(r"^Error: .*$|attempted to .*$|Attempted to .*$", r.out, re.M)
        return {"reason": "not-evaluable", "at": None, "event": None, "prev": None,
                "failing": ["event-not-enabled:trace-not-evaluable(%s)" % ((m.group(0) if m else "TLC evaluation error")[:120])]}
    if r.violated and r.kind in ("invariant", "action-property"):
        import re
        nstates = len(re.findall(r"^State \d+:", r.out, re.M))
        at = nstates  # state n corresponds to event index n (state 1 = after New)
        ev = trace[at] if at < len(trace) else None
        return {"reason": "invariant", "invariant": r.violated, "at": at, "event": ev,
                "prev": trace[at - 1] if at - 1 >= 0 else None, "failing": ["invariant:" + r.violated]}
    summ = [p for p in r.printed if isinstance(p, dict) and "accepted" in p]
    if summ and not summ[-1]["rejected"]:
        return None
    pre = summ[-1]["prefix"][0] if summ and summ[-1]["prefix"] else 0
    pre = max(pre, 2)                       # l = 1-based index of the next event to consume
    probes = [p for p in r.printed if isinstance(p, dict) and "probe" in p and p["at"] == pre]
    failing = sorted(set(x for p in probes for x in p["failing"]))
    at = pre - 1
    ev = trace[at] if at < len(trace) else None
    if not failing:
        failing = ["event-not-enabled:%s" % (ev or {}).get("ev", "end-of-trace")]
    return {"reason": "unexplainable-event", "at": at, "event": ev, "failing": failing,
            "prev": trace[at - 1] if at >= 1 else None}


def classify(kind, verdict, trace):
    """a stable key: solver kind + the false specification clauses"""
    ev = verdict.get("event") or {}
    if ev.get("ev") == "Raise":
        return "%s:raise:%s" % (kind, (ev.get("what") or "")[:60])
    return "%s:%s" % (kind, "+".join(verdict.get("failing") or ["?"]))
