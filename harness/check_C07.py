"""C07 -- results depend only on configuration and seed, not on call order or on the schedule of the map.

Specification: specs/solver/Schedule.tla (+ MC_Schedule.tla and its cfgs).

design      PART A ConfigConfluence: one action per Set* call writing its slot of the configuration record plus the
            side effects the code has on other slots; TLC explores every interleaving of every admissible K-subset of
            a pool of 17 calls (K = 4, 5, 6) around the fixed [Seed; SetRandomInitialPoints] unit, before the first
            step and on a live solver, for DE/DE2/NM/Powell, and checks Confluent (final record incl. ghost generator
            position and ghost evaluation count = the canonical order's), SamePopulation, NoEvalDuringConfig,
            OwnSlotWritten; eight as-is-violating designs (a Set* wiping another slot, re-seeding, drawing, resampling
            the population, evaluating the cost, resolving a default from the current population, the premises
            dropped) are refuted.  PART B ScheduleIndependence: a map whose N <= 4 work items start, overlap and
            complete in any order, results stored by index; DE2 selection and the ensemble reduction (last member with
            bestEnergy <= current, ties) and the step / solve drivers; ScheduleIndependence, ResultsByIndex,
            ModesAgree, ResultAsSolve, LastMinimum hold; consuming results in completion order, scanning the members
            in completion order (< and <=), reducing with <, skipping the last reduction are refuted.
spec->code  (i) every order TLC emits for the selected call sets is executed on the real solver: the projected
            configuration after the last call must equal the record TLC predicts, the cost must not have been called,
            the generator states must agree with the canonical order's, and the FULL trajectory of the following steps
            (population, energies, best, counters, monitors, limits, generator states after every Step) must equal
            the canonical order's bit for bit;  (ii) DifferentialEvolutionSolver2 under maps that EXECUTE the
            schedules TLC emits (every completion order of 4 items inline and through a real thread pool whose
            start/completion order is forced, overlapping executions, seeded shuffles / free threads / forked
            processes for larger populations): the trajectory after every Step must equal the serial one exactly;
            (iii) Lattice/Buckshot ensembles with Nelder-Mead / Powell members under the same scheduled maps, Solve()
            vs repeated Step() vs Solve(step=True): result, counters and per-member results identical.
"""
import sys, os, io, random, time, contextlib, shutil, warnings
import numpy as np
from harness.core import Check, tier_seed, assert_repo, main_guard
from harness.tlc import run_tlc
from harness import ensemble_support as S
from harness import c07_support as C
from harness import c07_wrappers

NONE, STAR = -1, -2
DEFG, DEFE = 1000, 100000
BASE_SEED = 987654321

RULE = ("design: TLC explores every interleaving of every admissible K-subset (K=4,5,6) of 17 Set* calls around the "
        "fixed seed+initial-points unit (before the first step and on a live solver, 4 solver kinds) and every "
        "start/overlap/completion schedule of a map with <= 4 work items (DE2 selection; ensemble reduction, step vs "
        "solve drivers); cases: (i) a configuration script (solver kind x template x call order x settings catalogue) "
        "executed on the real solver and compared with the record TLC predicts and, bit for bit, with the trajectory "
        "of the canonical order; (ii) a DE2 run under a map executing a TLC schedule, compared after every Step with "
        "the serial run; (iii) an ensemble run (mode x schedule) compared with the serial Solve(). non-trivial = the "
        "call order differs from the canonical one / the schedule completes out of index order or overlaps work items "
        "/ the ensemble run is step-wise or out of order")


def new_check(a):
    ck = Check("C07", "model_checking", a.tier, a.seed, rule=RULE)
    ck.dry = bool(getattr(a, "dry", False))
    if ck.dry:
        ck.outdir = os.path.join(scratch(), "out")      # self-test: replay artefacts are scratch too
    return ck


def quiet():
    return contextlib.redirect_stdout(io.StringIO())


# =========================================================================================
# TLC jobs
# =========================================================================================
A_WIT = [("wit_cons_wipes_pen", "Confluent"), ("wit_term_reseeds", "Confluent"),
         ("wit_limits_eager_default", "Confluent"), ("wit_ranges_resample", "SamePopulation|Confluent"),
         ("wit_penalty_draws_once", "Confluent"), ("wit_obj_evaluates", "NoEvalDuringConfig"),
         ("wit_premise_dropped_draws", "Confluent"), ("wit_premise_dropped_relative_limits", "Confluent")]
B_WIT = [("asis_de2_completion", "ScheduleIndependence"), ("asis_ens_scan_completion_lt", "ScheduleIndependence"),
         ("asis_ens_scan_completion_le", "ScheduleIndependence"), ("asis_ens_lt", "ModesAgree"),
         ("asis_ens_skip_final", "ResultAsSolve")]
VAC = ["NeverNonCanonicalOrder", "NeverStaleByConfig", "NeverPendingFlushed", "NeverDrawsInConfig", "NeverOutOfOrder",
       "NeverTwoRunning", "NeverReplaced", "NeverBestImproves", "NeverTie", "NeverBestChangesLate"]


def tlc_jobs(a, light=False):
    """(group, cfg name, workers, expected refutation or None)"""
    thorough = a.tier == "thorough"
    w = max(1, min(a.jobs // 2, 4))
    jobs = [("emitA", "cfg4_quick", 1, None), ("emitA", "cfg5_quick", 1, None), ("emitA", "cfg5d", 1, None),
            ("emitB", "emit2", 1, None), ("emitB", "emit3", 1, None), ("emitB", "emit4", 1, None)]
    if light:
        return jobs
    jobs += [("design", "de2_quick", 1, None), ("design", "ens_quick", 1, None)]
    jobs += [("design", n, 1, e) for n, e in A_WIT + B_WIT]
    if thorough:
        # vacuity companions (each must be refuted) and the bounded-concurrency schedule set (a subset of emit4's)
        jobs += [("design", "vac_" + v, 1, v) for v in VAC] + [("emitB", "emit4w2", 1, None)]
        jobs += [("emitA", "cfg6_thorough", 1, None), ("emitA", "cfg6b_thorough", 1, None),
                 ("emitA", "cfg4_thorough", 1, None), ("emitA", "cfg4b_thorough", 1, None),
                 ("design", "cfg4_all", w, None), ("design", "cfg5_all", w, None),
                 ("design", "de2_thorough", w, None), ("design", "de2_thorough3", w, None),
                 ("design", "ens_thorough", w, None), ("design", "ens_thorough3", w, None),
                 ("design", "ens_thorough_k12", w, None)]
    return jobs


def run_jobs(a, light=False):
    from concurrent.futures import ThreadPoolExecutor
    jobs = tlc_jobs(a, light)
    jobs.sort(key=lambda j: -j[2])

    def one(j):
        group, name, workers, expect = j
        r = run_tlc("solver/MC_Schedule", cfg="MC_Schedule_%s.cfg" % name, workers=workers, timeout=3000, heap="6g")
        return group, name, r, expect
    out = {"emitA": [], "emitB": [], "design": []}
    with ThreadPoolExecutor(max(1, min(len(jobs), max(2, min(a.jobs, 12) // 2)))) as ex:
        for group, name, r, expect in ex.map(one, jobs):
            out[group].append((name, r, expect))
    return out


def design(ck, results):
    for group in ("design", "emitA", "emitB"):
        for name, r, expect in results[group]:
            ck.mc(r, name)
            if expect is None:
                if r.violated:
                    ck.violation("spec:" + r.violated, {"cfg": name, "tlc": r.out[-3000:]},
                                 "design invariant %s violated in Schedule.tla (%s)" % (r.violated, name))
            else:
                ck.extra.setdefault("designs_tlc_must_refute", {})[name] = r.violated
                if not r.violated or r.violated not in expect.split("|"):
                    ck.violation("spec:vacuous:" + name, {"cfg": name, "violated": r.violated},
                                 "%s: TLC was expected to refute %s but reported %s" % (name, expect, r.violated))


# =========================================================================================
# (i) configuration scripts
# =========================================================================================
CATALOGUES = [
    {"name": "rosen3", "dim": 3, "NP": 6, "cost": C.cost_rosen, "vcost": C.vcost_rosen,
     "lo": [-2.0, -2.0, -2.0], "hi": [2.0, 2.0, 2.0], "ilo": [-1.5, -1.5, -1.5], "ihi": [1.5, 1.5, 1.5],
     "cons": C.cons_grid, "pen": C.pen_sum},
    {"name": "bowl2", "dim": 2, "NP": 4, "cost": C.cost_bowl, "vcost": C.vcost_bowl,
     "lo": [-1.0, -0.5], "hi": [0.75, 2.0], "ilo": [-2.0, -2.0], "ihi": [2.0, 2.0],      # starts outside the ranges
     "cons": C.cons_first_nonneg, "pen": C.pen_const},
    {"name": "abs4", "dim": 4, "NP": 8, "cost": C.cost_abs, "vcost": C.vcost_abs,
     "lo": [-3.0, -3.0, -3.0, -3.0], "hi": [3.0, 3.0, 3.0, 3.0], "ilo": [-1.0, 0.0, -2.0, 1.0], "ihi": [1.0, 2.0, 0.0, 3.0],
     "cons": C.cons_tie, "pen": C.pen_abs},
    {"name": "steps3", "dim": 3, "NP": 5, "cost": C.cost_steps, "vcost": C.vcost_steps,
     "lo": [-1.0, -1.0, -1.0], "hi": [1.0, 1.0, 1.0], "ilo": [-1.0, -1.0, -1.0], "ihi": [1.0, 1.0, 1.0],
     "cons": C.cons_grid, "pen": C.pen_abs},
]
NSTEPS = {"DE": 5, "DE2": 5, "NM": 6, "PW": 3}
SCRATCH = [None]


def scratch():
    if SCRATCH[0] is None or not os.path.isdir(SCRATCH[0]):
        import tempfile
        SCRATCH[0] = tempfile.mkdtemp(prefix="c07_", dir="/dev/shm" if os.path.isdir("/dev/shm") else None)
    return SCRATCH[0]


def cleanup():
    if SCRATCH[0] and os.path.isdir(SCRATCH[0]):
        shutil.rmtree(SCRATCH[0], ignore_errors=True)
    SCRATCH[0] = None


def make_solver(kind, cat):
    import mystic.solvers as ms
    if kind == "DE":
        return ms.DifferentialEvolutionSolver(cat["dim"], cat["NP"])
    if kind == "DE2":
        return ms.DifferentialEvolutionSolver2(cat["dim"], cat["NP"])
    if kind == "NM":
        return ms.NelderMeadSimplexSolver(cat["dim"])
    return ms.PowellDirectionalSolver(cat["dim"])


class Ctx(object):
    """the concrete objects one script hands to the Set* calls"""
    def __init__(self, s, cat, cost):
        from mystic.monitors import Monitor
        import mystic.termination as mt
        self.cat, self.cost = cat, cost
        self.emon, self.smon, self.smon2 = Monitor(), Monitor(), Monitor()
        self.term1 = mt.VTR(1e-12)
        self.term2 = mt.Or(mt.ChangeOverGeneration(1e-14, 60), mt.CollapseAt(None, 1e-9, 60))
        self.map = C.EventMap([], name="harness-serial")
        self.savefile = os.path.join(scratch(), "save_%d.pkl" % os.getpid())
        self.default_term = s._termination
        self.default_smon = s._stepmon


def do_call(s, cid, ctx):
    cat = ctx.cat
    if cid == 1:
        s.SetEvaluationLimits(3, None)
    elif cid == 2:
        s.SetEvaluationLimits(None, 60)
    elif cid == 3:
        s.SetEvaluationLimits(2, None, new=True)
    elif cid == 4:
        s.SetTermination(ctx.term1)
    elif cid == 5:
        s.SetConstraints(cat["cons"])
    elif cid == 6:
        s.SetPenalty(cat["pen"])
    elif cid == 7:
        s.SetStrictRanges(list(cat["lo"]), list(cat["hi"]))
    elif cid == 8:
        s.SetStrictRanges(list(cat["lo"]), list(cat["hi"]), tight=True)
    elif cid == 9:
        s.SetStrictRanges(list(cat["lo"]), list(cat["hi"]), clip=True)
    elif cid == 10:
        s.SetReducer(C.reducer_add)
    elif cid == 11:
        s.SetEvaluationMonitor(ctx.emon)
    elif cid == 12:
        s.SetGenerationMonitor(ctx.smon)
    elif cid == 13:
        s.SetMapper(ctx.map)
    elif cid == 14:
        s.SetSaveFrequency(2, ctx.savefile)
    elif cid == 15:
        s.SetObjective(ctx.cost)
    elif cid == 16:
        s.SetTermination(ctx.term2)
    elif cid == 17:
        s.SetGenerationMonitor(ctx.smon2, new=True)
    else:
        raise ValueError(cid)


def project(s, ctx, base, kind):
    """the real solver's configuration as the record of Schedule.tla (99 = none of the values the model knows)"""
    from mystic.tools import isNull
    from mystic.python_map import python_map
    cat = ctx.cat

    def lim(v, default, tag):
        if v is None:
            return NONE
        if isinstance(v, str):
            return STAR if v == "*" else 99
        if default is not None and v == default:
            return tag
        return int(v)

    def tri(v):
        return NONE if v is None else (1 if v is True else 0 if v is False else 99)

    def is_default_callable(f):
        return getattr(f, "__name__", "") == "<lambda>" and getattr(f, "__module__", "") == "mystic.abstract_solver"
    d = {}
    d["limG"] = lim(s._maxiter, base.get("defG"), DEFG)
    d["limE"] = lim(s._maxfun, base.get("defE"), DEFE)
    d["term"] = 0 if s._termination is ctx.default_term else 1 if s._termination is ctx.term1 else \
        2 if s._termination is ctx.term2 else 99
    d["coll"] = int(bool(s._collapse))
    d["cons"] = 1 if s._constraints is cat["cons"] else 0 if is_default_callable(s._constraints) else 99
    d["pen"] = 1 if s._penalty is cat["pen"] else 0 if is_default_callable(s._penalty) else 99
    d["red"] = 0 if s._reducer is None else 1
    d["strict"] = int(bool(s._useStrictRange))
    if len(s._strictMin) == 0 and len(s._strictMax) == 0:
        d["rid"] = 0
    else:
        d["rid"] = 1 if (list(map(float, s._strictMin)) == cat["lo"] and list(map(float, s._strictMax)) == cat["hi"]) else 99
    d["tight"], d["clip"] = tri(s._useTightRange), tri(s._useClipRange)
    sb = s._strictbounds
    d["sb"] = 0 if is_default_callable(sb) else 1 if getattr(sb, "__module__", "") == "mystic.coupler" else \
        2 if getattr(sb, "__module__", "") == "mystic.constraints" else 99
    d["emon"] = 0 if isNull(s._evalmon) else 1 if s._evalmon is ctx.emon else 99
    d["nem"] = len(s._evalmon)
    d["smon"] = 0 if s._stepmon is ctx.default_smon else 1 if s._stepmon is ctx.smon else \
        2 if s._stepmon is ctx.smon2 else 99
    d["nsm"] = len(s._stepmon)
    d["pend"] = int(s._energy_history is not None)
    mp = getattr(s, "_map", python_map)
    d["map"] = 0 if mp is python_map else 1 if mp is ctx.map else 99
    d["saveG"] = NONE if s._saveiter is None else int(s._saveiter)
    d["saveF"] = 0 if s._state is None else 1 if s._state == ctx.savefile else 99
    d["obj"] = 0 if s._cost[1] is None else 1 if s._cost[1] is ctx.cost else 99
    d["live"] = int(bool(s._live))
    zero = all(float(v) == 0.0 for p in s.population for v in p)
    d["pop"] = 0 if zero else 1
    d["popAt"] = NONE if zero else (0 if C.canon(s.population) == base.get("pop") else 99)
    d["quiet"] = int(s.evaluations) == base["fcalls"] and C.ncalls() == base["evals"]
    d["drew"] = C.rng_fingerprint() != base.get("rng")
    return d


class PremiseError(Exception):
    """the harness failed to establish a premise of the model (machinery failure, not a violation)"""


def exec_script(kind, cat, seed, pre, at, order, nsteps=None):
    """run one configuration script on the real solver.
    returns (projected final configuration, generator fingerprint after the configuration, trajectory)"""
    nsteps = nsteps or NSTEPS[kind]
    C.reset()
    random.seed(BASE_SEED)
    np.random.seed(BASE_SEED % (2 ** 32))
    cost = cat["vcost"] if 10 in order else cat["cost"]
    s = make_solver(kind, cat)
    ctx = Ctx(s, cat, cost)
    base = {"fcalls": 0, "evals": 0}

    def unit():
        random.seed(seed)
        np.random.seed(seed % (2 ** 32))
        s.SetRandomInitialPoints(list(cat["ilo"]), list(cat["ihi"]))
        base["pop"] = C.canon(s.population)
        base["rng"] = C.rng_fingerprint()
    with quiet(), warnings.catch_warnings():
        warnings.simplefilter("ignore")
        if pre == 1:
            unit()
            s.Step(cost)
            s.Step()
            if not s._live or len(s._stepmon) != (1 if kind == "PW" else 2):
                raise PremiseError("the two pre-steps of the live-solver template were not both taken (%s, %s, seed %d)" % (
                    kind, cat["name"], seed))
            base.update({"pop": C.canon(s.population), "rng": C.rng_fingerprint(), "fcalls": int(s.evaluations),
                         "evals": C.ncalls(), "defG": s._maxiter, "defE": s._maxfun})
        for k, cid in enumerate(order):
            if pre == 0 and k == at:
                unit()
            do_call(s, cid, ctx)
        if pre == 0 and at == len(order):
            unit()
        proj = project(s, ctx, base, kind)
        fp = C.rng_fingerprint()
        traj = []
        for i in range(nsteps):
            msg = s.Step(cost)
            traj.append(C.snap(s, msg))
    return proj, fp, traj


def compare_final(proj, final):
    """slots in which the real configuration differs from the record TLC predicts (rng, fcalls, evals are ghosts of
    the model: they are compared through `drew` and `quiet`)"""
    bad = []
    for k, v in final.items():
        if k in ("rng", "fcalls", "evals"):
            continue
        if proj.get(k) != v:
            bad.append((k, v, proj.get(k)))
    return bad


def group_scripts(printed):
    """{(kind, pre, at, frozenset(calls)): [script, ...]} from the EmitA lines"""
    groups = {}
    for p in printed:
        if isinstance(p, dict) and "order" in p and "final" in p:
            groups.setdefault((p["kind"], p["pre"], p["at"], tuple(sorted(p["order"]))), []).append(p)
    return groups


def run_group(task):
    """executed in a worker process: one group of scripts (all emitted orders of one call set in one template) under one
    catalogue and seed.  Returns a compact report."""
    key, scripts, cat_idx, seed, corrupt = task
    kind, pre, at, calls = key
    cat = CATALOGUES[cat_idx]
    rep = {"key": key, "cat": cat["name"], "seed": seed, "n": 0, "nontrivial": 0, "violations": [], "sample": None,
           "drew": False}
    canonical = list(calls)
    ref = None
    try:
        ref = exec_script(kind, cat, seed, pre, at, canonical)
    except PremiseError:
        raise
    except Exception as ex:
        rep["violations"].append(("config:%s:raised:%s" % (kind, type(ex).__name__),
                                  {"kind": kind, "pre": pre, "at": at, "order": canonical, "catalogue": cat["name"],
                                   "seed": seed, "error": repr(ex)},
                                  "%s script %s (template pre=%d at=%d, catalogue %s) raised %r" % (
                                      kind, canonical, pre, at, cat["name"], ex)))
        return rep
    for sc in scripts:
        order = list(sc["order"])
        final = dict(sc["final"])
        final["drew"], final["quiet"] = bool(sc["drew"]), bool(sc["quiet"])
        if corrupt and order != canonical and rep["n"] == 3:
            final["pen"] = 1 - final["pen"]
        rep["n"] += 1
        nontrivial = order != canonical
        rep["nontrivial"] += int(nontrivial)
        info = {"kind": kind, "pre": pre, "at": at, "order": order, "canonical": canonical, "catalogue": cat["name"],
                "seed": seed}
        try:
            proj, fp, traj = exec_script(kind, cat, seed, pre, at, order) if order != canonical else ref
        except PremiseError:
            raise
        except Exception as ex:
            rep["violations"].append(("config:%s:raised:%s" % (kind, type(ex).__name__), dict(info, error=repr(ex)),
                                      "%s script %s raised %r" % (kind, order, ex)))
            continue
        rep["drew"] = rep["drew"] or proj["drew"]
        bad = compare_final(proj, final)
        if bad:
            slots = "+".join(sorted(b[0] for b in bad))
            what = "cost-evaluated-or-counted" if any(b[0] == "quiet" for b in bad) else "final-config"
            rep["violations"].append(("config:%s:%s:%s" % (kind, what, slots),
                                      dict(info, differences_slot_spec_mystic=bad, spec_final=final, mystic=proj),
                                      "%s after the calls %s (unit at %d, pre=%d, %s): configuration differs from the "
                                      "record Schedule.tla predicts in %s" % (kind, order, at, pre, cat["name"], bad[:4])))
        if fp != ref[1]:
            which = "python" if fp[0] != ref[1][0] else "numpy"
            rep["violations"].append(("config:%s:rng-state-depends-on-order" % kind, dict(info, generator=which),
                                      "%s: the %s generator state after the calls %s differs from the one after the "
                                      "canonical order %s (same seed at the same place)" % (kind, which, order, canonical)))
        diff = C.first_difference(ref[2], traj)
        if diff is not None:
            k, f = diff
            rep["violations"].append(("config:%s:trajectory:%s" % (kind, f),
                                      dict(info, step=k + 1, field=f, reference=ref[2][k].get(f) if k < len(ref[2]) else None,
                                           got=traj[k].get(f) if k < len(traj) else None),
                                      "%s: Step %d after the calls %s (unit at %d, pre=%d, %s, seed %d): %s differs from the "
                                      "run configured in the order %s" % (kind, k + 1, order, at, pre, cat["name"], seed, f,
                                                                          canonical)))
        if rep["sample"] is None and nontrivial:
            rep["sample"] = {"script": dict(info), "spec_final": sc["final"], "mystic_final": proj,
                             "steps_compared": len(traj), "last_bestEnergy": traj[-1]["bestEnergy"]}
    return rep


def select_groups(a, emitA):
    """which emitted groups are executed, under which catalogue / seed: [(key, scripts, catalogue, seed)]"""
    thorough = a.tier == "thorough"
    rng = random.Random(a.seed * 1000003 + 7)
    tasks = []
    by_cfg = {name: group_scripts(r.printed) for name, r, _ in emitA}

    def seed_for():
        return rng.randrange(1, 2 ** 31 - 1)

    def add(groups, per_template, sample_orders=None, ncat=1):
        templates = {}
        for key in sorted(groups):
            templates.setdefault(key[:3], []).append(key)
        for t in sorted(templates):
            keys = templates[t]
            chosen = keys if per_template is None or per_template >= len(keys) else rng.sample(keys, per_template)
            for key in chosen:
                scripts = groups[key]
                if sample_orders is not None and sample_orders < len(scripts):
                    scripts = rng.sample(scripts, sample_orders)
                for c in rng.sample(range(len(CATALOGUES)), ncat):
                    tasks.append((key, scripts, c, seed_for(), False))
    if "cfg4_quick" in by_cfg:
        add(by_cfg["cfg4_quick"], 6 if thorough else 2)
    if "cfg5_quick" in by_cfg:
        add(by_cfg["cfg5_quick"], None, ncat=2 if thorough else 1)
    if "cfg5d" in by_cfg:
        add(by_cfg["cfg5d"], None, sample_orders=None if thorough else 10)
    if thorough:
        add(by_cfg.get("cfg6_thorough", {}), None, ncat=2)
        add(by_cfg.get("cfg6b_thorough", {}), None)
        add(by_cfg.get("cfg4_thorough", {}), 28)
        add(by_cfg.get("cfg4b_thorough", {}), 12)
    return tasks


def config_binding(ck, a, emitA, corrupt=False, pool=None):
    tasks = select_groups(a, emitA)
    if corrupt and tasks:
        k = next((i for i, t in enumerate(tasks) if 6 in t[0][3] and len(t[1]) > 4), 0)
        tasks[k] = tasks[k][:4] + (True,)
    limit = getattr(a, "max_groups", None)
    if limit:
        # self-test: a spread over kinds and templates
        rng = random.Random(a.seed + 99)
        rng.shuffle(tasks)
        keep, seen = [], {}
        for t in sorted(tasks, key=lambda t: not t[4]):
            k = t[0][:3]
            if seen.get(k, 0) < limit:
                seen[k] = seen.get(k, 0) + 1
                keep.append(t)
        tasks = keep
    t0 = time.time()
    reps = pool.map(run_group, tasks) if pool is not None else [run_group(t) for t in tasks]
    stats = {}
    drew = 0
    for rep in reps:
        kind, pre, at, calls = rep["key"]
        tname = "pre-run/unit@%d" % at if pre == 0 else "live-solver"
        stats.setdefault(kind, {}).setdefault(tname, 0)
        stats[kind][tname] += rep["n"]
        drew += int(rep["drew"])
        ck.case(nontrivial=False, n=rep["n"] - rep["nontrivial"])
        for j in range(rep["nontrivial"]):
            ck.case(nontrivial=True, key=("cfg", kind, pre, at, calls, rep["cat"], j))
        ck.trace(rep["n"])
        for key, detail, what in rep["violations"]:
            ck.violation(key, detail, what)
        if rep["sample"] is not None and (kind, pre) in (("DE", 0), ("PW", 1)) and len(calls) >= 5:
            ck.sample({"configuration_script": rep["sample"]}, limit=2)
    ck.extra["config_scripts_by_kind_template"] = stats
    ck.extra["config_groups"] = len(reps)
    ck.extra["config_groups_with_draws_during_configuration"] = drew
    ck.extra["config_wall_s"] = round(time.time() - t0, 1)


# =========================================================================================
# (ii) DE2 under scheduled maps
# =========================================================================================
DE2_CONFIGS = [
    {"name": "rosen3/NP4", "dim": 3, "NP": 4, "cost": C.cost_rosen, "lo": None, "cons": None, "pen": None, "strategy": None},
    {"name": "steps3/NP4+ranges+pen", "dim": 3, "NP": 4, "cost": C.cost_steps, "lo": [-1.0] * 3, "hi": [1.0] * 3,
     "cons": None, "pen": C.pen_abs, "strategy": None},
    {"name": "bowl2/NP4+cons/Rand1Exp", "dim": 2, "NP": 4, "cost": C.cost_bowl, "lo": None, "cons": C.cons_grid, "pen": None,
     "strategy": "Rand1Exp"},
    {"name": "abs4/NP4+ranges+cons", "dim": 4, "NP": 4, "cost": C.cost_abs, "lo": [-3.0] * 4, "hi": [3.0] * 4,
     "cons": C.cons_tie, "pen": None, "strategy": "RandToBest1Bin"},
]
DE2_BIG = [
    {"name": "rosen3/NP7", "dim": 3, "NP": 7, "cost": C.cost_rosen, "lo": None, "cons": None, "pen": None, "strategy": None},
    {"name": "steps3/NP10+ranges", "dim": 3, "NP": 10, "cost": C.cost_steps, "lo": [-1.0] * 3, "hi": [1.0] * 3,
     "cons": C.cons_grid, "pen": C.pen_abs, "strategy": "Rand1Bin"},
]


def run_de2(cfg, seed, mapper, steps=4):
    import mystic.solvers as ms
    import mystic.termination as mt
    C.reset()
    random.seed(seed)
    np.random.seed(seed % (2 ** 32))
    s = ms.DifferentialEvolutionSolver2(cfg["dim"], cfg["NP"])
    s.SetRandomInitialPoints([-1.5] * cfg["dim"], [1.5] * cfg["dim"])
    if cfg["lo"] is not None:
        s.SetStrictRanges(list(cfg["lo"]), list(cfg["hi"]))
    if cfg["cons"] is not None:
        s.SetConstraints(cfg["cons"])
    if cfg["pen"] is not None:
        s.SetPenalty(cfg["pen"])
    s.SetTermination(mt.VTR(1e-300))
    if mapper is not None:
        s.SetMapper(mapper)
    kw = {}
    if cfg["strategy"]:
        import mystic.strategy as st
        kw["strategy"] = getattr(st, cfg["strategy"])
    traj = []
    with quiet(), warnings.catch_warnings():
        warnings.simplefilter("ignore")
        for i in range(steps):
            msg = s.Step(cfg["cost"], **kw)
            traj.append(C.snap(s, msg))
    return traj


def strip(traj, fields):
    return [{k: v for k, v in t.items() if k not in fields} for t in traj]


def schedules_of(emitB, n):
    evs = []
    for name, r, _ in emitB:
        for p in r.printed:
            if isinstance(p, dict) and p.get("n") == n and "ev" in p:
                evs.append((name, p))
    # distinct event sequences
    seen, out = set(), []
    for name, p in evs:
        k = tuple(p["ev"])
        if k not in seen:
            seen.add(k)
            out.append(p)
    return out


def run_de2_task(task):
    cfg, seed, kinds, use_sched, corrupt, plan = task
    rep = {"cfg": cfg["name"], "seed": seed, "n": 0, "nontrivial": 0, "violations": [], "sample": None, "threads": 0}
    ref = run_de2(cfg, seed, C.EventMap([], name="serial"))
    n = cfg["NP"]

    def check(label, traj, sched=None, ignore=()):
        rep["n"] += 1
        a_, b_ = (strip(ref, ignore), strip(traj, ignore)) if ignore else (ref, traj)
        if corrupt and rep["n"] == 5:
            a_ = [dict(t) for t in a_]
            a_[-1]["bestEnergy"] = "corrupted"
        diff = C.first_difference(a_, b_)
        if diff is not None:
            k, f = diff
            rep["violations"].append(("de2:%s:%s" % (label.split(":")[0], f),
                                      {"config": cfg["name"], "seed": seed, "map": label, "schedule": sched, "step": k + 1,
                                       "field": f, "serial": a_[k].get(f) if k < len(a_) else None,
                                       "got": b_[k].get(f) if k < len(b_) else None},
                                      "DE2 %s seed %d under %s %s: Step %d %s differs from the serial run" % (
                                          cfg["name"], seed, label, sched if sched else "", k + 1, f)))
    for kind in kinds:
        if kind == "python_map":
            check("python_map", run_de2(cfg, seed, None))
        elif kind == "fork":
            check("forked-processes", run_de2(cfg, seed, C.fork_map), ignore=("real_calls",))
        elif kind == "free-threads":
            for w in (2, 3, n):
                check("free-threads:%d" % w, run_de2(cfg, seed, C.FreeThreadMap(w)))
                rep["nontrivial"] += 1
        elif kind == "shuffled":
            for k in range(8):
                check("shuffled:%d" % k, run_de2(cfg, seed, C.ShuffleMap(seed + k)))
                rep["nontrivial"] += 1
        elif kind == "forced-random":
            r = random.Random(seed)
            for k in range(6):
                orders = []
                for c in range(4):
                    o = list(range(1, n + 1))
                    r.shuffle(o)
                    # all items start (in index order), then complete in the forced order
                    orders.append(list(range(1, n + 1)) + [-i for i in o])
                mp = C.EventMap(orders, mode="threads", name="forced")
                check("forced-threads:%d" % k, run_de2(cfg, seed, mp), sched=orders)
                rep["nontrivial"] += 1
                rep["threads"] += 1
    for j, (mode, idx) in enumerate(plan if use_sched else []):
        evs = [SCHED[n][(idx + c) % len(SCHED[n])]["ev"] for c in range(4)]
        mp = C.EventMap(evs, mode=mode, name="tlc-schedule")
        traj = run_de2(cfg, seed, mp)
        if mp.misfits or any(list(x) != list(y) for x, y in zip(mp.executed, evs)):
            rep["violations"].append(("machinery:schedule-not-executed", {"wanted": evs, "executed": mp.executed},
                                      "the map did not execute the TLC schedule"))
        seq = C.EventMap.sequential(evs[0])
        label = ("inline" if (mode == "auto" and seq) else "threads") + ":" + ("ordered" if seq else "overlapping")
        check(label, traj, sched=evs)
        nt = evs[0] != C.serial_events(n)
        rep["nontrivial"] += int(nt)
        rep["threads"] += int(not (mode == "auto" and seq))
        if rep["sample"] is None and not seq:
            rep["sample"] = {"de2": cfg["name"], "seed": seed, "tlc_schedules_of_the_4_map_calls": evs,
                             "executed": mp.executed, "bestEnergy_after_4_steps": traj[-1]["bestEnergy"]}
    return rep


SCHED = {}


def de2_binding(ck, a, emitB, corrupt=False, pool=None):
    thorough = a.tier == "thorough"
    rng = random.Random(a.seed * 7919 + 3)
    for n in (2, 3, 4):
        SCHED[n] = schedules_of(emitB, n)
    s4 = SCHED[4]
    seq_idx = [i for i, p in enumerate(s4) if C.EventMap.sequential(p["ev"])]
    ovl_idx = [i for i, p in enumerate(s4) if not C.EventMap.sequential(p["ev"])]
    ck.extra["tlc_schedules"] = {str(n): len(SCHED[n]) for n in SCHED}
    ck.extra["tlc_schedules_4_items_sequential"] = len(seq_idx)
    light = getattr(a, "light", False)
    tasks = []
    cfgs = DE2_CONFIGS if (thorough or not light) else DE2_CONFIGS[:2]
    for ci, cfg in enumerate(cfgs):
        for rep_ in range(2 if thorough else 1):
            seed = rng.randrange(1, 2 ** 31 - 1)
            plan = [("auto", i) for i in seq_idx] + [("threads", i) for i in seq_idx]
            if thorough and rep_ == 0:
                plan += [("threads", i) for i in ovl_idx]
            elif thorough:
                plan += [("threads", i) for i in rng.sample(ovl_idx, min(len(ovl_idx), 500))]
            else:
                plan += [("threads", i) for i in rng.sample(ovl_idx, min(len(ovl_idx), 30 if light else 90))]
            # split into chunks so that the work spreads over the pool
            chunk = 260
            for k in range(0, len(plan), chunk):
                kinds = ["python_map", "fork"] if k == 0 else []
                tasks.append((cfg, seed, kinds, True, corrupt and ci == 0 and k == 0, plan[k:k + chunk]))
    for cfg in DE2_BIG:
        seed = rng.randrange(1, 2 ** 31 - 1)
        tasks.append((cfg, seed, ["python_map", "shuffled", "free-threads", "forced-random", "fork"], False, False, []))
    t0 = time.time()
    if pool is not None:
        reps = pool.map(run_de2_task_pool, [(t, {n: SCHED[n] for n in SCHED}) for t in tasks])
    else:
        reps = [run_de2_task(t) for t in tasks]
    tot = thr = 0
    for ri, rep in enumerate(reps):
        tot += rep["n"]
        thr += rep["threads"]
        ck.case(nontrivial=False, n=rep["n"] - rep["nontrivial"])
        for j in range(rep["nontrivial"]):
            ck.case(nontrivial=True, key=("de2", rep["cfg"], rep["seed"], ri, j))
        ck.trace(rep["n"])
        for key, detail, what in rep["violations"]:
            ck.violation(key, detail, what)
        if rep["sample"] is not None:
            ck.sample({"de2_under_tlc_schedule": rep["sample"]}, limit=4)
    ck.extra["de2_runs_compared"] = tot
    ck.extra["de2_runs_through_thread_pool"] = thr
    ck.extra["de2_wall_s"] = round(time.time() - t0, 1)


def run_de2_task_pool(arg):
    task, sched = arg
    SCHED.update(sched)
    return run_de2_task(task)


# =========================================================================================
# (iii) ensembles: schedules x step-wise / run-to-completion
# =========================================================================================
ENS_CONFIGS = [
    {"name": "lattice2x2/NM/plateau", "kind": "lattice", "dim": 2, "nbins": [2, 2], "n": 4, "nested": "NM", "cost": "plateau",
     "bounds": [(-1.5, 1.5), (-1.5, 1.5)], "termG": 5, "limG": None, "cons": False, "pen": False},
    {"name": "buckshot4/NM/bowl", "kind": "buckshot", "dim": 2, "n": 4, "nested": "NM", "cost": "bowl",
     "bounds": [(-3.0, 3.0), (-3.0, 3.0)], "termG": None, "limG": 6, "cons": False, "pen": False},
    {"name": "buckshot3/PW/steps", "kind": "buckshot", "dim": 2, "n": 3, "nested": "PW", "cost": "steps",
     "bounds": [(-1.5, 1.5), (0.0, 3.0)], "termG": 3, "limG": None, "cons": False, "pen": False},
    {"name": "lattice3x1/PW/plateau", "kind": "lattice", "dim": 2, "nbins": [3, 1], "n": 3, "nested": "PW", "cost": "plateau",
     "bounds": [(-1.5, 1.5), (-1.5, 1.5)], "termG": None, "limG": 2, "cons": False, "pen": False},
    {"name": "lattice2x2/NM/steps+cons+pen", "kind": "lattice", "dim": 2, "nbins": [2, 2], "n": 4, "nested": "NM", "cost": "steps",
     "bounds": [(-3.0, 0.0), (0.0, 3.0)], "termG": 4, "limG": None, "cons": True, "pen": True},
    {"name": "buckshot2/NM/far", "kind": "buckshot", "dim": 3, "n": 2, "nested": "NM", "cost": "far",
     "bounds": [(-1.5, 1.5)] * 3, "termG": None, "limG": 4, "cons": False, "pen": False},
    # an INTEGER number of bins (what the lattice() one-liner passes): the layout is drawn at random BEFORE the members
    # run (randomly_bin), from the same seeded generator in every mode
    {"name": "lattice#4/NM/bowl", "kind": "lattice", "dim": 3, "nbins": 4, "n": 4, "nested": "NM", "cost": "bowl",
     "bounds": [(-1.5, 1.5)] * 3, "termG": None, "limG": 3, "cons": False, "pen": False},
    {"name": "lattice#3/PW/plateau", "kind": "lattice", "dim": 2, "nbins": 3, "n": 3, "nested": "PW", "cost": "plateau",
     "bounds": [(-1.5, 1.5), (0.0, 3.0)], "termG": 2, "limG": None, "cons": False, "pen": False},
    # no limits given and members that run LONGER than the defaults an ensemble would resolve for itself (10*nDim
    # generations): whose limits the members run under must not depend on how the run is driven or observed
    {"name": "lattice2x1/NM/bowl-long", "kind": "lattice", "dim": 2, "nbins": [2, 1], "n": 2, "nested": "NM", "cost": "bowl",
     "bounds": [(-3.0, 3.0), (-3.0, 3.0)], "termG": 27, "limG": None, "cons": False, "pen": False},
    {"name": "buckshot2/PW/bowl-long", "kind": "buckshot", "dim": 2, "n": 2, "nested": "NM", "cost": "far",
     "bounds": [(-3.0, 3.0), (-3.0, 3.0)], "termG": 24, "limG": None, "cons": False, "pen": False},
]


def run_ensemble(cfg, seed, mapper, mode):
    """mode: "solve" | "step" (Step() until it reports a stop) | "stepsolve" (Solve(step=True)) | "stepquery" (the
    user's loop `while not solver.Terminated(): solver.Step(cost)`, with read-only queries between the steps)"""
    import mystic.solvers as ms
    import mystic.termination as mt
    S.reset()
    random.seed(seed)
    np.random.seed(seed % (2 ** 32))
    if cfg["kind"] == "lattice":
        s = ms.LatticeSolver(cfg["dim"], cfg["nbins"])
    else:
        s = ms.BuckshotSolver(cfg["dim"], cfg["n"])
    s.SetNestedSolver({"NM": ms.NelderMeadSimplexSolver, "PW": ms.PowellDirectionalSolver}[cfg["nested"]])
    s.SetStrictRanges([b[0] for b in cfg["bounds"]], [b[1] for b in cfg["bounds"]])
    if cfg["cons"]:
        s.SetConstraints(S.cons_grid)
    if cfg["pen"]:
        s.SetPenalty(S.pen_half)
    if cfg["limG"] is not None:
        s.SetEvaluationLimits(cfg["limG"], None)
    s.SetTermination(S.gen_term(cfg["termG"]) if cfg["termG"] is not None else mt.VTR(1e-300))
    s.SetMapper(mapper)
    cost = S.COSTS[cfg["cost"]]
    rounds = 0
    with quiet(), warnings.catch_warnings():
        warnings.simplefilter("ignore")
        if mode == "solve":
            s.Solve(cost, disp=0)
            rounds = 1
        elif mode == "stepsolve":
            s.Solve(cost, disp=0, step=True)
        elif mode == "stepquery":
            # queries are observations: asking a solver whether it has terminated (also BEFORE its first step), for its
            # best, its counters or its history must not change what it does next
            while not s.Terminated():
                s.Step(cost, disp=0)
                rounds += 1
                _ = (s.Terminated(info=True), s.Terminated(disp=False, all=True), s.bestEnergy, C.canon(s.bestSolution),
                     s.evaluations, s.generations, len(s.energy_history), s._all_evals)
                if rounds > 300:
                    break
        else:
            while True:
                msg = s.Step(cost, disp=0)
                rounds += 1
                if msg or rounds > 300:
                    break
        stopped = bool(s.Terminated())
    try:
        bi = s._allSolvers.index(s._bestSolver) + 1
    except ValueError:
        bi = 0
    per = {}
    for (mb, x, v) in S.LOG:
        per[mb] = per.get(mb, 0) + 1
    obs = {"bestSolution": C.canon(s.bestSolution), "bestEnergy": C.canon(s.bestEnergy),
           "evaluations": int(s.evaluations), "generations": int(s.generations), "total_evals": int(s._total_evals),
           "best_member": bi, "members": len(s._allSolvers),
           "member_bestEnergy": C.canon(list(s._all_bestEnergy)), "member_bestSolution": C.canon(list(s._all_bestSolution)),
           "member_evals": C.canon(list(s._all_evals)), "member_iters": C.canon(list(s._all_iters)),
           "member_real_calls": tuple(per.get(i + 1, 0) for i in range(len(s._allSolvers))),
           "real_calls": len(S.LOG), "stopped": stopped,
           "energy_history": C.canon(list(s.energy_history)), "solution_history": C.canon(list(s.solution_history))}
    return obs, rounds


def run_ens_task(arg):
    (cfg, seed, plan, corrupt), sched = arg
    SCHED.update(sched)
    n = cfg["n"]
    rep = {"cfg": cfg["name"], "seed": seed, "n": 0, "nontrivial": 0, "violations": [], "sample": None, "ties": 0}
    ref, _ = run_ensemble(cfg, seed, C.EventMap([], name="serial"), "solve")
    es = list(ref["member_bestEnergy"])
    rep["ties"] = int(es.count(min(es, key=float)) > 1) if es else 0

    def check(mode, label, obs, sched_=None):
        rep["n"] += 1
        exp = ref
        if corrupt and rep["n"] == 4:
            exp = dict(ref, total_evals=ref["total_evals"] + 1)
        bad = sorted(k for k in exp if exp[k] != obs.get(k))
        if bad:
            rep["violations"].append(("ensemble:%s:%s:%s" % (cfg["kind"], mode, "+".join(bad)),
                                      {"config": cfg, "seed": seed, "mode": mode, "map": label, "schedule": sched_,
                                       "differences": {k: {"serial_solve": exp[k], "got": obs.get(k)} for k in bad}},
                                      "%s seed %d, %s under %s %s: %s differ(s) from the serial Solve()" % (
                                          cfg["name"], seed, mode, label, sched_ if sched_ else "", ", ".join(bad))))
    # the two other drivers under the serial map
    for mode in ("step", "stepsolve", "stepquery"):
        obs, rounds = run_ensemble(cfg, seed, C.EventMap([], name="serial"), mode)
        check(mode, "serial", obs)
        rep["nontrivial"] += 1
    for (emode, idx, modes) in plan:
        for mode in modes:
            evs = [SCHED[n][(idx + c) % len(SCHED[n])]["ev"] for c in range(7)]
            mp = C.EventMap(evs, mode=emode, name="tlc-schedule")
            obs, rounds = run_ensemble(cfg, seed, mp, mode)
            if mp.misfits or any(list(x) != list(y) for x, y in zip(mp.executed, evs)):
                rep["violations"].append(("machinery:schedule-not-executed", {"wanted": evs, "executed": mp.executed},
                                          "the map did not execute the TLC schedule"))
            seq = C.EventMap.sequential(evs[0])
            label = ("inline" if (emode == "auto" and seq) else "threads") + ":" + ("ordered" if seq else "overlapping")
            check(mode, label, obs, sched_=evs[:max(1, min(rounds, 3))])
            rep["nontrivial"] += int(mode != "solve" or evs[0] != C.serial_events(n))
            if rep["sample"] is None and not seq and mode == "step":
                rep["sample"] = {"ensemble": cfg["name"], "seed": seed, "mode": mode, "map_calls": rounds,
                                 "tlc_schedules_first_calls": evs[:2], "result": {k: obs[k] for k in (
                                     "bestEnergy", "best_member", "total_evals", "member_bestEnergy", "member_evals")}}
    return rep


def ensemble_binding(ck, a, emitB, corrupt=False, pool=None):
    thorough = a.tier == "thorough"
    light = getattr(a, "light", False)
    rng = random.Random(a.seed * 104729 + 11)
    for n in (2, 3, 4):
        SCHED[n] = schedules_of(emitB, n)
    tasks = []
    cfgs = ENS_CONFIGS if not light else ENS_CONFIGS[:3]
    for ci, cfg in enumerate(cfgs):
        n = cfg["n"]
        sn = SCHED[n]
        seq_idx = [i for i, p in enumerate(sn) if C.EventMap.sequential(p["ev"])]
        ovl_idx = [i for i, p in enumerate(sn) if not C.EventMap.sequential(p["ev"])]
        for rep_ in range(2 if thorough else 1):
            seed = rng.randrange(1, 2 ** 31 - 1)
            allm = ("solve", "step")
            plan = [("auto", i, allm) for i in seq_idx]
            k_thr = len(seq_idx) if thorough else min(len(seq_idx), 6)
            plan += [("threads", i, allm) for i in rng.sample(seq_idx, k_thr)]
            k_ovl = min(len(ovl_idx), 400 if thorough else (10 if light else 24))
            plan += [("threads", i, allm) for i in rng.sample(ovl_idx, k_ovl)]
            plan += [("threads", i, ("stepsolve",)) for i in rng.sample(ovl_idx, min(len(ovl_idx), 6 if thorough else 2))]
            chunk = 40
            for k in range(0, len(plan), chunk):
                tasks.append((cfg, seed, plan[k:k + chunk], corrupt and ci == 0 and k == 0))
    t0 = time.time()
    args = [(t, {n: SCHED[n] for n in SCHED}) for t in tasks]
    reps = pool.map(run_ens_task, args) if pool is not None else [run_ens_task(x) for x in args]
    tot = ties = 0
    for ri, rep in enumerate(reps):
        tot += rep["n"]
        ties += rep["ties"]
        ck.case(nontrivial=False, n=rep["n"] - rep["nontrivial"])
        for j in range(rep["nontrivial"]):
            ck.case(nontrivial=True, key=("ens", rep["cfg"], rep["seed"], ri, j))
        ck.trace(rep["n"])
        for key, detail, what in rep["violations"]:
            ck.violation(key, detail, what)
        if rep["sample"] is not None:
            ck.sample({"ensemble_under_tlc_schedule": rep["sample"]}, limit=6)
    ck.extra["ensemble_runs_compared"] = tot
    ck.extra["ensemble_task_chunks_with_tied_members"] = ties
    ck.extra["ensemble_wall_s"] = round(time.time() - t0, 1)


# =========================================================================================
def make_pool(a):
    import multiprocessing as mp
    n = max(1, min(a.jobs, 12 if a.tier == "thorough" else 8))
    if n == 1:
        return None
    return mp.get_context("fork").Pool(n)


def explore(ck, a, cache=None, light=False, corrupt=None):
    res = cache if cache else run_jobs(a)
    if not light:
        design(ck, res)
    else:
        for group in ("emitA", "emitB"):
            for name, r, _ in res[group]:
                if r.violated:
                    ck.violation("spec:" + r.violated, {"cfg": name}, "design invariant %s violated (%s)" % (r.violated, name))
    scratch()                # one scratch directory, created before the fork so that the workers share it
    pool = make_pool(a)      # forked AFTER any in-memory mutation of mystic, so the workers see it
    try:
        config_binding(ck, a, res["emitA"], corrupt=(corrupt == "final-config"), pool=pool)
        de2_binding(ck, a, res["emitB"], corrupt=(corrupt == "de2-reference"), pool=pool)
        ensemble_binding(ck, a, res["emitB"], corrupt=(corrupt == "ensemble-reference"), pool=pool)
    finally:
        if pool is not None:
            pool.close()
            pool.join()
        cleanup()
    ck.exhaustive = False
    ck.assumptions = [
        "premise 'same seed, same initial population': the unit [random.seed(s); numpy.random.seed(s); "
        "SetRandomInitialPoints] sits at the same place of every order of a script; calls that draw random numbers "
        "(SetStrictRanges(tight=True) builds its symbolic constraint from random test points) are only permuted in "
        "scripts whose unit is first or last -- Schedule.tla refutes confluence when this premise is dropped; the check "
        "does not demand that a Set* call draws nothing, only that the generator state does not depend on the order",
        "premise 'same settings': the calls of one script write distinct slots; SetEvaluationLimits(new=True) is "
        "relative to the counters at call time, so it is not combined with SetGenerationMonitor(new=True) on a solver "
        "that already stepped (the two do not commute by their documented meaning; refuted by TLC when the premise is dropped); monitors are handed over empty",
        "trajectory = population, popEnergy, bestSolution, bestEnergy, trialSolution, generations, evaluations, real "
        "cost calls, both monitors, energy/solution history, resolved limits, _live, Step's message, Powell's direction "
        "set and internals, Python and NumPy generator states -- after every Step, compared exactly (floats by repr)",
        "the configuration record is read through private attributes (_maxiter, _constraints, _strictbounds.__module__, ...); "
        "the model's ghost generator position is compared as 'moved since the unit / equal across orders'",
        "DE2 reference = the same solver under a serial harness map (with python_map DE2 additionally feeds the evaluation "
        "monitor; without an evaluation monitor python_map is compared too); thread maps really overlap the cost calls, "
        "start and completion order forced by a condition variable to the TLC event sequence",
        "ensemble members are Nelder-Mead / Powell (no random numbers while running); the member's SetInitialPoints draws "
        "unused random numbers inside the work item, so the global generator state after an ensemble run is not compared",
        "process-based maps: pathos/multiprocess are not installed; a fork()-per-work-item map stands in for DE2 only "
        "(cost calls made in children are not counted, 'real cost calls' is excluded there); ensembles are not run under processes",
        "selected call sets / schedules: quick executes every emitted order of seeded 4-subsets of 9 calls, of one 5-set "
        "and samples of a 5-set with the drawing call; thorough every order of two 6-sets, two 5-sets and 28 + 12 4-subsets "
        "per template of a 13-call and an 8-call pool, and every one of the 2520 schedules of 4 work items"]
    if not light:
        c07_wrappers.part(ck, a)     # (iv) the one-line wrappers against the scripts Wrappers.tla says they denote


# =========================================================================================
# self-test: in-memory mutants of mystic that break C07 and pass the pinned tests
# =========================================================================================
def mutants():
    import mystic.abstract_solver as AS
    import mystic.differential_evolution as DEM
    import mystic.abstract_ensemble_solver as AE
    from harness.srcpatch import patch
    A = AS.AbstractSolver
    E = AE.AbstractEnsembleSolver
    D2 = DEM.DifferentialEvolutionSolver2
    m = []
    m.append(("SetTermination re-seeds the generators",
              lambda: patch(A, "SetTermination", "        self._termination = termination\n        self._collapse = False\n",
                            "        self._termination = termination\n        from mystic.tools import random_seed; random_seed(123)\n"
                            "        self._collapse = False\n")))
    m.append(("SetPenalty silently draws one random number",
              lambda: patch(A, "SetPenalty", "return self._update_objective()", "random.random(); return self._update_objective()")))

    def wipe():
        u1 = patch(A, "SetConstraints", "return self._update_objective()",
                   "self._penalty = lambda x: 0.0; return self._update_objective()")
        u2 = patch(DEM.DifferentialEvolutionSolver, "SetConstraints", "return # doesn't use wrap_nested",
                   "self._penalty = lambda x: 0.0; return")
        u3 = patch(D2, "SetConstraints", "return # doesn't use wrap_nested", "self._penalty = lambda x: 0.0; return")
        return lambda: (u1(), u2(), u3())
    m.append(("SetConstraints wipes a previously set penalty", wipe))
    m.append(("SetEvaluationLimits resolves its default from the population it finds (before SetInitialPoints: none)",
              lambda: patch(A, "SetEvaluationLimits", "        # handle if new (reset counter, instead of extend counter)\n",
                            "        if self._maxfun is None and not new:\n"
                            "            self._maxfun = 3 * len([p for p in self.population if any(p)]) or None\n"
                            "        if self._maxiter is None and not new:\n"
                            "            self._maxiter = len([p for p in self.population if any(p)]) or None\n")))
    m.append(("SetStrictRanges re-samples the population inside the new ranges",
              lambda: patch(A, "SetStrictRanges", "        self._useStrictRange = True\n        self._strictMin = min\n",
                            "        self.SetRandomInitialPoints(list(min), list(max))\n"
                            "        self._useStrictRange = True\n        self._strictMin = min\n")))
    m.append(("SetGenerationMonitor drops the evaluation monitor",
              lambda: patch(A, "SetGenerationMonitor", "        self.energy_history   = None # sync with self._stepmon\n",
                            "        self._evalmon = Null()\n        self.energy_history   = None # sync with self._stepmon\n")))
    m.append(("SetObjective evaluates the cost once to validate it",
              lambda: patch(A, "SetObjective", "        self._cost = (None, cost, ExtraArgs)\n",
                            "        cost([0.5]*self.nDim, *(ExtraArgs or ()))\n        self._cost = (None, cost, ExtraArgs)\n")))
    m.append(("DE2 consumes the map results in completion order",
              lambda: patch(D2, "_Step", "        trialEnergy = self._map(cost, self.trialSolution, **self._mapconfig)\n",
                            "        trialEnergy = self._map(cost, self.trialSolution, **self._mapconfig)\n"
                            "        import harness.c07_support as _c07\n"
                            "        if len(_c07.LAST['order']) == len(trialEnergy):\n"
                            "            trialEnergy = [trialEnergy[i - 1] for i in _c07.LAST['order']]\n")))
    m.append(("ensemble reduction uses < instead of <=",
              lambda: patch(E, "_AbstractEnsembleSolver__update_bestSolver", "if solver.bestEnergy <= energy:",
                            "if solver.bestEnergy < energy:")))
    m.append(("ensemble reduction scans the members in map completion order with <",
              lambda: patch(E, "_AbstractEnsembleSolver__update_bestSolver",
                            "        for solver in self._allSolvers[:]: #XXX: slice needed?\n            if solver is None: continue\n"
                            "            energy = getattr(self._bestSolver,'bestEnergy',self.bestEnergy)\n"
                            "            if solver.bestEnergy <= energy:\n",
                            "        import harness.c07_support as _c07\n"
                            "        _o = _c07.LAST['order'] if len(_c07.LAST['order']) == len(self._allSolvers) else range(1, len(self._allSolvers) + 1)\n"
                            "        for solver in [self._allSolvers[i - 1] for i in _o]:\n            if solver is None: continue\n"
                            "            energy = getattr(self._bestSolver,'bestEnergy',self.bestEnergy)\n"
                            "            if solver.bestEnergy < energy:\n")))
    def skip_final():
        u1 = patch(E, "_Step", "        # update state from bestSolver\n        self._AbstractEnsembleSolver__update_state()\n",
                   "        if not all(s.Terminated() for s in self._allSolvers):\n"
                   "            self._AbstractEnsembleSolver__update_state()\n")
        u2 = patch(E, "Terminated", "        self._AbstractEnsembleSolver__update_state()\n", "        pass\n")
        return lambda: (u1(), u2())
    m.append(("step-wise mode skips the reduction of the last round (in _Step and in Terminated's refresh)", skip_final))
    m.append(("ensemble stores the returned members in completion order",
              lambda: patch(E, "_AbstractEnsembleSolver__update_allSolvers",
                            "        while results: #XXX: option to not save allSolvers? skip this and _copy\n",
                            "        import harness.c07_support as _c07\n"
                            "        if len(_c07.LAST['order']) == len(results):\n"
                            "            results[:] = [results[i - 1] for i in _c07.LAST['order']]\n"
                            "        while results: #XXX: option to not save allSolvers? skip this and _copy\n")))
    return m


def selftest(a):
    import types
    a2 = types.SimpleNamespace(tier="quick", seed=a.seed, jobs=min(a.jobs, 8), dry=True, max_groups=1, light=True)
    cache = run_jobs(a2, light=True)
    missed = 0

    def attempt(name, corrupt=None):
        ck = new_check(a2)
        buf = io.StringIO()
        with contextlib.redirect_stdout(buf):
            try:
                explore(ck, a2, cache=cache, light=True, corrupt=corrupt)
                ck.finish()
            except Exception as ex:
                print("raised", repr(ex))
                ck.viol_keys["raised:%s" % type(ex).__name__] = 1
                ck.violations += 1
        classes = sorted(ck.viol_keys)
        caught = ck.violations > 0
        print("SELFTEST %s: %s   [%d violations: %s]" % (name, "caught" if caught else "MISSED", ck.violations,
                                                           "; ".join(classes)[:300]))
        sys.stdout.flush()
        return caught
    ck = new_check(a2)
    with contextlib.redirect_stdout(io.StringIO()):
        explore(ck, a2, cache=cache, light=True)
    print("SELFTEST baseline (unchanged tree): %s" % ("clean" if ck.violations == 0 else "NOT CLEAN %s" % sorted(ck.viol_keys)))
    missed += 0 if ck.violations == 0 else 1
    for name, mk in mutants():
        undo = mk()
        try:
            missed += 0 if attempt(name) else 1
        finally:
            if callable(undo):
                undo()
    for what in ("final-config", "de2-reference", "ensemble-reference"):
        missed += 0 if attempt("corrupted expected value (%s)" % what, corrupt=what) else 1
    missed += c07_wrappers.selftest(a2)     # mutants of the wrappers' source, one falsified value of Wrappers.tla
    return 1 if missed else 0


def main():
    a = tier_seed()
    assert_repo()
    if a.selftest:
        return selftest(a)
    ck = new_check(a)
    explore(ck, a)
    return ck.finish()


if __name__ == "__main__":
    main_guard(main)
