"""Run real mystic solvers under a recorder: one event per spec action, for TLC trace validation.

The recorder owns everything mystic calls *into* (cost, constraints, penalty, termination, callback,
monitors), so its counts are independent of mystic's own bookkeeping:
  real      number of calls of the user's cost
  calls     the call log [(x tuple, value)]
  ncb       number of callback invocations
Events (dicts) are appended to `self.events`; see specs/solver/Trace_Lifecycle.tla for their meaning.
"""
import math, random
import numpy as np

NONE, STAR = -1, -2


def lim(v):
    return NONE if v is None else STAR if v == "*" else int(v)


def msgclass(msg):
    if not msg:
        return "None"
    if msg.startswith("EvaluationLimits with"):
        return "Limits"
    if msg.startswith("SolverInterrupt with"):
        return "Interrupt"
    return "Term"


def script_term(at=(), doc_extra=""):
    """a termination condition that holds exactly at the generations in `at` (oracle-controlled)"""
    at = sorted(set(int(a) for a in at))
    doc = "ScriptTerm with %s" % {'at': at}

    def _ScriptTerm(inst, info=False):
        hit = inst.generations in at
        if info:
            return doc if hit else ""
        return hit
    _ScriptTerm.__doc__ = doc
    return _ScriptTerm


def sphere(x):
    return float(sum((float(xi) - 0.25) ** 2 for xi in x))


def tup(x):
    return tuple(float(v) + 0.0 for v in np.asarray(x, dtype=float).ravel())


class InjectedFault(Exception):
    """raised by the recorder's cost function when the script armed a fault: the user's objective fails once"""


class Recorder(object):
    def __init__(self, kind, dim=2, npop=4, seed=0, cost=None, x0=None, with_callback=True, scripted_term=False):
        import mystic.solvers as ms
        from mystic.monitors import Monitor
        self.kind, self.dim, self.with_callback = kind, dim, with_callback
        self.rng = random.Random(seed)
        random.seed(seed)
        np.random.seed(seed % (2 ** 32))
        if kind == "DE":
            self.solver = ms.DifferentialEvolutionSolver(dim, npop)
        elif kind == "DE2":
            self.solver = ms.DifferentialEvolutionSolver2(dim, npop)
        elif kind == "NM":
            self.solver = ms.NelderMeadSimplexSolver(dim)
        elif kind == "PW":
            self.solver = ms.PowellDirectionalSolver(dim)
        else:
            raise ValueError(kind)
        s = self.solver
        self.np = s.nPop if kind in ("DE", "DE2") else 1
        n = dim
        if kind in ("DE", "DE2"):
            self.defG, self.defE = n * s.nPop * 10, n * s.nPop * 1000
            s.SetRandomInitialPoints([-2.0] * dim, [2.0] * dim)
        elif kind == "NM":
            self.defG, self.defE = n * 200, n * 200
            s.SetInitialPoints(x0 if x0 is not None else [1.0 + 0.5 * i for i in range(dim)])
        else:
            self.defG, self.defE = n * 1000, n * 1000
            s.SetInitialPoints(x0 if x0 is not None else [1.0 + 0.5 * i for i in range(dim)])
        self.raw = cost or sphere
        self.real = 0
        self.calls = []
        self.ncb = 0
        self.cb_ok = True
        self.exit_at = None        # request exit inside the k-th callback from now
        self.events = []
        self.em_base = 0           # index in self.calls where the current evaluation-monitor chain started
        self.evmon_on = False
        self.bounded = False
        self.term_obj = None       # None = solver default
        self.in_call = False
        self.kwpend = None         # evaluation monitor handed over by keyword, not yet seen installed
        self.fault_at = None       # the k-th cost call from now raises InjectedFault (after it was counted as a call)
        s.SetObjective(self.cost)
        # evaluation monitor from the start (the property's "default in-process map" clause)
        s.SetEvaluationMonitor(Monitor())
        self.evmon_on = True
        if scripted_term:          # no stop rule other than limits until the script installs one
            s.SetTermination(script_term(()))
        self.events.append({"ev": "New", "kind": kind, "np": self.np, "dim": dim,
                            "defG": self.defG, "defE": self.defE, "cb": bool(with_callback)})

    # ---- callables handed to mystic ------------------------------------------------------
    def cost(self, x):
        self.real += 1
        if self.fault_at is not None:
            self.fault_at -= 1
            if self.fault_at <= 0:
                self.fault_at = None
                self.calls.append((tup(x), None))      # the call was made; it has no value
                raise InjectedFault("the objective failed at call %d" % self.real)
        v = self.raw(x)
        self.calls.append((tup(x), v))
        return v

    def callback(self, x):
        s = self.solver
        self.ncb += 1
        if tup(x) != tup(s.bestSolution):
            self.cb_ok = False
        fire = False
        if self.exit_at is not None:
            self.exit_at -= 1
            if self.exit_at <= 0:
                s._EARLYEXIT = True
                self.exit_at = None
                fire = True
        e = self.snap()
        e.update({"ev": "Iter", "fire": fire})
        self.events.append(e)

    # ---- observation ---------------------------------------------------------------------
    def term_holds(self):
        s = self.solver
        if not len(s._stepmon):
            return False
        try:
            return bool(s._termination(s))
        except Exception:
            return False

    def snap(self):
        s = self.solver
        if self.kwpend is not None and s._evalmon is self.kwpend["m"]:
            # the keyword was processed: the monitor changed hands before the cost calls made since the call began
            kp, self.kwpend = self.kwpend, None
            keep = kp["on"] and self.evmon_on
            if not keep:
                self.em_base = kp["at"]
            self.evmon_on = kp["on"]
        hist = list(s.energy_history)
        eh_mono = all(not (hist[i + 1] > hist[i]) for i in range(len(hist) - 1))
        best_e = s.bestEnergy
        eh_last = (not hist) or (hist[-1] == best_e) or (hist[-1] != hist[-1] and best_e != best_e)
        sm = s._stepmon
        if len(sm):
            lx, ly = sm._x[-1], sm._y[-1]
            sm_last = tup(lx) == tup(s.bestSolution) and (ly == best_e or (ly != ly and best_e != best_e))
        else:
            sm_last = True
        em = s._evalmon
        nem = len(em)
        if self.evmon_on:
            mine = self.calls[self.em_base:]
            em_ok = nem == len(mine) and all(tup(em._x[i]) == mine[i][0] and em._y[i] == mine[i][1]
                                             for i in range(min(nem, len(mine))))
        else:
            em_ok = True
        return {"gens": int(s.generations), "fcalls": int(s.evaluations), "real": self.real, "nsm": len(sm),
                "nem": nem, "ncb": self.ncb, "live": bool(s._live), "limG": lim(s._maxiter), "limE": lim(s._maxfun),
                "term": self.term_holds(), "exit": bool(s._EARLYEXIT),
                "dec": bool(self.kind == "PW" and s._energy_history is not None),
                "eh_mono": bool(eh_mono), "eh_last": bool(eh_last), "sm_last": bool(sm_last), "em_ok": bool(em_ok),
                "cb_ok": bool(self.cb_ok), "bounded": bool(s._useStrictRange), "evmon": self.evmon_on}

    def emit(self, ev, **kw):
        e = self.snap()
        e["ev"] = ev
        e.update(kw)
        self.events.append(e)

    # ---- public operations (the script alphabet) ------------------------------------------
    def _kw(self, kw=None):
        """keyword arguments of Step / Solve; `kw` = configuration handed over by keyword instead of a Set* call:
        a list of ["evalmon", new(ignored: keywords prepend), on] / ["stepmon", kind] / ["cfg", "pen"|"cons"]"""
        d = {"callback": self.callback} if self.with_callback else {}
        recs = []
        import mystic.monitors as mm
        order = {"evalmon": 0, "stepmon": 1, "pen": 2, "cons": 3}
        for it in sorted(kw or [], key=lambda it: order[it[1] if it[0] == "cfg" else it[0]]):
            if it[0] == "evalmon":
                on = bool(it[2])
                m = mm.Monitor() if on else mm.Null()
                d["EvaluationMonitor"] = m
                self.kwpend = {"m": m, "on": on, "at": len(self.calls)}
                recs.append({"what": "evalmon", "new": False, "on": on})
            elif it[0] == "stepmon":
                kind = it[1]
                d["StepMonitor"] = (mm.VerboseMonitor(10 ** 9) if kind == "verbose" else None if kind == "none" else
                                    mm.Null() if kind == "null" else mm.Null if kind == "nullclass" else mm.Monitor())
                recs.append({"what": "stepmon", "new": False, "on": True})
            elif it[0] == "cfg" and it[1] == "pen":
                d["penalty"] = lambda x: 0.0 * sum(x)
                recs.append({"what": "pen", "new": False, "on": True})
            elif it[0] == "cfg" and it[1] == "cons":
                d["constraints"] = lambda x: x
                recs.append({"what": "cons", "new": False, "on": True})
            else:
                raise ValueError(it)
        return d, recs

    def step(self, kw=None):
        kwargs, recs = self._kw(kw)
        self.events.append(dict({"ev": "Call", "mode": "step"}, **({"kw": recs} if recs else {})))
        try:
            msg = self.solver.Step(**kwargs)
        except InjectedFault:
            self.emit("Abort")          # the caller catches the failure of its objective; the trace ends here
            raise
        except Exception as ex:
            self.emit("Raise", what=repr(ex)[:200])
            raise
        self.emit("Ret", msg=msgclass(msg))
        self.kwpend = None          # a Step that stopped at its pre-check never looked at its keywords
        return msg

    def solve(self, kw=None):
        kwargs, recs = self._kw(kw)
        self.events.append(dict({"ev": "Call", "mode": "solve"}, **({"kw": recs} if recs else {})))
        try:
            self.solver.Solve(**kwargs)
        except Exception as ex:
            self.emit("Raise", what=repr(ex)[:200])
            raise
        msg = self.solver.Terminated(info=True)
        self.emit("Ret", msg=msgclass(msg))
        return msg

    def limits(self, g, e, new=False):
        g = None if g == NONE else g
        e = None if e == NONE else e
        self.solver.SetEvaluationLimits(g, e, new=bool(new))
        self.emit("SetLimits", g=lim(g), e=lim(e), new=bool(new))

    def cfg(self, what):
        """SetPenalty / SetConstraints / SetStrictRanges / SetReducer.  `what` as logged:
        "pen" (zero penalty), "cons" (identity constraint), "ranges" (wide box), "reducer" (none),
        "objchange" (a non-zero penalty: re-prices every point, so the objective changes)"""
        s = self.solver
        if what == "pen":
            s.SetPenalty(lambda x: 0.0 * sum(x))
        elif what == "objchange":
            s.SetPenalty(lambda x: 0.125 * abs(float(x[0])))
        elif what == "cons":
            s.SetConstraints(lambda x: x)
        elif what == "ranges":
            s.SetStrictRanges([-64.0] * self.dim, [64.0] * self.dim)
        elif what == "reducer":
            s.SetReducer(None)
        else:
            raise ValueError(what)
        self.emit("SetCfg", what=what)

    def evalmon(self, new=False, on=True):
        from mystic.monitors import Monitor, Null
        s = self.solver
        was_on = self.evmon_on
        s.SetEvaluationMonitor(Monitor() if on else Null(), new=bool(new))
        keep = on and was_on and not new
        if not keep:
            self.em_base = len(self.calls)
        self.evmon_on = bool(on)
        self.emit("SetEvalMon", new=bool(new), on=bool(on))

    def stepmon(self, kind="plain"):
        """install a fresh (empty) generation monitor; existing records are prepended"""
        import mystic.monitors as mm
        import io, contextlib
        if kind == "verbose":
            m = mm.VerboseMonitor(10 ** 9)
        elif kind == "none":          # documented: None / Null() / Null give a fresh Monitor that keeps the history
            m = None
        elif kind == "null":
            m = mm.Null()
        elif kind == "nullclass":
            m = mm.Null
        else:
            m = mm.Monitor()
        self.solver.SetGenerationMonitor(m)
        self.emit("SetStepMon", kind=kind)

    def term(self, at=None, cond=None):
        if cond is not None:
            self.solver.SetTermination(cond)
        else:
            self.solver.SetTermination(script_term(at or ()))
        self.emit("SetTerm")

    def exit(self):
        self.solver._EARLYEXIT = True
        self.emit("Exit")

    def fault_in(self, k):
        """arm: the k-th call of the objective from now fails (raises); the script's next Step is aborted by it"""
        self.fault_at = int(k)

    def exit_in(self, k):
        """arm: the k-th callback from now requests an exit (what the signal handler does)"""
        self.exit_at = int(k)

    def finalize(self):
        self.solver.Finalize()
        self.emit("Finalize")

    def query(self):
        """read-only questions a caller may ask between calls"""
        s = self.solver
        stop = bool(s.Terminated())
        msg = s.Terminated(info=True)
        _ = (s.bestEnergy, s.bestSolution, s.evaluations, s.generations, len(s.energy_history), len(s.solution_history))
        self.emit("Query", stop=stop, msg=msgclass(msg))
