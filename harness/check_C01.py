"""C01 -- see harness/objective_check.py (shared pipeline), harness/objrec.py and specs/solver/{Objective,Trace_Objective}.tla"""
from harness.core import tier_seed, main_guard
from harness.objective_check import run


def main():
    a = tier_seed()
    if a.selftest:
        from harness.objective_selftest import selftest
        return selftest("C01", a)
    return run("C01", a)


if __name__ == "__main__":
    main_guard(main)
