"""Self-test of the C04/C05 binding: in-memory mutants of mystic that compile and keep the pinned tests passing must be
rejected by trace validation / script replay (the mutants are never written to /repo)."""
import io, contextlib, types
from harness.core import assert_repo
from harness.srcpatch import patch


def mutants(prop):
    import mystic.abstract_solver as A
    import mystic.differential_evolution as D
    import mystic.scipy_optimize as S
    import mystic.tools as T
    AS, DE, DE2, NM, PW = A.AbstractSolver, D.DifferentialEvolutionSolver, D.DifferentialEvolutionSolver2, \
        S.NelderMeadSimplexSolver, S.PowellDirectionalSolver
    m = []
    if prop == "C04":
        def m1():
            u = [patch(AS, "_decorate_objective", "evalmon, start=self._fcalls[0])", "evalmon)"),
                 patch(DE, "_decorate_objective", "evalmon, start=self._fcalls[0])", "evalmon)"),
                 patch(NM, "_decorate_objective", "evalmon, start=self._fcalls[0])", "evalmon)")]
            return lambda: [x() for x in u]
        m.append(("evaluation counter restarts at re-decoration (F1 reverted)", m1))
        m.append(("DE skips the callback at generation 0",
                  lambda: patch(DE, "_Step", "if callback is not None: callback(self.bestSolution)",
                                "if callback is not None and not init: callback(self.bestSolution)")))
        m.append(("DE logs population[0] instead of the best solution in the step monitor",
                  lambda: patch(DE, "_Step", "self._stepmon(self.bestSolution[:], self.bestEnergy, self.id)",
                                "self._stepmon(self.population[0][:], self.popEnergy[0], self.id)")))
        m.append(("generations counts the initial record",
                  lambda: patch(AS, "generations", "return max(0,len(self._stepmon)-1)", "return len(self._stepmon)")))
        m.append(("Powell Finalize logs unconditionally (F4 reverted)",
                  lambda: patch(PW, "Finalize", "if self._energy_history is not None and self._live:", "if self._live:")))
        m.append(("DE2 overwrites its counter with the evaluation-monitor length",
                  lambda: patch(DE2, "_Step", "self._fcalls[0] += fcalls", "self._fcalls[0] = len(self._evalmon)")))
        m.append(("SetEvaluationMonitor leaves the objective bound to the old monitor",
                  lambda: patch(AS, "SetEvaluationMonitor", "return self._update_objective()", "return")))
        m.append(("NM callback receives the worst vertex",
                  lambda: patch(NM, "_Step", "if callback is not None: callback(self.bestSolution)",
                                "if callback is not None: callback(self.population[-1])")))
    else:
        m.append(("generation limit compared with > instead of >=",
                  lambda: patch(AS, "Terminated", "elif self.generations >= self._maxiter and", "elif self.generations > self._maxiter and")))
        m.append(("check before stepping removed",
                  lambda: patch(AS, "Step", "if len(self._stepmon):\n", "if False:\n")))
        m.append(("new=True adds the evaluation count to the generation limit",
                  lambda: patch(AS, "SetEvaluationLimits", "self._maxiter += self.generations", "self._maxiter += self.evaluations")))
        m.append(("exit request not consulted",
                  lambda: patch(AS, "Terminated", "elif self._EARLYEXIT:", "elif False:")))
        m.append(("evaluation limit ignored when a generation limit is set",
                  lambda: patch(AS, "Terminated", "if self._fcalls[0] >= self._maxfun and self._maxfun is not None:",
                                "if self._fcalls[0] >= self._maxfun and self._maxiter is None:")))
        m.append(("Solve takes one more step after a stop",
                  lambda: patch(AS, "_Solve", "        while not stop: \n            stop = self.Step(**settings) #XXX: remove need to pass settings?\n            continue\n",
                                "        while not stop: \n            stop = self.Step(**settings)\n            continue\n        self._live = True; self._Step(**settings)\n")))
        m.append(("new=True limits are treated as totals",
                  lambda: patch(AS, "SetEvaluationLimits", "        if new:\n", "        if False:\n")))
    return m


def selftest(prop, a):
    assert_repo()
    from harness.lifecycle_check import run
    missed = 0
    for name, mk in mutants(prop):
        undo = mk()
        try:
            a2 = types.SimpleNamespace(tier="quick", seed=a.seed, jobs=a.jobs, dry=True, light=True)
            buf = io.StringIO()
            with contextlib.redirect_stdout(buf):
                try:
                    rc = run(prop, a2)
                except Exception as ex:
                    rc = "raised %r" % (ex,)
            out = buf.getvalue()
            classes = sorted(set(l.strip().split(":", 1)[1].rsplit(":", 1)[0].strip() for l in out.splitlines()
                                 if l.strip().startswith("violation class")))
            caught = rc not in (0,)
            print("SELFTEST %s: %s   %s" % (name, "caught" if caught else "MISSED", "; ".join(classes)[:300]))
            missed += 0 if caught else 1
        finally:
            undo() if callable(undo) else None
    if prop == "C05":      # the real interrupt path (specs/solver/Signal.tla) has its own mutants
        from harness import c05_signal
        missed += c05_signal.selftest(a)
    return 1 if missed else 0
