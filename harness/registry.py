"""Single source for MANIFEST.json: `python -m harness.registry` rewrites it.

CHECKS: property id -> dict(level, technique, text, note, design_ref)
PENDING: property id -> reason it is not (yet) claimed
"""
import json, os

ROOT = os.path.dirname(os.path.dirname(os.path.abspath(__file__)))

CHECKS = {
    "C16": dict(
        level="exploration",
        technique="TLA+ machine cons/Transforms.tla (state = vector; Apply/Reapply; theorems for idempotence, selectivity, target "
                  "membership, conforming-unchanged, per-step footprint) evaluated by TLC over every vector of a bounded class x "
                  "a decorator catalogue; TLC emits the expected result or post-condition of every (vector, decorator) pair and "
                  "every short script, which the harness replays on the real decorators; for impose_as TLC enumerates the tracking "
                  "masks itself (MC_TransformsAs*: every list of <=3 (thorough <=4) pairs forming a graded forest on 4 (5) positions, "
                  "both orientations, every list order, negative spellings) and emits source + offset*depth for every (mask, offset, "
                  "vector); the docstring examples are ASSUMEd",
        text="Covers impose_bounds (tuple/list/dict forms, all clip/nearest modes), discrete, integers, rounded/precision "
             "(digits None/0/1/-1), impose_unique, monotonic/sorting, impose_at, impose_as on general masks (chains, fan-in/out, "
             "trees, forests, diamonds; offsets None/0/1/-0.5; partially out-of-range and negative pairs: quick 1,114 masks x 4 "
             "offsets x 31 vectors), synchronized incl. callable scale/shift forms, with_mean/with_variance/"
             "with_spread/normalized, masked/partial/synchronized/clipped/suppressed against the spec for every vector of "
             "half-integers of length 0-3 (quick: 259 vectors x 370 decorators) or 0-4 (thorough: 2801 x ~640), as list and "
             "ndarray; index selections None/single/negative/tuples/partially and fully out of range; interval sets one/gap/"
             "tie/touching/open-sided/unsorted/degenerate.  Per case: exact values incl. tie rules, unselected entries "
             "bit-identical, f(f(x)) == f(x), input not mutated; every 2-step (quick) / 3-step (thorough) script over 13 "
             "decorators replayed step by step and as one stack.  Exhaustive on the bounded class.",
        note="trusted: TLC's evaluation of Transforms.tla, the JSON emission, the harness' mapping from catalogue record to "
             "decorator call; randomising modes are checked against post-conditions with seeded RNGs; moment decorators exact "
             "when divisors are powers of two, else 1e-12 (irrational scales: mean/variance to 1e-9); premises (operator "
             "Defined): no out-of-range/aliasing multi-index for sorting/monotonic; impose_as masks must admit y[j] = y[i] + offset for all "
             "pairs (no cycle, single depth per entry, no double spelling) - masks not listed source-first are judged too and "
             "fall under the known finding as:pair-order; synchronized masks without chains (documented as unordered); "
             "non-degenerate spread/variance/sum",
        design_ref="DESIGN.md section 4/C16"),
    "C19": dict(
        level="model_checking",
        technique="TLC model-checks math/Measures.tla (state machine over product measures and scenarios: load, append, update, "
                  "weight/position assignment, center_mass/range/var setters) against its invariants and action properties; "
                  "every emitted state and transition is replayed on real point_mass/measure/product_measure/scenario objects; "
                  "grown: math/MeasureBounds.tla (EXTENDS Measures; Bounds/MeasureBounds objects, the remaining statistics, "
                  "reweighting witnesses) and math/MeasureAlias.tla (a heap of measure objects + the product's slot references; "
                  "denotation refinement), replayed by harness/c19_growth.py",
        text="All 39 shapes with <=3 factors of 1-3 points (unequal sizes included), weights 0..2, positions -1..10, one or two "
             "edits after a load.  Every state is rebuilt from raw point masses: structure, flatten() (measure and scenario), "
             "weights, positions, mass, npts equal the TLC values exactly; total weight = product of factor masses; round "
             "trips load/unflatten/scenario.load/identity update/impose_measure, compose o decompose, _pack o _unpack, "
             "_nested_split/_nested/_flat; expect, pof, pof_value (six position and two value functions), support, "
             "support_index, mean_value, factor center_mass/range/mass exactly against TLC's explicit sums, expect_var/var at "
             "1e-9; transitions: update footprint, load/append, weight and position assignment, center_mass/range/var "
             "setters (achieved value within 1e-9, everything else untouched).  Growth: Bounds/MeasureBounds built with n = pts "
             "address the parameter vector slot by slot (lower/upper/x*/w*/len/b()/+ and split_param of the bounds equal the "
             "specified lists); min/max/ptp/ess_* (measure and product), measure-level expect/support, normalize (mass, "
             "zsum/zmass), weighted_select/sampled_* under a scripted random stream, select/differs_by_one, shortness/validity, "
             "set_mean_value, bounded_mean and the weight-normalising constraint factories equal the explicit definitions; "
             "impose_reweighted_* reach a reachable target changing only the weights.  Object identity: a product's observables "
             "depend only on the contents of its slots, not on which slots share a measure object; update/load build new "
             "measures and never modify a measure that existed before (24/120 aliased constructions, 2.7k/14.9k heap checks).",
        note="growth: undefined cases are counted, not compared (empty support, zero mass, infeasible bounded_mean target); "
             "select only for 2-point measures; set_feasible/set_valid are post-conditions from a feasible guess; the setters are "
             "explored on unshared objects only; reweighting tolerance 1e-6.  "
             "trusted: TLC and its Json module; a measure is 'equal' when pts, wts, pos, flatten(), weights, positions are "
             "equal; with total weight 0 the statistics are undefined and skipped; setter premise: factor mass != 0 and an "
             "achievable target; update only within its documented premise len(vector) >= 2*sum(pts)",
        design_ref="DESIGN.md section 4/C19"),
    "C20": dict(
        level="model_checking",
        technique="TLA+ specs mon/Monitor.tla (monitor objects on a heap, one action per public call) and mon/LogFile.tla (log and "
                  "parameter-file layouts) model-checked by TLC; every operation script / trajectory TLC emits is replayed into "
                  "the real mystic.monitors and mystic.munge code with comparison after every operation; grown: Monitor.tla has a "
                  "Null object kind, SetSel/SetSlice/GetMin actions and view projections; LogFile.tla specifies the log file as "
                  "a function of (records, interval, all, best) over plain and population-valued records and every munge reader / "
                  "source / converter plus monitors._load as layout-transposition operators with round-trip invariants",
        text="Design invariants: len = calls, k transparent, every reported record is a recorded call, the argument of "
             "+/extend/prepend/__setitem__/indexing is unchanged, concatenation, slice and selection order (m[list], m[int array], "
             "m[bool mask], m[(selector,)] return exactly the selected records in selection order with the same k; m[i] returns "
             "(x_i, unscaled y_i)), write-then-read identity for the log "
             "and the raw/support/converge layouts.  Every script over {Call, Slice, Index (list / int array / bool mask / 1-tuple forms), integer item, +, extend, prepend, "
             "__setitem__} on two "
             "monitors with k in {None,1,2,-1}^2 (quick: 3 warm-up calls + 2 free operations; thorough 4+3, 5+2, 0+3) and "
             "every [a:b:c] slice on lengths 0..3/4 is replayed on Monitor, VerboseMonitor, LoggingMonitor and "
             "VerboseLoggingMonitor, comparing len/x/y/id of every object after every operation.  File trajectories (<=3/4 "
             "records, dim 1-3, intervals 1-3, scalar and vector costs, ids, a 16-value catalogue incl. +-inf, nan, -0.0, "
             "5e-324, 1.7e308, numpy scalars and arrays) are written by a real LoggingMonitor and write_{raw,support,"
             "converge}_file and read back by logfile_reader, read_history, read_raw_file, read_import with NaN-aware exact "
             "equality.  Also: a Null monitor never changes, reads empty, and as argument of +/extend/prepend/__setitem__ acts as "
             "an empty monitor; m[sel]=b, m[a:b]=b and min() act on exactly the selected / first-minimal record; ix/ax/iy/ay "
             "are projections of x/y.  A LoggingMonitor with all=False writes exactly the `best` member of a population-valued "
             "record, with interval n only calls 0,n,2n,... while the monitor holds all; read_history / read_trajectories / "
             "read_monitor from a log name, file object, monitor, solver, solver restart file or Null, read_support_file / "
             "read_converge_file / read_old_support_file, the raw/converge/old->support converters and monitors._load(path) "
             "give the trajectory back up to the stated layout.",
        note="trusted: TLC, the transcription of Python slicing/_get_y/_process_ids into TLA+, the harness's injective map from "
             "ids to concrete values; the cost catalogue avoids |y| > max/2 (k*y overflow) and integer-0 costs; m.extend(m)/"
             "m.prepend(m) excluded (never terminate: observation), ids in parameter files are int or None as documented; "
             "tuples of length >= 2 (projections into the parameter vectors), m[(i,)] and out-of-range selections are not modelled"
             " (they raise or are outside the statement); read_history(solver) for k in {None,1}; _load only as _load(path) on "
             "support-layout files (its monitor/verbose arguments are undocumented: observation); klepto archive/cache and "
             "dataset sources not bound",
        design_ref="DESIGN.md section 4/C20"),
    "C01": dict(
        level="model_checking",
        technique="TLA+ spec solver/Objective.tla (decorated objective + abstract DE and Nelder-Mead over a finite point set, all "
                  "idempotent constraint tables, boxes, cost/penalty tables) model-checked by TLC; recorded executions of the "
                  "real solvers and wrappers validated by TLC against solver/Trace_Objective.tla (code->spec) at every "
                  "iteration boundary",
        text="Design: TLC checks on Objective.tla (|Pt|=3, energies 0..2 and inf, all idempotent Cons, all boxes compatible "
             "with Cons, NP=2, 1-2 iterations) that the reported best is an evaluated point carrying cost+penalty there, "
             "every member's stored energy is the objective at the member, best <= initial guess and <= every member -- for "
             "the DE abstraction and for Nelder-Mead with the rule 'constrain the best vertex before it is reported', and "
             "REFUTES them for the rule found on the pinned tree ('constrain it at the next iteration').  Implementation: "
             "700 (quick) / 8000 (thorough) seeded runs of DE, DE2, Nelder-Mead, Powell stepped with a snapshot after every "
             "iteration plus 150/1200 runs of fmin, fmin_powell, diffev, diffev2, lattice, buckshot, sparsity, on a catalogue of costs "
             "(incl. array-valued + reducer, plateaus, inf walls), constraints (pure/in-place), penalties, boxes and "
             "tight/clip modes, installed at the start or mid-run; the recorder logs every call of the user's cost with "
             "flags computed from pristine copies; TLC accepts a trace only if every Call and Boundary event satisfies the "
             "named clauses.",
        note="trusted: TLC, the recorder harness/objrec.py (pristine copies of the user's functions, exact float comparison "
             "through order-preserving ranks); C01 clauses are waived after a mid-run Set (stored energies belong to the "
             "previous objective); premise: deterministic idempotent constraints compatible with the box; sparsity wrapper "
             "and process maps not run",
        design_ref="DESIGN.md section 4/C01"),
    "C02": dict(
        level="model_checking",
        technique="same specs and pipeline as C01 (Objective / Trace_Objective); this check decides the clauses prefixed C02: plus "
                  "the initial-points clause",
        text="Design: NeverOutside (every logged call is inside the box) and BestInBox are invariants of Objective.tla under "
             "TLC for all boxes and constraint tables.  Implementation: in every recorded run each Call event must be "
             "inside the box in force at that moment as computed by the recorder from the numbers (ranges installed at "
             "step 0 or mid-run, tight in {None,True,False} x clip in {None,True,False}, degenerate / one-sided / infinite "
             "sides, constraints that move points, initial guesses outside the box), a finite reported best must lie in the "
             "box when the ranges were in force from the first iteration, and SetRandomInitialPoints must stay in the "
             "requested limits (200/2000 draws).",
        note="trusted: TLC and the recorder; the randomising clip=False mode is checked for 'no call outside' only; set-ups "
             "that raise before the first evaluation (symbolic bounds with infinite sides) are counted as refused, not judged",
        design_ref="DESIGN.md section 4/C02"),
    "C03": dict(
        level="model_checking",
        technique="same specs and pipeline as C01 (Objective / Trace_Objective); this check decides the clauses prefixed C03:",
        text="Design: CallsConstrained and ReportedConstrained are invariants of Objective.tla for the DE abstraction and for "
             "Nelder-Mead with 'constrain the best vertex before it is reported'; the pinned tree's rule is refuted by TLC. "
             "Implementation: every Call event must be at a point the constraints in force leave unchanged (checked with a "
             "pristine copy; pure and in-place constraint functions; pins, clamps, integer rounding, ties, "
             "symbolic-generated; installed at step 0 or mid-run) and, with constraints from the first iteration, the "
             "reported solution at EVERY iteration boundary (runs are stepped and stopped by small limits) must satisfy "
             "them and carry the energy of that point.",
        note="trusted: TLC and the recorder; the randomising clip=False range mode is excluded as in the statement; a run "
             "that never finds a finite energy reports no solution (reported-solution clauses need a finite best energy)",
        design_ref="DESIGN.md section 4/C03"),
    "C04": dict(
        level="model_checking",
        technique="TLA+ spec solver/Lifecycle.tla (public solver protocol as a state machine over counters) model-checked by TLC; "
                  "bound to the code by TLC trace validation of recorded executions (Trace_Lifecycle.tla, every invariant in "
                  "every recorded state) and by replaying every TLC-generated call script (Gen_Lifecycle.tla) on the real solvers",
        text="TLC checks on the design (all four solver kinds, <=3 Step/Solve calls, <=2 configuration calls, all limit "
             "values 0/1/2/3/None, any termination oracle) that the evaluation counter equals the real calls, the evaluation "
             "monitor length equals the calls since it was installed, generations equal completed iterations, a stopped "
             "run's step monitor has generations+1 records and there is one callback per iteration -- and that the design "
             "found on the pinned tree (counter restarting at re-decoration) violates them.  Every script of <=2 (quick) / "
             "<=3 (thorough) public calls over a 26-letter alphabet plus 500/6000 seeded random scripts of <=8/12 calls are "
             "run on real DE, DE2, Nelder-Mead and Powell solvers under a recorder that owns the cost, callback, termination "
             "and monitors; TLC accepts a trace only if each event is the corresponding Lifecycle action and the reported "
             "counters, monitor lengths, monitor contents (vs the recorder's own call log), callback argument and energy "
             "history agree after every call and every iteration.  For DE/DE2 the spec's predicted counters are compared "
             "field by field after every call.",
        note="trusted: TLC, the recorder (harness/record.py) and its comparison of monitor contents with its own call log; "
             "costs are cheap deterministic quadratics; process-based maps and verbose/logging monitor output are not "
             "inspected beyond their record counts; SetGenerationMonitor(new=True) mid-run is outside the scripts",
        design_ref="DESIGN.md section 4/C04"),
    "C05": dict(
        level="model_checking",
        technique="same TLA+ specs and pipeline as C04 (Lifecycle / Trace_Lifecycle / Gen_Lifecycle); this check decides the "
                  "clauses prefixed C05: in the trace specification",
        text="TLC checks on the design that an iteration after the initial evaluation begins only from a state in which no "
             "stop condition holds (action property), generations never exceed the limit in force when the iteration began, "
             "evaluations overshoot by less than one iteration, the message class names a true condition, and (thorough) "
             "that every Step/Solve call returns (liveness under weak fairness).  On the implementation, every recorded "
             "Iter event must be enabled in the spec state reached so far (no stop condition in the pre-state, computed "
             "from the recorder's own evaluation count, the limits as given with new=True/False, the recorder's evaluation "
             "of the termination condition and the exit flag), every return must be the spec's PreStop/PostStop/"
             "PostContinue with the same message class and the same resolved limits.  Scripts: all of <=2/3 calls over the "
             "alphabet (limits 0/1/2/None, new=True/False, termination sets, exit requests before and inside callbacks) and "
             "seeded random ones, on all four solver kinds.",
        note="trusted: TLC and the recorder; exit requests are injected by setting the flag the signal handler sets and, in the SIGINT part, through the real handler (the "
             "prompt answered by a scripted input()); default limits are taken from the documented formula; the wrappers fmin/"
             "fmin_powell/diffev/diffev2 are run with every limit pattern (None/0/1/small/huge, with a stop rule that cannot hold and an "
             "ordinary one) and their (iter, funcalls, warnflag) judged by Lifecycle.WarnFlag/ResG/ResE (Trace_Lifecycle.TraceWrap)",
        design_ref="DESIGN.md section 4/C05"),
    "C15": dict(
        level="model_checking",
        technique="TLA+ spec pen/Penalty.tla (state machine of stacked penalty closures) model-checked by TLC for design "
                  "invariants and action properties; every reachable state and enabled call is emitted and every transition "
                  "of the state graph is replayed on the real mystic.penalty closures (spec->code) with a full observation "
                  "after every call",
        text="For every chain of a catalogue (all nine types, k in {1,2,100,inf}, h in {1,2,5}, four condition tables over 4 "
             "probes with values -2..2 and ZeroDivision, nesting depth 1-3 incl. every pair of types at depth 2) TLC "
             "enumerates all reachable states (iteration counters <=2/3, stored lists <=3/4) and checks that clear and iter "
             "affect exactly the addressed level and below, the store footprint, zero added penalty exactly on the feasible "
             "set for the types whose documented formula says so, strictly positive when violated, stacked penalties add, "
             "ZeroDivision yields an infinite penalty and error.  The harness executes every state-changing transition on "
             "real closures and after each call compares iteration(), stored(), F[j](x) and F[j].error(x) at every level and "
             "probe with the values TLC emitted (354k transitions quick, 4.8M thorough).  Exhaustive on the bounded class.",
        note="trusted: TLC, the transcription of the docstring formulas into Penalty.tla, the float rendering n/d - sum "
             "log(a)/q of spec values; comparison is == except chains with lagrange_inequality/barrier_inequality (1e-12 "
             "relative) and error(x) vs sqrt(spec err^2) (1e-12 relative); barrier follows its documented log barrier and "
             "Lagrange types the documented accumulation",
        design_ref="DESIGN.md section 4/C15"),
    "C17": dict(
        level="model_checking",
        technique="TLA+ specs cons/Combinators.tla (and_/or_/not_ as loops over arbitrary member functions on a finite domain, "
                  "randomisation nondeterministic) and cons/Couplers.tla (table algebra) model-checked by TLC; TLC validates "
                  "recorded executions of the real constraints.and_/or_/not_ against Trace_Combinators.tla and TLC-emitted "
                  "cases are replayed on the real coupler functions; cons/Bridges.tla (EXTENDS Couplers, INSTANCE pen/Penalty) states "
                  "with_penalty / with_constraint / as_penalty / issolution / vectorize / near_integers / has_unique as exact table "
                  "algebra and unique / impose_unique / solve / as_constraint as post-conditions; TLC checks 26 laws per case and "
                  "emits every case, harness/c17_bridges.py replays each on the real functions (violation keys bridge:*)",
        text="Design: for the success rule the property demands, the three success claims, exactly one exit path and "
             "termination within max(n, maxiter*n) member calls hold for all 27^n member tuples on |D|=3 (n<=3), all 256^2 "
             "pairs on |D|=4, every input, maxiter 0..3 and every draw outcome; the rule found on the pinned tree (n equal "
             "iterates) is refuted by TLC for and_.  Implementation: 5.6k (quick) / 81.6k (thorough) recorded runs of the real "
             "combinators with table-driven members, scripted random draws and sentinel onexit/onfail are each accepted by "
             "TLC as a run of the specified loop and have the claim evaluated on the returned vector; inner/outer/additive "
             "and proxies and the penalty and_/or_/not_ are compared value by value on the emitted table class.  Bridges "
             "(growth): for all 9 penalty types x k,h (incl. k=inf, ZeroDivision) x iterations with_penalty(...)(cond) is the "
             "documented term, zero exactly on the feasible set, error/iter/clear/.func/.ptype as documented, "
             "additive(p)(cost)=cost+p, issolution(p,x,tol) <=> error<=tol; with_constraint gives the constraint for all four "
             "coupler types; as_penalty is the type's formula of |c(x)-x|_2 and zero exactly at fixed points on all 1458 "
             "product/swap tables of {0,.5,1}^2; vectorize row/column-wise; near_integers / has_unique exact; "
             "unique/impose_unique post-condition for full in None/int/float/set/range/dict/dict+type; solve / as_constraint "
             "by post-condition (2.7k quick / 21.6k thorough cases, 110 / 1.4k solver runs).",
        note="bridges: table-driven conditions/constraints; solver post-conditions on linear conditions with >=2 feasible "
             "lattice points at tol 1e-2 (the docs promise no accuracy), the default differential-evolution solver judged only "
             "by elitism and a >=90% success rate; Bridges.tla instantiates specs/cons/PenaltyC17.tla, a frozen copy of the value formulas of pen/Penalty.tla.  "
             "trusted: TLC, the transcription of the loops, table-driven members (snapped floats), interning of float vectors; "
             "premises: members deterministic and total, penalty members non-negative at iteration 0; members that raise are "
             "out of scope (and_ swallows TypeError/ValueError from members: observation recorded in the evidence, not judged)",
        design_ref="DESIGN.md section 4/C17"),
    "C10": dict(
        level="model_checking",
        technique="TLA+ specs term/Termination+TermMachine+TermPop+TermTree+TermExtra model-checked by TLC (design invariants) and "
                  "every reachable spec state replayed into the real mystic.termination objects (spec->code MBT)",
        text="TLC enumerates every energy history (len<=4/5 over small integers and +inf), every small population and every "
             "And/Or/When tree (depth<=2/3) x leaf valuation, checks the design invariants (info names only satisfied "
             "leaves, When/singleton transparency, monotonicity) and emits the expected verdict of every catalogue "
             "condition; the harness applies the real closures/classes to a stub solver in that state and compares "
             "truth value, info, info='self' and the condition rebuilt from state/type. Exhaustive on the bounded class; "
             "nothing is claimed outside it.",
        note="trusted: TLC, the transcription of the documented inequalities into Termination.tla (IEEE semantics for +inf), "
             "exactness of float arithmetic on small integers/dyadic tolerances; TermExtra.tla: TimeLimits under scripted clocks "
             "(wall / perf_counter / process_time, ticks, reset(), seconds as int/float/timedelta) and GradientNormTolerance "
             "(norms 1, 2, inf; the solver's recorded gradient or the numerical gradient of a linear cost) as scripts whose "
             "verdict after every step comes from TLC (19k quick / 110k thorough scripts)",
        design_ref="DESIGN.md section 4/C10"),
}


CHECKS.update({
    "C08": dict(
        level="model_checking",
        technique="TLA+ specs de/Strategy.tla (ten mutation strategies with explicit random draws), solver/DE.tla (generation loop, "
                  "strict greedy selection, in-place DE vs frozen-generation DE2), solver/NMExact.tla (concrete Nelder-Mead on "
                  "dyadic rationals), solver/NM.tla with Trace_NM.tla and solver/Powell.tla with Trace_Powell.tla, model-checked by "
                  "TLC; every TLC-emitted strategy case and DE / Nelder-Mead behaviour is replayed on the real strategy functions "
                  "and solver classes (spec->code, bit for bit), and recorded float runs of the real NelderMeadSimplexSolver / "
                  "fmin and PowellDirectionalSolver / fmin_powell (the line search wrapped as the given one) are validated per "
                  "solver step by TLC against the trace specs (code->spec)",
        text="DE: every case of Strategy.tla (NP 4..6, nDim 1..3, all ten strategies, every distinct donor tuple, start index, "
             "crossover draw pattern, F in {1/2,1}; 113k cases quick) is run through the real strategy with a scripted random "
             "module on both solver classes: trial vector, draw order, pool and number of draws must equal the specification's; "
             "25k behaviours of DE.tla (cost tables with ties, trial rules per Step) are replayed on both DE classes comparing "
             "population, energies and best after every Step (a member is replaced only by a strictly better trial).  "
             "Nelder-Mead spec->code: every behaviour of NMExact.tla (start x abs/quadratic/plateau cost x radius x standard/"
             "adaptive coefficients x tolerances, dims 1,2,4) replayed Step by Step, through Solve() and fmin, bit for bit in "
             "simplex, energies, counts and stop verdict.  Nelder-Mead code->spec: on float problems (smooth, non-smooth, 1e6:1 "
             "ill-conditioned, staircases with exact ties, inf walls, non-convex; dims 1-8) every objective call of every "
             "iteration is labelled R/E/OC/IC/S_j by bit-for-bit comparison with the documented point recomputed from the "
             "pre-state with the published coefficients; TLC accepts an iteration only as exactly one path of NM.tla's decision "
             "tree given the energy ranks, with the replaced vertex, the sort, the counters and the stop rule (quick 9.8k, "
             "thorough 140k iterations; all five branches).  Powell code->spec: each Step is an extrapolation part (point 2x-x1, "
             "fx>fx2, t<0 recomputed from the documented formula, extra line search iff both, direc[bigind]:=direc[-1]; "
             "direc[-1]:=direc1) and a direction loop (N chained line searches, delta/bigind = first largest decrease, x1/fx, "
             "energy history, counters, stop test); post-state must equal Powell.tla's (quick 766, thorough 9.3k loops).  "
             "Secondary: fmin / fmin_powell equal the vendored reference and scipy.optimize.fmin in (xopt, fopt, iter, "
             "funcalls) exactly on the same catalogue.",
        note="trusted: TLC, the transcription of the published algorithms (Storn-Price crossover rules, Nelder-Mead coefficients "
             "and adaptive variant, Powell's direction-set loop) into the specs, exact IEEE arithmetic on the dyadic lattices, "
             "ranks/ids preserving every comparison; labels and float formulas (t, stop tests, 2x-x1) are recomputed by the "
             "harness from recorded floats, never taken from the solver; numpy.argsort and Brent's line search are given "
             "primitives (Brent's floating-point interior is outside the technique, as the statement words it); known findings "
             "(Bin strategies using the exponential loop; exponential run that may be empty; no stop test after Powell's first "
             "direction loop - named deviation DevFirstStop keeps the rest of such runs validated) are listed in "
             "known_findings.jsonl",
        design_ref="DESIGN.md section 4/C08"),
    "C09": dict(
        level="model_checking",
        technique="TLA+ specs solver/Ensemble.tla (members, a map completing work items one at a time in any order, reduction to the "
                  "last minimal member, evaluation accounting) and solver/Grid.tla (gridpts order, lattice cell centres, generator "
                  "post-conditions) model-checked by TLC; every complete behaviour TLC emits is replayed on real Lattice/Buckshot "
                  "ensembles with scripted members under a map executing the emitted completion orders (spec->code), and recorded "
                  "real ensemble solves are validated by TLC against solver/Trace_Ensemble.tla (code->spec); the samplers and the "
                  "Searcher built on the ensembles are specified the same way (solver/Sampler.tla, Searcher.tla: one action per "
                  "public call, refuted as-is designs; TLC-emitted call scripts executed on the real classes, recorded runs "
                  "validated against Trace_Sampler / Trace_Searcher)",
        text="Design: for <=4 members with tied energies, solve and step mode and every completion order of every map call TLC "
             "checks best = min, best is that member's solution (tie rule), total = sum of member evaluations = real calls, "
             "member count, schedule independence; the design reducing in completion order is refuted.  Implementation: every "
             "emitted behaviour (member programs x mode x completion orders) replayed on a real ensemble comparing bestEnergy, "
             "bestSolution, selected member, _all_bestEnergy, _all_evals, _total_evals and the real call count after every call; "
             "every Grid case (dims 1-3(4), 1..3 bins per dimension, negative/degenerate bounds) against gridpts and "
             "LatticeSolver._InitialPoints exactly; real lattice/buckshot/sparsity solves (class API and wrappers; NM/Powell/DE "
             "members; strict ranges, constraints, penalty, limits, terminations; serial/python_map/reversed/shuffled/thread-pool "
             "maps; Solve vs step mode) recorded with one event per completed work item and validated by TLC (8k traces quick); "
             "randomly_bin/samplepts/fillpts/random_samples outputs judged by TLC against the Grid post-conditions.  Samplers "
             "(Lattice/Buckshot/Sparsity/Mixed): evals() equals the real model calls, iters() one per member and round, members "
             "continue between rounds and are re-created per the documented if_terminated/reset_all policy, sample_until returns "
             "exactly when a stop condition first holds, reset restores the constructed ensemble, every evaluated point lies in "
             "the bounds (635 scripts + 100 real runs quick).  Searcher: the archive holds exactly the evaluated pairs, the "
             "cache the members' best points, Minima() all entries at the minimum (ties), Samples() exactly the evaluations in "
             "order, Search ends after `retry` fruitless passes in each of `repeat`+1 runs, Reset clears cache and trajectories "
             "(114 scripts + 25 real runs quick).",
        note="trusted: TLC, the recorder (cost owned by the harness, calls attributed to the member whose work item the calling "
             "thread executes), energies as order-preserving ranks; lattice bounds are multiples of 0.75 so cell centres are "
             "exact; nested solver given as a class (a pre-configured instance is documented to be used as is); process-based "
             "maps not available in the sandbox; samplers: nominal +1 evaluation for an idle terminated member is a stated "
             "assumption, the `id` keyword (IndexError for id != 0 with if_terminated=True) and evalmon backfill are observations "
             "left unbound",
        design_ref="DESIGN.md section 4/C09"),
    "C12": dict(
        level="exploration",
        technique="TLA+ spec sym/SymClass.tla defines the bounded program class (linear and single-factor rational systems, their "
                  "equivalence rewrites, matrices, bounds) and its denotation Sol on a grid; TLC model-checks 'an equivalence "
                  "rewrite preserves Sol' and emits every program with its solution set; each is passed to the real "
                  "simplify/solve/linear_symbolic/symbolic_bounds and the returned text is evaluated by an independent exact "
                  "interpreter at every grid point (spec as enumerator and oracle; exhaustive on the bounded class)",
        text="One- and two-line systems over <=3 variables, coefficients in {-2..2} plus fractions and large/small magnitudes, "
             "all comparators, forms a*xi/xj, k/xj, a*xi*xj against affine right-hand sides, six variable-name schemes (x0.., "
             "x1/x10, a/b/c, spam/eggs/am, 12 letters, y) and three writing styles; matrices for linear_symbolic, consistent "
             "equality systems for solve, boxes for symbolic_bounds.  For every program the union of the cases simplify(all=True) "
             "returns (each with its sign conditions) must hold at exactly the grid points where the input holds (13x13 / 7x7x7 "
             "half-integer grids, points where the input is undefined excluded); simplify(all=False) must be one of those "
             "cases.  Quick: ~4.9k programs chosen by seed; thorough: the whole class.",
        note="trusted: TLC, the rendering of program records as text, the harness interpreter (python ast whitelisted to "
             "arithmetic and one comparison per line, exact Fractions; decimal literals read as the nearest small rational "
             "within 1e-12); exceptions/timeouts are counted as refused, never as violations (the property is conditional); "
             "known findings (zero case of an introduced variable factor dropped; products compared with 0; variable-free false "
             "lines; k/x = 0) are listed per input class in known_findings.jsonl; weakest fit of the technique: the "
             "implementation is stateless sympy-backed rewriting, TLC contributes enumeration and the oracle",
        design_ref="DESIGN.md section 4/C12"),
    "C13": dict(
        level="exploration",
        technique="TLA+ spec sym/LinRel.tla gives the compile semantics of isolated-form relations (allowed outputs: relation holds, "
                  "strictly for strict comparators; only x_i may change; feasible input unchanged) and of the box constraint; TLC "
                  "checks its lemmas (ScaleLemma, independence of lines) and emits every (system, input point, allowed "
                  "observation); each is replayed on the real generate_constraint(generate_solvers(text)) and boundsconstrain",
        text="Relations x_i op rhs for the six comparators incl. !=, right-hand sides constant / other variable / affine / "
             "nonlinear catalogue, 1-3 independent lines; 2 and 3 lines on the SAME left-hand variable (all comparator pairs incl. (<=,!=), (>=,!=), (=,!=), intervals incl. degenerate and empty, same and different right-hand sides, every line order; sym/LinRelGrp.tla gives the joint result per variable), alone and beside an independent line; boxes lo<=hi incl. unbounded and degenerate sides (symbolic and "
             "impose_bounds paths), every integer input point of the grid incl. exact boundary points, huge magnitudes (2^40, "
             "2^60) for degree-one systems, variable-name schemes incl. >=10 variables (x1 vs x10), named variables that are "
             "substrings of each other or of function names, inputs as list of float / list of int / ndarray: 162k cases quick. "
             "Compared: set of changed coordinates, relation holds weakly/strictly, feasible input returned unchanged, box "
             "clipping exact and identity inside.",
        note="trusted: TLC, rendering of relation records as text (harness/linrel_common.py, guarded by re-evaluating the "
             "rendered text), exact IEEE arithmetic on integer inputs; feasible inputs closer to the boundary than the "
             "documented tolerance 1e-15*(1+|rhs|) are outside the class; same-variable runs use even-integer inputs/constants so real-valued sign patterns are representable; systems contradictory at the input point are neither executed nor judged; replayed path is generate_solvers/generate_constraint on the isolated text",
        design_ref="DESIGN.md section 4/C13"),
    "C14": dict(
        level="exploration",
        technique="TLA+ spec sym/LinRel.tla gives the condition semantics (lhs - rhs oriented so that <= 0 means satisfied, "
                  "equalities 0) and the penalty as the documented sum of per-line terms; TLC emits every (constraint text, "
                  "evaluation point) with exact condition values and penalties; each is replayed on the real "
                  "generate_conditions / generate_penalty, and penalty(constraint(x)) = 0 is checked with C13's functions",
        text="1-3 lines m*x_i op rhs, six comparators, multipliers incl. negative, rhs affine/nonlinear catalogue; four penalty "
             "families (quadratic, linear, uniform, lagrange at iteration 0) x three multipliers k; integer evaluation points "
             "incl. exact boundaries, scales 2^40/2^60 for degree-one texts; rotating variable-name schemes (indexed, named, >=10 "
             "variables, substrings), extra locals (tol/rel) in default and dyadic mode: 65k cases quick.  Compared exactly: "
             "sign and value of every condition, equality/inequality classification, penalty zero exactly on the feasible set, "
             "positive elsewhere and equal to the documented sum; applying the generated constraint drives the penalty to zero.",
        note="trusted: TLC, the text rendering, exact IEEE arithmetic on integers; strict comparators: with the default locals the "
             "value must have the right sign and lie within 2*tolerance(rhs) of lhs-rhs (documented 1e-15 term); "
             "barrier_inequality is left to C15 (not zero on the feasible set by its own documentation)",
        design_ref="DESIGN.md section 4/C14"),
    "C18": dict(
        level="exploration",
        technique="TLA+ spec math/Moments.tla gives the textbook definitions in exact rational arithmetic and the post-conditions of "
                  "the impose_* transforms (target reached, promised quantities kept, designated weights zero) as a state "
                  "machine over (samples, weights); TLC enumerates every state and short transform sequence of the bounded class "
                  "and emits the exact values; each is replayed on the real mystic.math.measures functions",
        text="Every (samples, weights) with samples of length 1-3 (thorough 4) over small integers and weights over {0..3} (not "
             "all zero), as list and ndarray, weights=None on all-ones states: mean, variance, std, moments, spread, expectation, "
             "ess-extrema, norms, median/MAD and trimmed/winsorised variants against TLC's rationals; impose_mean/variance/std/"
             "moment/spread/sum/product/median/mad/expectation-free transforms, impose_support/unweighted/collapse over every "
             "index and pair selection: target reached, promised moments and total weight kept, designated weights zero; "
             "every emitted sequence of <=2 transform calls: 617k cases quick.",
        note="trusted: TLC, the transcription of the definitions (roots compared in squared/cubed form), the harness's exact "
             "Fraction instruments calibrated against TLC on every state; floats compared at abs 1e-12 + rel 1e-9 (stated, "
             "fixed); this decides definition conformance on exact small inputs, not numerical accuracy on ill-conditioned "
             "data; optimizer-based impose_reweighted_*/impose_expectation are not transcribed; degenerate premises (zero "
             "variance when a variance is imposed) excluded",
        design_ref="DESIGN.md section 4/C18"),
})


CHECKS.update({
    "C07": dict(
        level="model_checking",
        technique="TLA+ spec solver/Schedule.tla model-checked by TLC in two parts.  Part A (configuration confluence): one action "
                  "per Set* call with the cross-slot side effects the code has, every interleaving of every admissible K-subset, "
                  "invariants Confluent / SamePopulation / NoEvalDuringConfig.  Part B (schedule independence): a map whose work "
                  "items start, overlap and complete in any order with results stored by index, DE2 selection, the ensemble "
                  "last-minimum reduction and the step/solve drivers, invariants ScheduleIndependence / ModesAgree / "
                  "ResultAsSolve; designs that violate the property are refuted.  TLC emits every call order with its predicted "
                  "configuration record and every map schedule; the harness executes them on the real solvers and compares bit "
                  "for bit with the TLC record and with the canonical-order / serial run (spec->code)",
        text="Design: K=4/5/6 subsets of 17 Set* calls, 4 solver kinds, pre-run and live-solver templates; N<=4 work items, 2520 "
             "start/complete event schedules; 13 refuted designs (a Set* wiping another slot, re-seeding, drawing, evaluating; "
             "results consumed or reduced in completion order; '<' reduction; skipped last reduction) and 10 vacuity witnesses "
             "(thorough: 11M distinct states).  Implementation: configuration scripts for DE/DE2/Nelder-Mead/Powell (quick 2.8k: "
             "all 24 orders of seeded 4-subsets of 9 calls, all 120 orders of a 5-set; thorough 49k: all 720 orders of two "
             "6-sets ...): the configuration read from the solver equals TLC's record, no cost evaluation and no counter change "
             "during configuration, the random-generator state is independent of the call order, and the full trajectory "
             "(population, energies, best, counters, real calls, monitors, histories, Powell's direction set, generator "
             "states) equals the canonical order's after every Step.  DE2 under maps executing every TLC schedule inline, "
             "through forced real thread pools with overlapping execution, shuffles, free threads and forked processes, compared "
             "with the serial run after every Step.  Lattice/Buckshot ensembles with Nelder-Mead/Powell members under the same "
             "schedules (explicit bin layouts and an integer number of bins, whose layout is drawn before the members run), "
             "Solve vs repeated Step vs Solve(step=True): result, counters and per-member results identical.  Wrappers "
             "(solver/Wrappers.tla): per one-line wrapper (fmin, fmin_powell, diffev, diffev2, lattice, buckshot, sparsity) the "
             "class-API script an argument record denotes (which Set* call, value and documented default, termination rule, "
             "Solve keywords, return shape, resolved limits, warnflag); TLC checks keyword-order independence, locality and "
             "default resolution and emits every record with <=2 (quick 1.8k) / <=3 (thorough 25k) deviating keywords; the real "
             "wrapper and the denoted script run under the same seed and are compared bit for bit (evaluated points in order, "
             "monitor records, callbacks, returned fields, generator states).",
        note="trusted: TLC, the projection of private attributes onto the model's record, EventMap (verified to have executed the "
             "requested event sequence); premises: seed + initial-points call at a fixed place, drawing calls (tight=True) only "
             "when that unit is first or last, calls write distinct slots, monitors handed over empty, new=True limits not "
             "combined with a new=True monitor on a live solver (relative limits are documented to depend on the counters at "
             "call time: TLC refutes confluence when this premise is dropped); ensemble members draw no random numbers; wrappers: "
             "explicit documented-default values (id=None ...), fmin(xtol=0) and bounds+cliprange=False+step are not enumerated, a "
             "step=True ensemble call is judged by (xopt, fopt, multiset of evaluated points) against both readings of the "
             "ignored keyword (observations O1-O6 in the evidence); "
             "pathos/multiprocess maps are not available in the sandbox (a fork-per-item map stands in for DE2); "
             "SparsitySolver not run (fillpts runs a random DE)",
        design_ref="DESIGN.md section 4/C07"),
})


CHECKS.update({
    "C06": dict(
        level="model_checking",
        technique="TLA+ spec solver/Checkpoint.tla (several solver instances, a snapshot store, evaluation-counter cells on a heap, "
                  "the random-generator state as an explicit variable; Step() as the critical sections Iterate / Continue | Finalize "
                  "/ ForcedDump; actions Save, PeriodicDump, Load, DeepCopy, RestoreRng, Scramble, SetCfg, Raise) model-checked by TLC "
                  "for ResumeEquivalence (premised on generator labels and configuration history only), Independence (action "
                  "property) and CopyCounts, with eight named as-is designs refuted; solver/Gen_Checkpoint.tla drives the same actions as "
                  "crash/restore experiments: TLC enumerates every script and emits after every command which equalities, "
                  "counters and stop verdicts the specification asserts; the harness executes each script on real "
                  "DE/DE2/Nelder-Mead/Powell solvers and compares bit for bit what TLC asserted (spec->code)",
        text="Scripts = (solver kind, setting, interruption generation k, path, generator handling, mode): paths SaveSolver+"
             "LoadSolver, periodic SetSaveFrequency dump+LoadSolver, dill, deepcopy; generator restored or scrambled; modes none / "
             "original advances first / interleaved / restored instance gets its own limit / two restores from one snapshot / "
             "restore of a restored solver.  The reference, the original and every restored or copied instance are also driven INTO their "
             "stops (limit reached, finalized, forced dump), given the same raised limit (new=False / new=True) and continued.  "
             "Quick: 4 kinds x 12 settings (bounds, constraints, penalty, monitors, evaluation limits, save frequencies 1-3 that "
             "divide / do not divide the stop generation) x EVERY boundary k of runs of 8 generations incl. the stop "
             "generation x 4 paths = 2.6k scripts, 25k compared steps; thorough: 35k scripts over 74 groups, every k of n<=25, "
             "912k compared steps.  After every "
             "command the full projection of every live instance (population, energies, best, generations, evaluations, energy/"
             "solution history, step- and evaluation-monitor contents, limits, Terminated message, DE genealogy, Nelder-Mead "
             "simplex, Powell's direction set and internals) is compared NaN-aware and bit-exact with the uninterrupted run at "
             "the generation the specification names; every other instance must be unchanged; evaluations move by exactly the "
             "real objective calls of the acting instance.  Design: 225k (quick) / 7.2M (thorough) TLC states, 9 vacuity "
             "witnesses.",
        note="trusted: TLC, the harness projection and generator bookkeeping (random + numpy.random state saved at snapshot time "
             "and installed per instance), harness/c06_costs as the real-call counter; premises: user terminations never fire "
             "inside a run (stops come from limits, which the spec predicts), finite costs, default in-process map; not "
             "judged (the spec makes no claim): DE trajectory when the generator is not restored, the first step of a deep copy "
             "under strict ranges (re-decoration re-clips), copy.copy (shallow by definition), LoadSolver(**kwds) overrides",
        design_ref="DESIGN.md section 4/C06"),
})


CHECKS.update({
    "C11": dict(
        level="model_checking",
        technique="TLA+ specs term/CollapseDefs + CollapseCases (detectors and mask algebra as operators over bounded histories), "
                  "term/Collapse.tla (the loop Solve -> stop message -> Collapse -> Solve as a state machine: termination "
                  "configuration, recorded window, masks, applied pins and ties; CostCall enabled only at points satisfying every "
                  "collapsed relation) with Trace_Collapse.tla, and term/CollapseCost.tla, model-checked by TLC (design "
                  "invariants, action properties, <>Stopped under weak fairness; the as-found constraint composition, the "
                  "mask-replace and mask-keep rules and eight vacuity witnesses are refuted).  TLC emits every history of the "
                  "bounded class with the report of every detector configuration, and every reachable loop stop with the "
                  "expected effect of Collapse(); both are replayed on the real code (spec->code); recorded solver runs are "
                  "validated by TLC against Trace_Collapse.tla (code->spec)",
        text="Detector tables (quick 127k, thorough 4.9M cases): parameter histories (3 parameters over {0,1,2}, length <=3; 2 "
             "parameters, length <=4), tolerances {0,1/2,1,3/2,2}, windows {None,0..4}, targets None/scalar/per-parameter lists, "
             "offset on/off, masks None / every index set / pair sets in both orientations / dict, set and 'where' formats for "
             "weights and positions (equal-sized measures): the report of collapse_at/as/weight/position, of the Collapse* "
             "termination conditions (alone, under Or, through collapsed() and solver.Collapsed()), update_mask/get_mask, and "
             "re-feeding the output as mask (nothing new) are compared exactly.  Loop: every reachable stop of Collapse.tla "
             "(2.5k quick / 20k thorough) replayed through the public Collapse() on real DE, DE2, Nelder-Mead and Powell "
             "objects: reported pins and ties, masks afterwards, and the new constraints at every point of the domain.  "
             "Recorded runs (128 / 1152; all four kinds, 2-4 parameters, flat and tied directions, Solve() and manual Step/"
             "Collapse loops): reported disjoint from the mask, mask after = before + reported, never reported twice, every "
             "later cost call and the final solution satisfy every applied relation exactly, the solve ends.  The "
             "specification's parameters are additionally EMBEDDED at rotating non-monotone real positions (e.g. [1,8], "
             "[9,2,11], [3,8,1]) of 12-dimensional monitors and solvers with filler parameters that never collapse (detector "
             "tables, every loop stop, a third of the recorded runs), so that code depending on the iteration order of a collapse "
             "set is exercised; expectations remain TLC's.",
        note="trusted: TLC, float-equality interning to ids, reading state(solver._termination) for the masks; premises: small "
             "integer values and dyadic tolerances in the tables, equal-sized product-measure factors (DESIGN F9), applied "
             "relations jointly satisfiable, deterministic objectives, every run has limits; exclusions: collapse_cost interval "
             "search (mask algebra only), offset=True and CollapseCost inside the solver loop; fillers never collapse (their history keeps moving / they are masked for the "
             "spread tests); known findings (pin/tie and chained-tie composition order in __collapse_constraints; DE/DE2 "
             "incumbent best predating a collapse) are listed per clause in known_findings.jsonl",
        design_ref="DESIGN.md section 4/C11"),
})

PENDING = {}

# Growth after the first registration (appended to the texts above when MANIFEST.json is written; DESIGN.md 10.7)
GROWN = {
    "C01": " Grown: the drivers rotate how the caller WRITES numbers (python ints, integer ndarrays, tuples for bounds, starts "
           "and constraint results), start far from the origin under a rounding constraint, replace an integer box by a "
           "fractional sub-box before the first Step / between iterations, use a fractional box that rounding maps into itself, "
           "and draw DE populations with SetMultinormalInitialPoints / SetSampledInitialPoints as well.",
    "C02": " Grown: see C01 (spellings, re-boxing with truncation-widening boxes 'shifted'/'negshift', other initial-point setters).",
    "C03": " Grown: see C01 (integer-returning constraints, box 'fracround' on which clipping and rounding do not commute); the "
           "reported-solution clause also holds while no finite energy has been found (own clause name; DE kinds: known finding); "
           "starts deep behind an inf wall with stops after 1-3 iterations.",
    "C04": " Grown: configuration handed over as KEYWORDS of Step/Solve (Trace_Lifecycle.KwF/pend: Solve processes them on "
           "entry, Step only if it begins an iteration) - every script is also run in its keyword form; read-only QUERIES "
           "(Terminated(), Terminated(info=True), property reads) as the specified action Query = Resolve; objectives whose "
           "energies are exactly 0.0 / negative / integer-valued; Cover_Lifecycle's view distinguishes an evaluation monitor "
           "shorter than the counter and Step is driven from every abstract state; a trace rejected only on C05 clauses is "
           "validated again with C05 waived (state follows the observation) so that the rest is still judged on C04; FAULTS: the "
           "objective raises once at the k-th call and the caller goes on (TraceAbort: the failed call counts); a dedicated counter "
           "probe on objectives that return +inf (DE2 without evaluation monitor: known finding).",
    "C05": " Grown: the REAL interrupt path (specs/solver/Signal.tla, harness/c05_signal.py): handler installation by "
           "enable_signal_handler()/Solve, SIGINT raised from inside the cost function / callback with signal.raise_signal, the "
           "handler's menu (sol / call / cont / exit / unknown, any case) answered by a scripted builtins.input; TLC checks "
           "NoIterAfterExit, MsgNamesExit, RestoredAfterSolve, SolveStartsClean, StepKeepsRequest, CallbackCount and "
           "SolveReturns, emits every script (4,245 quick / 161,388 thorough) and each is replayed on the four solver kinds in "
           "forked workers.  Keyword forms, queries and the waive/follow re-validation as under C04 (here: C04 waived).",
    "C06": " Grown: ENSEMBLE solvers (specs/solver/CheckpointEns.tla, harness/c06_ens.py): an ensemble is a vector of member "
           "objects on a heap; lattice/NM, buckshot/Powell, lattice/Powell (thorough: sparsity/NM) driven by Step and Solve; "
           "ResumeEquivalence, Independence, CopyCounts, TotalIsSum over all members; six refuted designs incl. "
           "member_dump_clobbers (found on the pinned tree, repaired).  Monitor classes and their cost multiplier k rotate "
           "(Monitor / VerboseMonitor, the same with k=2, LoggingMonitor / VerboseLoggingMonitor with k=2); two settings on an "
           "objective with an inf wall (members that keep the solver's initial inf energy); in the odd settings the DE kinds run a "
           "non-default strategy handed over the way Solve does, restored / copied instances continue with a bare Step().",
    "C07": " Grown: ensembles also driven by the user's loop 'while not solver.Terminated(): solver.Step()' with read-only "
           "queries between the steps, on configurations without limits whose members outrun the ensemble's own defaults.",
    "C08": " Grown: Powell with caller-supplied direction sets spelled as int lists / integer arrays / tuples, also through "
           "fmin_powell; Nelder-Mead starts with tiny non-zero coordinates (1e-9 .. 5e-324) next to the exact-zero class; whole-"
           "generation DE replay with the falsy settings CrossProbability=0 / ScalingFactor=0 given as Step keywords.",
    "C09": " Grown: integer nbins include primes (5, 7) in 2 and 3 dimensions; GridGen.tla enumerates randomly_bin / samplepts / "
           "random_samples / fillpts calls over boundary values (ones/exact flags, N up to 1024, npts 0/10/12/100, denormal and "
           "1e299 boxes); Grid.tla at scales 5e-324..1e299 and with 4-12 bins; sample points also drawn from caller-supplied "
           "distributions with tails beyond the box; constructor / bounds / limit spellings rotate (harness/c09_spell.py).",
    "C10": " Grown: units 2^-1000..2^996 justified by TermMachine.Homogeneous, histories up to 32 entries with two-digit windows "
           "and limits, conditions created with no argument (defaults in an exact unit), negative targets, rising histories; "
           "spellings of settings, histories, counters, populations, gradients and TimeLimits rotate.",
    "C15": " Grown: condition values as ints / numpy scalars / 0-d arrays / -0.0, halves and thirds, 2^-500..2^500 through binary "
           "exponents, six spellings of ZeroDivision, args / kwds forms, k and h incl. 0 and omitted defaults, counters and "
           "stored lists up to 13, argument forms of iter / store / stored, with_penalty / as_penalty forms (harness/c15_spell.py).",
    "C17": " Grown: vectors and member results in seven / eight spellings, no member, 5-12 members, maxiter 10/12 and numpy ints, "
           "sentinel modes; couplers with kwds=, keyword call arguments, omitted function, scaled units, k*h^n at iteration n; "
           "bridges with omitted defaults and two-digit values.",
    "C19": " Grown: math/MeasureUnits.tla (units from 2^-1000 to 2^1000 with UnitsLaw / UnitsStep, center_mass = 0, loads with "
           "no or one value, off-lattice half steps, 10-12 points and 4-6 factors); every transition replayed a second time in a "
           "rotated spelling (number types, containers, keywords, index forms, setter routes; harness/c19_spell.py).",
    "C11": " Grown: a quick detector table with non-monotone windows over three values; MEASURE collapses in the solver loop "
           "(CollapseWeight / CollapsePosition on solvers whose parameter vector is a flattened product measure, "
           "harness/c11_measure.py): zero weights and tracked pairs as further relation kinds of Collapse.tla.",
    "C12": " Grown: program texts in four white-space spellings; symbolic_bounds at the magnitudes 1e-10, 1e10, 1e-300 and "
           "with more than 8 decimals.",
    "C13": " Grown: system texts in four white-space spellings and docstring layouts, number spellings (2., 2.0e+00, 17 digits), "
           "multi-digit constants and coefficients, 3-digit variable indices, nvars / locals omitted, input vectors as numpy "
           "scalars / int64 / float32, bounds at 12 units from 5e-324 to 1e300 (LinRel.BoxScaleLemma).",
    "C14": " Grown: as C13, plus the third tolerance reading tol=0 / rel=1/4 (R16), k = 0 and numpy / fractional / tiny / huge k, "
           "h given, bare condition / list forms of generate_penalty and generate_constraint.",
    "C16": " Grown: with_std; impose_measure / impose_position / impose_weight (cons/TransformsMeasure.tla: Track / NoWeight "
           "actions on product measures over exact rationals); the interval algebra behind interval_overlap "
           "(cons/Intervals.tla) and the pair helpers (cons/PairTools.tla); every case replayed a third time in a rotated "
           "parameter spelling x input spelling x magnitude (79 parameter spellings, setters f.index()/f.clip, ThmScale for the "
           "12 scale-free kinds; catalogues edge / long (length 11-13, indices 10-12, 100) / nano (1e-9 lattice, digits 8/9).",
    "C18": " Grown: math/Stats.tla (standardised moments, extrema and ess_ forms with tol, support / expectation with tol, "
           "weighted_select, trimmed / winsorised definitions over 7 cut shapes, impose_median / mad / tmean / tvariance / tstd, "
           "normalisation table incl. zsum / zmass and l1-l3 norms) and math/StatsDist.tla (matrix / pairwise / reduced forms "
           "of the distance metrics, Lnorm with axis, lipschitz metric and distance, infeasibility; moves Swap / Translate / "
           "Negate / RevCoords); the translation law (Moments.ShiftLaw) with moments asked on samples moved by +-2^22 (1e-6).",
    "C20": " Grown: log-file ids 0 (falsy) and two-digit ids / iteration numbers (MC_LogFile_long_*); 0-d array costs.",
}
for _i in range(1, 21):
    _id = "C%02d" % _i
    if _id not in CHECKS:
        PENDING[_id] = "check not built yet in this round (planned in DESIGN.md section 4); not claimed until its TLA+ spec and binding exist"


def build():
    checks = []
    for pid in sorted(CHECKS):
        c = CHECKS[pid]
        checks.append({
            "property_id": pid,
            "quick_cmd": "bin/check %s --tier quick" % pid,
            "thorough_cmd": "bin/check %s --tier thorough" % pid,
            "evidence_file": "/verif/evidence/%s.json" % pid,
            "replay_cmd_template": "bin/check %s --replay {path}" % pid,
            "engine": "tlc+python-harness",
            "level_claimed": {"category": c["level"], "text": c["text"] + GROWN.get(pid, ""),
                              "design_ref": c.get("design_ref", "DESIGN.md")},
            "level_note": c["note"],
            "technique": c["technique"],
        })
    m = {
        "version": 1,
        "setup_cmd": "bin/setup",
        "hooks": {
            "guard": "MYSTIC_VERIF",
            "enable": "no source hooks: mystic is sequential and every action's linearization point is the return of a public "
                      "call; the harness wraps the user callables it passes in and reads public attributes (bin/check exports "
                      "MYSTIC_VERIF=1 for uniformity; nothing in /repo reads it)",
            "baseline_off_cmd": "bin/baseline",
            "source_commits": [],
            "add_only": True,
        },
        "engines": [
            {"name": "tlc+python-harness", "path": "/verif/harness", "serves_properties": sorted(CHECKS),
             "kind_free_text": "explicit TLA+ specifications under /verif/specs checked by TLC 1.8; Python harness replays "
                               "TLC-generated behaviours into mystic (spec->code) and validates recorded mystic traces "
                               "against trace specs with TLC (code->spec)"}],
        "checks": checks,
        "notes": "All checks import mystic from /repo's working tree on every run (asserted), nothing is cached. "
                 "exit 0 = held, 1 = VIOLATION line printed, 2 = machinery failure. known_findings.jsonl lists genuine "
                 "defects (fixed ones suppress nothing).",
        "not_applicable": [{"property_id": k, "reason": PENDING[k]} for k in sorted(PENDING)],
    }
    return m


if __name__ == "__main__":
    with open(os.path.join(ROOT, "MANIFEST.json"), "w") as f:
        json.dump(build(), f, indent=1)
    print("MANIFEST.json written: %d checks, %d not claimed" % (len(CHECKS), len(PENDING)))
