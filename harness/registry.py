"""Single source for MANIFEST.json: `python -m harness.registry` rewrites it.

CHECKS: property id -> dict(level, technique, text, note, design_ref)
PENDING: property id -> reason it is not (yet) claimed
"""
import json, os

ROOT = os.path.dirname(os.path.dirname(os.path.abspath(__file__)))

CHECKS = {
    "C10": dict(
        level="model_checking",
        technique="TLA+ specs term/Termination+TermMachine+TermPop+TermTree model-checked by TLC (design invariants) and "
                  "every reachable spec state replayed into the real mystic.termination objects (spec->code MBT)",
        text="TLC enumerates every energy history (len<=4/5 over small integers and +inf), every small population and every "
             "And/Or/When tree (depth<=2/3) x leaf valuation, checks the design invariants (info names only satisfied "
             "leaves, When/singleton transparency, monotonicity) and emits the expected verdict of every catalogue "
             "condition; the harness applies the real closures/classes to a stub solver in that state and compares "
             "truth value, info, info='self' and the condition rebuilt from state/type. Exhaustive on the bounded class; "
             "nothing is claimed outside it.",
        note="trusted: TLC, the transcription of the documented inequalities into Termination.tla (IEEE semantics for +inf), "
             "exactness of float arithmetic on small integers/dyadic tolerances; TimeLimits/GradientNormTolerance not covered",
        design_ref="DESIGN.md section 4/C10"),
}

PENDING = {}
for _i in range(1, 21):
    _id = "C%02d" % _i
    if _id not in CHECKS:
        PENDING[_id] = "check not built yet in this round (planned in DESIGN.md section 4); not claimed until its TLA+ spec and binding exist"


def build():
    checks = []
    for pid in sorted(CHECKS):
        c = CHECKS[pid]
        checks.append({
            "property_id": pid,
            "quick_cmd": "bin/check %s --tier quick" % pid,
            "thorough_cmd": "bin/check %s --tier thorough" % pid,
            "evidence_file": "/verif/evidence/%s.json" % pid,
            "replay_cmd_template": "bin/check %s --replay {path}" % pid,
            "engine": "tlc+python-harness",
            "level_claimed": {"category": c["level"], "text": c["text"], "design_ref": c.get("design_ref", "DESIGN.md")},
            "level_note": c["note"],
            "technique": c["technique"],
        })
    m = {
        "version": 1,
        "setup_cmd": "bin/setup",
        "hooks": {
            "guard": "MYSTIC_VERIF",
            "enable": "no source hooks: mystic is sequential and every action's linearization point is the return of a public "
                      "call; the harness wraps the user callables it passes in and reads public attributes (bin/check exports "
                      "MYSTIC_VERIF=1 for uniformity; nothing in /repo reads it)",
            "baseline_off_cmd": "bin/baseline",
            "source_commits": [],
            "add_only": True,
        },
        "engines": [
            {"name": "tlc+python-harness", "path": "/verif/harness", "serves_properties": sorted(CHECKS),
             "kind_free_text": "explicit TLA+ specifications under /verif/specs checked by TLC 1.8; Python harness replays "
                               "TLC-generated behaviours into mystic (spec->code) and validates recorded mystic traces "
                               "against trace specs with TLC (code->spec)"}],
        "checks": checks,
        "notes": "All checks import mystic from /repo's working tree on every run (asserted), nothing is cached. "
                 "exit 0 = held, 1 = VIOLATION line printed, 2 = machinery failure. known_findings.jsonl lists genuine "
                 "defects (fixed ones suppress nothing).",
        "not_applicable": [{"property_id": k, "reason": PENDING[k]} for k in sorted(PENDING)],
    }
    return m


if __name__ == "__main__":
    with open(os.path.join(ROOT, "MANIFEST.json"), "w") as f:
        json.dump(build(), f, indent=1)
    print("MANIFEST.json written: %d checks, %d not claimed" % (len(CHECKS), len(PENDING)))
