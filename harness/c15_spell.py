"""C15 -- concretisation of the abstract cases of specs/pen/Penalty.tla on the real mystic.penalty closures.

The specification fixes WHAT a case is (types, k, h, condition tables, calls and their arguments); this module
fixes HOW it is written down in Python, and rotates deterministically through the legal spellings of every
input, so that the same abstract behaviour is replayed in many concrete forms:

  per behaviour (= freshly built closures), chosen from one integer `v` (Sp):
    * what the condition returns: float / int / np.float64 / np.int64 / np.float32 / 0-d array, and -0.0 for 0
    * how it divides by zero: 1.0/0, 1/0, 1%0, raise ZeroDivisionError, Fraction(1,0), Decimal(1)/Decimal(0), 0.0**-1
    * k and h as int / float / np.int64 / np.float64 / np.float32 / omitted (when equal to the type's default)
    * how the condition gets its data: closure / kwds= / args= / args= and kwds=
    * how the decorator is called: keywords / all positional / condition=..,args=None,kwds=None / args=(),kwds={}
    * innermost level on a zero base function: the decorator, constraints.with_penalty (4 call forms) or
      constraints.as_penalty (ptype positional / keyword / omitted / None; constraint data by closure / args / kwds;
      constraint returning list / tuple / ndarray; x with 1..3 coordinates, any of them displaced)
  per call (chosen from the call counter `q`):
    * x as list / tuple / float64 array / list of ints / int64 array / float32 array
    * iter() / iter(None) / iter(i=None); iter(i) / iter(i=i) / np.int64; same for store, with x= too
    * stored() / stored(None) / stored(i=None) / stored(slice(None)); stored(i) / stored(i-len) / np.int64 / i=
    * F(x) / F(x, extra) / F(x, extra=..) / F(x=x)  (extra arguments must reach the decorated base function)

Only legal inputs: a spelling is dropped where Python itself refuses it (np.int64 counters next to a 2**990
python-int k; float32 where the exact sums would not fit 24 bits).
"""
import math
from fractions import Fraction
from decimal import Decimal

import numpy as np

INF, ZD, NONE = 1000000, 999999, -1
PINF = float("inf")
NAN = float("nan")
OMIT = object()

DEFAULT_K = {1: 100, 2: 100, 3: INF, 4: INF, 5: 100, 6: 100, 7: 100, 8: 20, 9: 20}
DEFAULT_H = 5
INEXACT_TYPES = (5, 8)  # barrier_inequality (log), lagrange_inequality (division by 2k)

X_KINDS = ("list-float", "tuple-float", "ndarray-float64", "list-int", "ndarray-int64", "ndarray-float32")
CRET = ("float", "int", "np.float64", "np.int64", "np.float32", "0-d array", "float,-0.0")
ZDS = ("1.0/0", "1/0", "1%0", "raise ZeroDivisionError", "Fraction(1,0)", "Decimal(1)/Decimal(0)", "0.0**-1")
NUMSP = ("int", "float", "np.int64", "np.float64", "np.float32", "omitted")
CMODE = ("closure", "kwds=", "args=", "args=+kwds=")
CSTYLE = ("keywords", "positional", "condition=,args=None,kwds=None", "args=(),kwds={}")
INNER = ("decorator", "with_penalty", "as_penalty")
WVAR = ("with_penalty(ptype,k=,h=)", "with_penalty(ptype,None,None,k,h)", "with_penalty(ptype,kwds=..)", "with_penalty(ptype,(args,),..)")
AVAR = ("as_penalty(c,ptype,..)", "as_penalty(c,ptype=ptype,..)", "as_penalty(c,..) ptype omitted", "as_penalty(c,None,..)",
        "as_penalty(c,ptype,(args,),None,k,h)", "as_penalty(c,ptype,kwds=..)")
CONSRET = ("list", "tuple", "ndarray")
ITER_NONE = ("iter()", "iter(None)", "iter(i=None)")
ITER_I = ("iter(i)", "iter(i=i)", "iter(np.int64(i))")
STORE_NONE = ("store(x)", "store(x,None)", "store(x,i=None)", "store(x=x)")
STORE_I = ("store(x,i)", "store(x,i=i)", "store(x,np.int64(i))", "store(x=x,i=i)")
STORED_ALL = ("stored()", "stored(None)", "stored(i=None)", "stored(slice(None))")
STORED_I = ("stored(i)", "stored(i-len)", "stored(np.int64(i))", "stored(i=i)")
EVALS = ("F(x)", "F(x,extra)", "F(x,extra=..)", "F(x=x)")


def is_pow2(d):
    return d > 0 and (d & (d - 1)) == 0


# on the big state graphs (lean) the numpy / Decimal / Fraction spellings, which make every evaluation 1.5 times
# slower, take every fourth turn instead of every turn; python's own numbers take the others
LEAN = {"cret": (0, 1, 6, 2, 0, 1, 6, 3, 0, 1, 6, 4, 0, 1, 6, 5),
        "zd": (0, 1, 2, 4, 3, 6, 0, 5, 1, 2, 3, 6),
        "k": (0, 1, 5, 2, 0, 1, 5, 3, 0, 1, 5, 4),
        "h": (0, 1, 5, 2, 0, 1, 5, 3, 0, 1, 5, 4)}


class Sp(object):
    """the spelling of one behaviour, a deterministic function of the integer v (legacy: the single spelling the
    check used before the rotation existed)"""
    __slots__ = ("v", "legacy", "names", "lean")

    def __init__(self, v, legacy=False, lean=False):
        self.v, self.legacy, self.names, self.lean = int(v), bool(legacy), [], bool(lean)

    def pick(self, dim, options, stride=1, salt=0):
        if self.legacy:
            return 0
        if self.lean and dim in LEAN:
            cyc = LEAN[dim]
            return cyc[((self.v // stride) + salt) % len(cyc)]
        return ((self.v // stride) + salt) % len(options)

    def note(self, dim, name):
        self.names.append(dim + ":" + name)


def raise_zd(kind):
    if kind == 0:
        return 1.0 / 0
    if kind == 1:
        return 1 / 0
    if kind == 2:
        return 1 % 0
    if kind == 3:
        raise ZeroDivisionError("the condition is undefined here")
    if kind == 4:
        return Fraction(1, 0)
    if kind == 5:
        return Decimal(1) / Decimal(0)      # decimal.DivisionByZero, a subclass of ZeroDivisionError
    return 0.0 ** -1


def cond_value(c, den, se):
    """the float the abstract condition value c/den*2^se stands for"""
    return math.ldexp(c / den, se)


def typed_value(c, den, se, kind, f32ok):
    v = cond_value(c, den, se)
    integral = den == 1 and se == 0
    if kind == 1 and integral:
        return int(c)
    if kind == 2:
        return np.float64(v)
    if kind == 3 and integral:
        return np.int64(c)
    if kind == 4 and f32ok:
        return np.float32(v)
    if kind == 5:
        return np.array(v)
    if kind == 6 and c == 0:
        return -0.0
    return v


def num_value(num, den, e, kind, f32ok):
    """k or h = num/den*2^e in the spelling `kind` (falls back to float where the spelling cannot hold the value)"""
    if num == INF:
        if kind in (2, 3):
            return np.float64(PINF)
        if kind == 4 and f32ok:
            return np.float32(PINF)
        return PINF
    v = math.ldexp(num / den, e)
    if kind == 0 and den == 1 and e >= 0:
        return int(num) << e
    if kind == 2 and den == 1 and 0 <= e <= 40:
        return np.int64(int(num) << e)
    if kind == 3:
        return np.float64(v)
    if kind == 4 and f32ok and e == 0 and is_pow2(den):
        return np.float32(v)
    return v


def f32_safe(head, chain, maxn):
    """float32 condition values keep every intermediate of the whole chain exact: multiples of 1/4 below 2^22, and
    none of the types that divide or take a logarithm"""
    if chain["se"] or chain["ke"]:
        return False
    bound = max(abs(v) for v in head["base"][chain["b"] - 1])
    for L in chain["lv"]:
        if L["ty"] in INEXACT_TYPES:
            return False
        if L["kd"] != 1 or L["hd"] != 1 or head["den"][L["c"] - 1] not in (1, 2):
            return False
        if L["k"] == INF:
            continue
        cm = max(abs(c) for c in head["cond"][L["c"] - 1] if c != ZD)
        bound += 2 * L["k"] * max(1, L["h"]) ** maxn * cm * cm * (maxn + 2)
    return bound < 2 ** 22


def num32_safe(L, ke, maxn):
    """k or h of this level may be a float32: k*pow(h,n) stays an exact float32, and the type does no division"""
    if L["ty"] in (5, 8, 9) or ke != 0 or not is_pow2(L["kd"]) or not is_pow2(L["hd"]):
        return False
    if L["k"] == INF:
        return L["hd"] == 1 and L["h"] >= 1
    top = L["k"] * max(L["h"], L["hd"]) ** maxn
    return top < 2 ** 22 and L["kd"] * L["hd"] ** maxn < 2 ** 20


def make_cond(vals, zdk, mode):
    """the condition function and how its data reaches it: (cond, args, kwds)"""
    if mode == 0:
        def cond(x):
            v = vals[int(x[0]) - 1]
            if v is None:
                return raise_zd(zdk)
            return v
        return cond, (), {}
    if mode == 1:
        def cond(x, table=None):
            v = table[int(x[0]) - 1]
            if v is None:
                return raise_zd(zdk)
            return v
        return cond, (), {"table": vals}
    if mode == 2:
        def cond(x, table):
            v = table[int(x[0]) - 1]
            if v is None:
                return raise_zd(zdk)
            return v
        return cond, (vals,), {}
    def cond(x, front, back=None):
        i = int(x[0]) - 1
        v = front[i] if i < len(front) else back[i - len(front)]
        if v is None:
            return raise_zd(zdk)
        return v
    return cond, (vals[:2],), {"back": vals[2:]}


def call_ptype(ptype, cond, a, kw, kk, hh, style, kdef, hdef):
    kwargs = {}
    if kk is not OMIT:
        kwargs["k"] = kk
    if hh is not OMIT:
        kwargs["h"] = hh
    if style == 1:
        return ptype(cond, a if a else None, kw if kw else None, kdef if kk is OMIT else kk, hdef if hh is OMIT else hh)
    if style == 2:
        return ptype(condition=cond, args=a if a else None, kwds=kw if kw else None, **kwargs)
    if style == 3:
        return ptype(cond, args=tuple(a), kwds=dict(kw), **kwargs)
    if a:
        kwargs["args"] = a
    if kw:
        kwargs["kwds"] = kw
    return ptype(cond, **kwargs)


class Built(object):
    __slots__ = ("F", "how", "XV", "XV0", "extra_ok", "cell", "sp", "np_index_ok", "D")


def build(mp, mcons, head, chain, sp, maxn=3):
    """-> Built: F[l] the real penalised function of level l+1 (F[0] outermost), X variants, ..."""
    types, ctabs, dens, btabs = head["types"], head["cond"], head["den"], head["base"]
    se, ke = chain["se"], chain["ke"]
    btab = [float(v) for v in btabs[chain["b"] - 1]]
    D = len(chain["lv"])
    legacy = sp.legacy
    f32ok = (not legacy) and f32_safe(head, chain, maxn)
    cell = [((), {})]

    def base(x, *a, **kw):
        if (a, kw) != cell[0]:
            return NAN                  # the extra arguments of F(x, ...) did not arrive unchanged
        return btab[int(x[0]) - 1]

    xlen = 1 + sp.pick("xlen", (1, 2, 3))
    b = Built()
    b.D, b.sp, b.cell = D, sp, cell
    b.extra_ok = not legacy
    b.np_index_ok = ke == 0
    F, how = [None] * D, [None] * D
    inner = base
    for l in reversed(range(D)):
        L = chain["lv"][l]
        ty = L["ty"]
        ptype = getattr(mp, types[ty - 1])
        tab, den = ctabs[L["c"] - 1], dens[L["c"] - 1]
        innermost_zero = (l == D - 1) and not any(btab)
        as_ok = innermost_zero and ZD not in tab and min(tab) >= 0 and se == 0 and den in (1, 2)
        # ---- k, h
        lev32 = f32ok and num32_safe(L, ke, maxn)
        if legacy:
            kk = PINF if L["k"] == INF else num_value(L["k"], L["kd"], ke, 0, False)
            hh = num_value(L["h"], L["hd"], 0, 0, False)
            kdef = hdef = None
        else:
            ks = sp.pick("k", NUMSP, 1, 2 * l + 1)
            hs = sp.pick("h", NUMSP, 6, l)
            if abs(ke) > 40 and hs == 2:
                hs = 0                 # a python-int k beyond 2^63 times an np.int64 h: OverflowError in numpy, not mystic's business
            k_is_default = L["k"] == DEFAULT_K[ty] and L["kd"] == 1 and (ke == 0 or L["k"] == INF)
            h_is_default = L["h"] == DEFAULT_H and L["hd"] == 1
            kdef = num_value(L["k"], L["kd"], ke, 1, False)
            hdef = num_value(L["h"], L["hd"], 0, 0, False)
            if k_is_default and ks % 2:
                ks = 5                 # the few chains whose k is the type's default leave it out every other time
            kk = OMIT if (ks == 5 and k_is_default) else num_value(L["k"], L["kd"], ke, ks if ks < 5 else 0, lev32)
            hh = OMIT if (hs == 5 and h_is_default) else num_value(L["h"], L["hd"], 0, hs if hs < 5 else 1, lev32)
            sp.note("k", "omitted" if kk is OMIT else type(kk).__name__ + ("(inf)" if L["k"] == INF else ""))
            sp.note("h", "omitted" if hh is OMIT else type(hh).__name__)
        # ---- the condition's values
        cr = 0 if legacy else sp.pick("cret", CRET, 1, 3 * l)
        zdk = 0 if legacy else sp.pick("zd", ZDS, 3, l)
        vals = [None if c == ZD else typed_value(c, den, se, cr, f32ok) for c in tab]
        if not legacy:
            got = set(type(v).__name__ for v in vals if v is not None)
            sp.note("condition returns", "/".join(sorted(got)) + (",-0.0" if cr == 6 and 0 in tab else ""))
            if ZD in tab:
                sp.note("zerodivision", ZDS[zdk])
        # ---- construction
        if legacy:
            if innermost_zero and ZD not in tab and min(tab) >= 0 and den == 1 and se == 0:
                route = 2
            elif innermost_zero:
                route = 1
            else:
                route = 0
        else:
            route = sp.pick("inner", INNER, 2, 0) if innermost_zero else 0
            if route and as_ok:
                route = 2              # the few chains whose condition can be a norm go through as_penalty 2 times out of 3
            elif route == 2:
                route = 1
        if route == 2:
            shift = [cond_value(c, den, 0) for c in tab]
            av = 0 if legacy else sp.pick("as_penalty", AVAR, 6, 0)
            if not legacy and ty == 1:
                # only quadratic_equality can leave ptype out / pass None: those two forms take two turns out of three
                av = (2, 3, 0, 2, 3, 1, 2, 3, 4, 2, 3, 5)[(sp.v // 6) % 12]
            rk = 0 if legacy else (sp.v + sp.v // 6) % 3
            jc = 0 if legacy else (sp.v // 3) % xlen
            conv = (list, tuple, np.array)[rk]
            if av == 4:
                def constraint(x, sh, jc=jc, conv=conv):
                    y = list(x)
                    y[jc] = y[jc] + sh[int(x[0]) - 1]
                    return conv(y)
            elif av == 5:
                def constraint(x, sh=None, jc=jc, conv=conv):
                    y = list(x)
                    y[jc] = y[jc] + sh[int(x[0]) - 1]
                    return conv(y)
            else:
                def constraint(x, jc=jc, conv=conv, sh=shift):
                    y = list(x)
                    y[jc] = y[jc] + sh[int(x[0]) - 1]
                    return conv(y)
            kwargs = {}
            if kk is not OMIT:
                kwargs["k"] = kk
            if hh is not OMIT:
                kwargs["h"] = hh
            if av == 1:
                f = mcons.as_penalty(constraint, ptype=ptype, **kwargs)
            elif av == 2 and ty == 1:
                f = mcons.as_penalty(constraint, **kwargs)
            elif av == 3 and ty == 1:
                f = mcons.as_penalty(constraint, None, **kwargs)
            elif av == 4:
                f = mcons.as_penalty(constraint, ptype, (shift,), None, kdef if kk is OMIT else kk, hdef if hh is OMIT else hh)
            elif av == 5:
                f = mcons.as_penalty(constraint, ptype, kwds={"sh": shift}, **kwargs)
            else:
                f = mcons.as_penalty(constraint, ptype, **kwargs)
            how[l] = "as_penalty" if legacy else "%s, constraint returns %s, displaces x[%d] of %d" % (
                AVAR[av if (ty == 1 or av not in (2, 3)) else 0], CONSRET[rk], jc, xlen)
            b.extra_ok = False
            if not legacy:
                sp.note("inner", AVAR[av if (ty == 1 or av not in (2, 3)) else 0])
                sp.note("constraint returns", CONSRET[rk])
        elif route == 1:
            wv = 0 if legacy else sp.pick("with_penalty", WVAR, 1, 0)
            cond, a, kw = make_cond(vals, zdk, (0, 0, 1, 2)[wv])
            if wv == 1:
                f = mcons.with_penalty(ptype, None, None, kdef if kk is OMIT else kk, hdef if hh is OMIT else hh)(cond)
            else:
                kwargs = {}
                if kk is not OMIT:
                    kwargs["k"] = kk
                if hh is not OMIT:
                    kwargs["h"] = hh
                if wv == 2:
                    f = mcons.with_penalty(ptype, kwds=kw, **kwargs)(cond)
                elif wv == 3:
                    f = mcons.with_penalty(ptype, a, **kwargs)(cond)
                else:
                    f = mcons.with_penalty(ptype, **kwargs)(cond)
            how[l] = "with_penalty" if legacy else WVAR[wv]
            b.extra_ok = False
            if not legacy:
                sp.note("inner", WVAR[wv])
        else:
            if legacy:
                mode, style = (1 if (l + D) % 2 == 0 else 0), 0
            else:
                mode = sp.pick("cmode", CMODE, 1, l)
                style = sp.pick("cstyle", CSTYLE, 4, 2 * l)
                sp.note("condition data", CMODE[mode])
                sp.note("decorator call", CSTYLE[style])
                if innermost_zero:
                    sp.note("inner", "decorator")
            cond, a, kw = make_cond(vals, zdk, mode)
            f = call_ptype(ptype, cond, a, kw, kk, hh, style, kdef, hdef)(inner)
            how[l] = ("decorator" + ("+kwds" if kw else "")) if legacy else "decorator: data by %s, call by %s" % (CMODE[mode], CSTYLE[style])
        F[l] = f
        inner = f
    b.F, b.how = F, how
    # ---- the probe points in every spelling (coordinate 0 identifies the probe; the others are ballast)
    NX = len(ctabs[0])
    tail = [0.0, 7.0][:xlen - 1]
    XV = []
    for kind in range(len(X_KINDS)):
        row = []
        for p in range(1, NX + 1):
            fl = [float(p)] + tail
            if kind == 0 or legacy:
                row.append(fl)
            elif kind == 1:
                row.append(tuple(fl))
            elif kind == 2:
                row.append(np.array(fl))
            elif kind == 3:
                row.append([int(t) for t in fl])
            elif kind == 4:
                row.append(np.array([int(t) for t in fl]))
            else:
                row.append(np.array(fl, dtype=np.float32))
        XV.append(row)
    b.XV = XV
    b.XV0 = [[[float(t) for t in xv] for xv in row] for row in XV]
    if not legacy:
        sp.note("x coordinates", str(xlen))
    return b


# ------------------------------------------------------------------------------------------------
# the calls, in the spelling chosen by the counter q
def apply_op(b, e, q):
    o, j, x, i = e[0], e[1], e[2], e[3]
    f = b.F[j - 1]
    if b.sp.legacy:
        if o == "I":
            return f.iter() if i == NONE else f.iter(i)
        if o == "C":
            return f.clear()
        X = b.XV[0]
        return f.store(X[x - 1]) if i == NONE else f.store(X[x - 1], i)
    if o == "C":
        return f.clear()
    if o == "I":
        if i == NONE:
            r = q % 3
            return f.iter() if r == 0 else (f.iter(None) if r == 1 else f.iter(i=None))
        r = q % 3
        if r == 2 and not b.np_index_ok:
            r = 0
        return f.iter(i) if r == 0 else (f.iter(i=i) if r == 1 else f.iter(np.int64(i)))
    xv = b.XV[q % 6][x - 1]
    r = (q // 6) % 4
    if i == NONE:
        if r == 0:
            return f.store(xv)
        if r == 1:
            return f.store(xv, None)
        if r == 2:
            return f.store(xv, i=None)
        return f.store(x=xv)
    if r == 0:
        return f.store(xv, i)
    if r == 1:
        return f.store(xv, i=i)
    if r == 2:
        return f.store(xv, np.int64(i))
    return f.store(x=xv, i=i)


def op_spelling(b, e, q):
    o, i = e[0], e[3]
    if b.sp.legacy or o == "C":
        return None
    if o == "I":
        return ITER_NONE[q % 3] if i == NONE else ITER_I[q % 3 if (b.np_index_ok or q % 3 != 2) else 0]
    return X_KINDS[q % 6] + " " + (STORE_NONE if i == NONE else STORE_I)[(q // 6) % 4]


def get_stored(b, l, q):
    f = b.F[l]
    if b.sp.legacy:
        return f.stored()
    r = q % 4
    if r == 0:
        return f.stored()
    if r == 1:
        return f.stored(None)
    if r == 2:
        return f.stored(i=None)
    return f.stored(slice(None))


def get_stored_i(b, l, i, n, q):
    f = b.F[l]
    if b.sp.legacy:
        return f.stored(i)
    r = q % 4
    if r == 0:
        return f.stored(i)
    if r == 1:
        return f.stored(i - n)
    if r == 2:
        return f.stored(np.int64(i))
    return f.stored(i=i)


def get_eval(b, l, x, q):
    f = b.F[l]
    if b.sp.legacy:
        return f(b.XV[0][x])
    xv = b.XV[q % 6][x]
    r = (q // 6) % 4
    if r == 0 or (not b.extra_ok and r != 3):
        return f(xv)
    if r == 3:
        return f(x=xv)
    cell = b.cell
    try:
        if r == 1:
            cell[0] = ((7,), {})
            return f(xv, 7)
        cell[0] = ((), {"extra": 7})
        return f(xv, extra=7)
    finally:
        cell[0] = ((), {})


def get_error(b, l, x, q):
    f = b.F[l]
    if b.sp.legacy:
        return f.error(b.XV[0][x])
    xv = b.XV[(q + 1) % 6][x]
    return f.error(xv) if (q // 6) % 2 == 0 else f.error(x=xv)


def obs_spelling(b, kind, q):
    if b.sp.legacy:
        return None
    if kind == "stored":
        return STORED_ALL[q % 4]
    if kind == "stored_i":
        return STORED_I[q % 4]
    if kind == "eval":
        r = (q // 6) % 4
        return X_KINDS[q % 6] + " " + EVALS[r if (b.extra_ok or r in (0, 3)) else 0]
    if kind == "error":
        return X_KINDS[(q + 1) % 6] + (" error(x)" if (q // 6) % 2 == 0 else " error(x=x)")
    return None


def mutated_inputs(b):
    """the caller's x objects (lists, tuples, int / float arrays) must come back unchanged from every call"""
    bad = []
    for kind, (row, row0) in enumerate(zip(b.XV, b.XV0)):
        for p, (xv, x0) in enumerate(zip(row, row0)):
            if len(xv) != len(x0) or [float(t) for t in xv] != x0:
                bad.append((X_KINDS[kind], p + 1, x0, [float(t) for t in xv]))
    return bad
